(* C02: the transactions as the code has them since 84081f2 (fix of D39), for the E2 correspondence.
   Definitions only.

   model/Graph.v's step_op is what the theorems of props/C02.v are about.  Since 84081f2 a transaction of
   the code additionally (a) clears the deferred flag of the steps that consume a node which the
   transaction re-attached (trigger step_node_undefer_reattached; GraphExt.undefer_post), and
   (b) validate_dynamic_job parks a step with deferred = has_unusable_dynamic_input.  C09 keeps Graph.v
   as it is and models both in the top layer model/GraphExt.v.  The comparisons of harness/p_c02.py with
   the real Workflow use the functions below: Graph.step_op followed by GraphExt.undefer_post (on the
   tree-free states of C02's generators GraphExt.step_op_x of the lifted operation is the same function,
   C09_tree_free_simulation).  The pair theorems are unaffected as long as no consumer of a re-attached
   node is deferred; the class where it matters is reported as C02:noncommute:defer-vs-reattach. *)
From Coq Require Import List NArith Bool.
From SV Require Import lib.Bytes model.Graph model.GraphDump model.GraphInv model.GraphTree model.GraphTreeInv
                       model.GraphCheck model.GraphExt model.Commute.
Import ListNotations.
Open Scope N_scope.

Definition step_op_e (o : op) (s : st) : res st :=
  match o with
  | OpValidatePending l => set_sstate l SPending (has_unusable_dynamic_input l s) s
  | _ => match step_op o s with
         | Ok s' => Ok (undefer_post s s')
         | Usage t => Usage t
         | Internal t => Internal t
         end
  end.
Definition apply_op_e (s : st) (o : op) : st := match step_op_e o s with Ok s' => s' | _ => s end.
Definition run_ops_e (ops : list op) (s : st) : st := fold_left apply_op_e ops s.
Definition okb_e (o : op) (s : st) : bool := match step_op_e o s with Ok _ => true | _ => false end.
Fixpoint all_ok_e (ops : list op) (s : st) : bool :=
  match ops with [] => true | o :: ops' => okb_e o s && all_ok_e ops' (apply_op_e s o) end.
Definition accepted2_e (a b : op) (s : st) : bool := okb_e a s && okb_e b (apply_op_e s a).

Definition both_orders_e (r1 r2 : op) (s : st) : verdict :=
  let a12 := accepted2_e r1 r2 s in
  let a21 := accepted2_e r2 r1 s in
  if negb (Bool.eqb a12 a21) then VDiffSuccess
  else if a12 then
         if st_equivb (apply_op_e (apply_op_e s r1) r2) (apply_op_e (apply_op_e s r2) r1)
         then VCommute else VDiffGraph
       else VBothReject.

Definition order_ok_e (s : st) (a b : op) (exp : outcome * outcome * dump) : bool :=
  let '(oa, ob, d) := exp in
  let ra := step_op_e a s in
  let s1 := apply_op_e s a in
  let rb := step_op_e b s1 in
  outcome_eqb (outcome_of ra) oa && outcome_eqb (outcome_of rb) ob &&
  dump_eqb (dump_of (apply_op_e s1 b)) d.
Definition orders_check_e (cap : N) (ops : list op) (cases : list orders_case) : bool :=
  let s := run_ops_e ops (init_st cap) in
  forallb (fun c => let '(r1, r2, e12, e21) := c in order_ok_e s r1 r2 e12 && order_ok_e s r2 r1 e21) cases.
Definition orders_bad_e (cap : N) (ops : list op) (cases : list orders_case) : list bool :=
  let s := run_ops_e ops (init_st cap) in
  map (fun c => let '(r1, r2, e12, e21) := c in order_ok_e s r1 r2 e12 && order_ok_e s r2 r1 e21) cases.

Fixpoint run_outcomes_e (tr : list (op * outcome)) (s : st) : option st :=
  match tr with
  | [] => Some s
  | (o, oc) :: tr' =>
    if outcome_eqb (outcome_of (step_op_e o s)) oc then run_outcomes_e tr' (apply_op_e s o) else None
  end.
Definition rerun_case_ok_e (s : st) (c : list (op * outcome) * dump) : bool :=
  match run_outcomes_e (fst c) s with Some s' => dump_eqb (dump_of s') (snd c) | None => false end.
Definition rerun_check_e (cap : N) (base : list (op * outcome)) (cases : list (list (op * outcome) * dump)) : bool :=
  match run_outcomes_e base (init_st cap) with
  | Some s => forallb (rerun_case_ok_e s) cases
  | None => false
  end.
Definition rerun_bad_e (cap : N) (base : list (op * outcome)) (cases : list (list (op * outcome) * dump)) : list bool :=
  match run_outcomes_e base (init_st cap) with
  | Some s => map (rerun_case_ok_e s) cases
  | None => []
  end.
