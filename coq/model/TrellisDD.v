(* model/TrellisDD.v -- executable model of Trellis.delete_detached and of the Workflow override.
   Definitions only (proofs: proofs/TrellisDDProofs.v).

   Nodes are keyed by (kind, label) as in the UNIQUE index node_kind_label; no integer ids.
   One record type carries the columns of the satellite rows that the cleanup code reads:
   file.state / file.hash for file nodes, the presence of a stored step hash, step._implied_need
   and step.state for step nodes.  Columns of other kinds are ignored by every function below.

   Code modelled (re-read in round 1 at /repo 8a73975):
     trellis.py  Trellis.delete_detached, Node.del_all_sources
     workflow.py Workflow.delete_detached (pre-step), Workflow.mark_dir_to_be_deleted
     file.py     File.before_delete        step.py  Step.before_delete, Step.after_lost_product
   The iteration order inside one sweep of the SQL cursor is not specified by SQLite while rows
   are being deleted; the model deletes one eligible node at a time (first in list order) until
   none is left.  dd_survivors (proofs) shows the surviving set does not depend on that order. *)
From Coq Require Import List NArith Bool.
From SV Require Import lib.Bytes.
From SV Require Import gen.GenClean.
Import ListNotations.
Open Scope N_scope.

Definition key := (N * str)%type.
Definition KROOT : N := 0.
Definition KFILE : N := 1.
Definition KSTEP : N := 2.
Definition KTREE : N := 3.

Definition key_eqb (a b : key) : bool := N.eqb (fst a) (fst b) && str_eqb (snd a) (snd b).

Record node := mkNode {
  nkey : key;
  ncreator : option key;   (* node.creator; the root is its own creator *)
  ndet : bool;             (* node.detached *)
  nfstate : N;             (* file.state (FileState value), files only *)
  nfhash : option N;       (* file.hash: abstract identity of (digest, mode, size), files only *)
  nshash : bool;           (* a step_hash row exists, steps only *)
  nneed : N;               (* step._implied_need, steps only *)
  nsstate : N              (* step.state, steps only *)
}.

Record graph := mkGraph {
  gnodes : list node;
  gdeps : list (key * key)   (* dependency rows (source, sink) *)
}.

Definition nkind (n : node) : N := fst (nkey n).
Definition nlabel (n : node) : str := snd (nkey n).

Definition creator_is (k : key) (n : node) : bool :=
  match ncreator n with Some c => key_eqb c k | None => false end.

(* EXISTS (SELECT 1 FROM node AS cnode WHERE node.i = cnode.creator) *)
Definition has_product (g : graph) (k : key) : bool := existsb (creator_is k) (gnodes g).
(* EXISTS (SELECT 1 FROM dependency WHERE node.i = dependency.source) *)
Definition has_sink (g : graph) (k : key) : bool := existsb (fun d => key_eqb (fst d) k) (gdeps g).

(* The WHERE clause of the query in Trellis.delete_detached. *)
Definition eligible (g : graph) (n : node) : bool :=
  ndet n && negb (has_product g (nkey n)) && negb (has_sink g (nkey n)).

(* node.del_all_sources(); DELETE FROM node WHERE i = ?   (satellite rows go by cascade) *)
Definition del_node (g : graph) (k : key) : graph :=
  mkGraph (filter (fun n => negb (key_eqb (nkey n) k)) (gnodes g))
          (filter (fun d => negb (key_eqb (snd d) k)) (gdeps g)).

(* The settling loop.  acc collects the deleted rows, most recent first. *)
Fixpoint dd_loop (fuel : nat) (g : graph) (acc : list node) : graph * list node :=
  match fuel with
  | O => (g, acc)
  | S f =>
      match find (eligible g) (gnodes g) with
      | None => (g, acc)
      | Some n => dd_loop f (del_node g (nkey n)) (n :: acc)
      end
  end.

(* One deletion removes at least one row, so |nodes| iterations always suffice (dd_terminates). *)
Definition dd_fuel (g : graph) : nat := length (gnodes g).
Definition dd_raw (g : graph) : graph * list node := dd_loop (dd_fuel g) g [].

(* creator_is: creators of deleted nodes (a deleted creator is no longer present afterwards). *)
Definition lost_creators (deleted : list node) : list key :=
  flat_map (fun n => match ncreator n with Some c => [c] | None => [] end) deleted.

Definition mem_key (k : key) (l : list key) : bool := existsb (key_eqb k) l.

Definition set_nshash (n : node) (b : bool) : node :=
  mkNode (nkey n) (ncreator n) (ndet n) (nfstate n) (nfhash n) b (nneed n) (nsstate n).

(* after_lost_product on a surviving creator: Step -> delete_hash; StaticTree -> nothing;
   File and Root raise AssertionError (reported through dd_err). *)
Definition after_lost (lost : list key) (n : node) : node :=
  if mem_key (nkey n) lost && (nkind n =? KSTEP) then set_nshash n false else n.

Definition lost_error (lost : list key) (n : node) : bool :=
  mem_key (nkey n) lost && ((nkind n =? KFILE) || (nkind n =? KROOT)).

Record dd_out := mkDD {
  dd_g : graph;
  dd_deleted : list node;   (* in deletion order *)
  dd_err : bool             (* an AssertionError of after_lost_product *)
}.

Definition trellis_dd (g : graph) : dd_out :=
  let '(g1, acc) := dd_raw g in
  let lost := lost_creators acc in
  mkDD (mkGraph (map (after_lost lost) (gnodes g1)) (gdeps g1))
       (rev acc)
       (existsb (lost_error lost) (gnodes g1)).

(* ---- Workflow.delete_detached: detach unused files of attached static trees first ---------- *)

Definition find_node (g : graph) (k : key) : option node :=
  find (fun n => key_eqb (nkey n) k) (gnodes g).

Definition attached (g : graph) (k : key) : bool :=
  match find_node g k with Some n => negb (ndet n) | None => false end.

(* any(file.sinks()): sinks() skips detached nodes *)
Definition has_attached_sink (g : graph) (k : key) : bool :=
  existsb (fun d => key_eqb (fst d) k && attached g (snd d)) (gdeps g).

(* Node.detach on a node without products: creator := NULL, detached := TRUE *)
Definition detach_leaf (n : node) : node :=
  mkNode (nkey n) None true (nfstate n) (nfhash n) (nshash n) (nneed n) (nsstate n).

Definition prestep_node (g : graph) (n : node) : node :=
  match ncreator n with
  | Some c =>
      if (fst c =? KTREE) && attached g c && negb (has_attached_sink g (nkey n))
      then detach_leaf n else n
  | None => n
  end.

Definition prestep (g : graph) : graph := mkGraph (map (prestep_node g) (gnodes g)) (gdeps g).

Definition workflow_dd (g : graph) : dd_out := trellis_dd (prestep g).

(* ---- Workflow.to_be_deleted ------------------------------------------------------------------
   Keys with a trailing separator are directories (value always None); file labels never end in a
   separator (File.adjust_label), so the dict is modelled as two maps. *)

Record queue := mkQ {
  qfiles : list (str * option N);   (* path -> Some recorded hash | None (volatile); first entry wins *)
  qdirs : list str                  (* normalised directory paths, no trailing separator *)
}.
Definition empty_queue : queue := mkQ [] [].

Definition SLASH : N := 47.
Definition DOT : N := 46.

Definition qfile_get (q : queue) (p : str) : option (option N) :=
  match find (fun e => str_eqb (fst e) p) (qfiles q) with Some e => Some (snd e) | None => None end.

(* dict assignment *)
Definition qfile_set (q : queue) (p : str) (v : option N) : queue :=
  mkQ ((p, v) :: filter (fun e => negb (str_eqb (fst e) p)) (qfiles q)) (qdirs q).

(* posixpath.dirname of a relative path: everything before the last separator *)
Fixpoint drop_last_comp_rev (r : str) : str :=
  match r with
  | [] => []
  | c :: t => if c =? SLASH then t else drop_last_comp_rev t
  end.
Definition dirname (p : str) : str := rev (drop_last_comp_rev (rev p)).

Fixpoint last_comp_rev (r : str) : str :=
  match r with
  | [] => []
  | c :: t => if c =? SLASH then [] else c :: last_comp_rev t
  end.
Definition basename (p : str) : str := rev (last_comp_rev (rev p)).

(* normpath restricted to what reaches mark_dir_to_be_deleted: labels are normalised relative
   paths, working directories are normalised relative paths with an optional trailing separator
   or a leading "./" (assumption A-norm; the general function is C20's subject). *)
Fixpoint strip_trailing_slash_rev (r : str) : str :=
  match r with
  | c :: t => if c =? SLASH then strip_trailing_slash_rev t else r
  | [] => []
  end.
Fixpoint strip_dot_slash (fuel : nat) (p : str) : str :=
  match fuel with
  | O => p
  | S f => match p with
           | a :: b :: t => if (a =? DOT) && (b =? SLASH) then strip_dot_slash f t else p
           | _ => p
           end
  end.
Definition normdir (p : str) : str :=
  let q := strip_dot_slash (length p) (rev (strip_trailing_slash_rev (rev p))) in
  match q with [] => [DOT] | _ => q end.

Definition is_dot (p : str) : bool := str_eqb p [DOT].

(* labels (with trailing separator) of the attached static trees *)
Definition attached_tree_labels (g : graph) : list str :=
  map nlabel (filter (fun n => (nkind n =? KTREE) && negb (ndet n)) (gnodes g)).

(* Workflow._find_owning_static_tree(d) is not None: label = substr(d + "/", 1, length(label)) *)
Definition owned_by_tree (trees : list str) (d : str) : bool :=
  existsb (fun t => is_prefix t (d ++ [SLASH])) trees.

(* Workflow.mark_dir_to_be_deleted.  Whether directories of attached static trees are skipped is
   REGENERATED from the source (gen/GenClean.v: mark_dir_skips_static_trees). *)
Definition mark_dir (trees : list str) (q : queue) (d : str) : queue :=
  let n := normdir d in
  if is_dot n || (mark_dir_skips_static_trees && owned_by_tree trees n) then q
  else mkQ (qfiles q) (n :: qdirs q).

(* Step.command_and_workdir[1]: label.split("  # wd=", maxsplit=1) *)
Definition WD_MARK : str := [32; 32; 35; 32; 119; 100; 61].
Fixpoint workdir_of (l : str) : str :=
  match l with
  | [] => [DOT]
  | c :: t => if is_prefix WD_MARK l then skipn (length WD_MARK) l else workdir_of t
  end.

Definition memN (x : N) (l : list N) : bool := existsb (N.eqb x) l.

(* File.before_delete / Step.before_delete; other kinds queue nothing *)
Definition before_delete (trees : list str) (n : node) (q : queue) : queue :=
  if nkind n =? KFILE then
    let q1 :=
      if memN (nfstate n) bd_volatile_states then qfile_set q (nlabel n) None
      else if memN (nfstate n) bd_hashed_states then
        match nfhash n with Some h => qfile_set q (nlabel n) (Some h) | None => q end
      else q in
    mark_dir trees q1 (dirname (nlabel n))
  else if nkind n =? KSTEP then mark_dir trees q (workdir_of (nlabel n))
  else q.

Definition queue_deleted (trees : list str) (deleted : list node) (q : queue) : queue :=
  fold_left (fun q n => before_delete trees n q) deleted q.

(* ---- finalize.revert_optional_steps -------------------------------------------------------- *)

Definition is_optional_step (n : node) : bool :=
  (nkind n =? KSTEP) && negb (ndet n) && (nneed n =? revert_need).

Definition optional_keys (g : graph) : list key := map nkey (filter is_optional_step (gnodes g)).

(* rows of optional_to_be_deleted: files in a selected state that are the sink of an edge whose
   source is an attached optional step *)
Definition is_revert_target (g : graph) (n : node) : bool :=
  (nkind n =? KFILE) && memN (nfstate n) revert_from &&
  existsb (fun d => key_eqb (snd d) (nkey n) && mem_key (fst d) (optional_keys g)) (gdeps g).

Definition set_fstate_hash (n : node) (s : N) (h : option N) : node :=
  mkNode (nkey n) (ncreator n) (ndet n) s h (nshash n) (nneed n) (nsstate n).
Definition set_sstate (n : node) (s : N) : node :=
  mkNode (nkey n) (ncreator n) (ndet n) (nfstate n) (nfhash n) (nshash n) (nneed n) s.

Definition revert_node (g : graph) (n : node) : node :=
  if is_optional_step n then set_sstate n revert_step_to
  else if is_revert_target g n && negb (nfstate n =? revert_exempt) then set_fstate_hash n revert_to None
  else n.

(* queue value: None for the exempt (volatile) state, the recorded hash otherwise.  A selected
   non-volatile row always has a hash (CHECK constraint of the file table); a row without one
   (unreachable) would be queued with the unknown hash, which never compares equal to a file on
   disk, so it is modelled as not queued. *)
Definition revert_queue_node (trees : list str) (n : node) (q : queue) : queue :=
  let q1 := if nfstate n =? revert_exempt then qfile_set q (nlabel n) None
            else match nfhash n with Some h => qfile_set q (nlabel n) (Some h) | None => q end in
  mark_dir trees q1 (dirname (nlabel n)).

Definition revert_optional (g : graph) (q : queue) : graph * queue :=
  let targets := filter (is_revert_target g) (gnodes g) in
  (mkGraph (map (revert_node g) (gnodes g)) (gdeps g),
   fold_left (fun q n => revert_queue_node (attached_tree_labels g) n q) targets q).

(* ---- Survivor characterisation (specification side) ---------------------------------------- *)

(* m is a product or a sink of n *)
Definition succ_of (g : graph) (k m : key) : Prop :=
  (exists n, In n (gnodes g) /\ nkey n = m /\ ncreator n = Some k) \/ In (k, m) (gdeps g).

(* A set of keys that supports itself: every member is a node of g, and is attached or has a
   product or sink inside the set. *)
Definition self_supporting (g : graph) (S : list key) : Prop :=
  forall k, In k S ->
    exists n, In n (gnodes g) /\ nkey n = k /\
      (ndet n = false \/ exists m, succ_of g k m /\ In m S).
