(* C08: executable model of the declaration layer of stepup/core/workflow.py.
   Definitions only (no proofs), so that the correspondence still runs when a proof breaks.

   State: what the accept/reject decisions of declare_static_files, register_static_tree,
   register_nglob, define_step and amend_step depend on, and nothing else:
     claims  attached file nodes: path -> (role, creator)
     loose   detached file nodes without creator (UNDECLARED inputs nobody declared yet)
     trees   attached static trees: label (with trailing slash) -> creator
     steps   attached steps: label -> creator
     globs   registered patterns in registration order: (step label, pattern, subs, recorded
             matches); a multiset keyed by (step, pattern, subs): rows are only ever appended
     sinks   input edges (path, consuming step), only used to name the consumer in a message
   Paths are strings (lists of code points) and all prefix tests are string prefix tests, as in
   the code (C18 proves that the SQL idioms are exact string prefix tests).
   The glob regex is an abstract matcher `gmatch : pattern -> path -> bool` (C17 supplies it).

   Every function mirrors the order of the checks of the Python function named in its comment,
   because which check fires first decides the message. *)
From Coq Require Import List NArith Bool Ascii String.
From SV Require Import lib.Bytes lib.Tmpl gen.GenClaims.
Import ListNotations.
Open Scope N_scope.

(* ASCII literals for the hand-written (non-generated) message texts. *)
Fixpoint s2l (s : string) : str :=
  match s with
  | EmptyString => []
  | String a r => N_of_ascii a :: s2l r
  end.

(* ------------------------------------------------------------------------------------------ *)
(* Roles, creators, claims                                                                     *)
(* ------------------------------------------------------------------------------------------ *)

Inductive role := RStatic | ROutput | RVolatile.

Definition role_val (r : role) : N :=
  match r with
  | RStatic => role_static_val
  | ROutput => role_output_val
  | RVolatile => role_volatile_val
  end.

Definition role_eqb (a b : role) : bool :=
  match a, b with
  | RStatic, RStatic | ROutput, ROutput | RVolatile, RVolatile => true
  | _, _ => false
  end.

(* The role in which _declare_file(creator, path, state) claims the path:
   FILE_ROLE_BY_STATE[state] for the three declarable states. *)
Definition declared_state_val (r : role) : N :=
  match r with
  | RStatic => state_unconfirmed_val
  | ROutput => state_planned_val
  | RVolatile => state_volatile_val
  end.

Inductive creator := CRoot | CStep (l : str) | CTree (l : str).

Definition creator_eqb (a b : creator) : bool :=
  match a, b with
  | CRoot, CRoot => true
  | CStep x, CStep y => str_eqb x y
  | CTree x, CTree y => str_eqb x y
  | _, _ => false
  end.

Definition creator_label (c : creator) : str :=
  match c with CRoot => [] | CStep l => l | CTree l => l end.

Record claim := mkClaim { c_role : role; c_by : creator }.

(* One row of the `nglob` table: the registering step, the pattern text (printed in messages), the
   substitution constraints of its named wildcards (`NamedGlob.subs`, sorted by name) and the
   recorded matches. A step may register one pattern several times, with the same or with
   different constraints: every registration is a row of its own (Step.add_nglob only INSERTs). *)
Definition subs_t := list (str * str).

Record glob := mkGlob { g_step : str; g_pat : str; g_subs : subs_t; g_ms : list str }.

(* The key under which the stored regex of a registration is looked up in the abstract matcher:
   convert_nglob_to_regex(pattern, subs) is a function of exactly these two values. *)
Definition gkey (pat : str) (subs : subs_t) : str :=
  pat ++ flat_map (fun ns : str * str => 0 :: fst ns ++ 0 :: snd ns) subs.

Definition g_key (g : glob) : str := gkey (g_pat g) (g_subs g).

(* Translated from the source (gen/GenClaims.v register_pre_delete): the columns on which
   register_nglob's own `DELETE FROM nglob WHERE ...` (if it has one) compares the existing rows
   with the new registration before inserting it: 1 node, 2 pattern, 3 regex. [] = the code deletes
   nothing (the unchanged tree). The model follows whatever the code does; that the list is empty
   is what the registration theorems need (proofs/ClaimsRegProofs.v: register_supersedes_nothing). *)
Definition superseded (cols : list N) (s pat key : str) (g : glob) : bool :=
  forallb (fun c => if c =? 1 then str_eqb (g_step g) s
                    else if c =? 2 then str_eqb (g_pat g) pat
                    else if c =? 3 then str_eqb (g_key g) key
                    else false) cols.

Definition pre_delete (cols : list N) (s pat key : str) (gs : list glob) : list glob :=
  match cols with
  | [] => gs
  | _ => filter (fun g => negb (superseded cols s pat key g)) gs
  end.

Record state := mkState {
  claims : list (str * claim);
  loose : list str;
  trees : list (str * creator);
  steps : list (str * creator);
  globs : list glob;
  sinks : list (str * str)      (* dependency edges file -> consuming step (inputs) *)
}.

Definition empty_state : state := mkState [] [] [] [] [] [].

(* ------------------------------------------------------------------------------------------ *)
(* Messages                                                                                    *)
(* ------------------------------------------------------------------------------------------ *)

(* workflow.Decl: (role, creator phrase, authored); ordered as this tuple (attrs order=True). *)
Record decl := mkDecl { d_role : role; d_who : str; d_auth : bool }.

Inductive msg :=
  (* GraphError, text produced by the generated templates *)
  | MTreeFile (t p : str)                    (* _static_tree_file_message *)
  | MTreeProduct (t p : str)                 (* _static_tree_product_message *)
  | MGlobProduct (pat gstep p step : str)    (* _glob_product_message *)
  | MFile (p : str) (d1 d2 : decl)           (* _file_collision_message, d1 <= d2 *)
  | MDupStep (lbl c1 c2 : str)               (* _duplicate_step_message, c1 <= c2 *)
  | MDupTree (t c1 c2 : str)                 (* _duplicate_static_tree_message, c1 <= c2 *)
  (* GraphError, inline texts *)
  | MTreeSub (d : str)
  | MTreeParent (d : str)
  | MMultiTrees (p : str)
  | MStepupFile (p : str)
  | MStepupTree (p : str)
  | MStepupGlob (pat p : str)
  | MVolDir
  | MTreeRoot
  | MTreeFsRoot
  | MDirInput (p : str)
  | MVolInput (p producer consumer : str)     (* _volatile_input_message *)
  | MDefineCreator (l lbl : str)
  | MBoot
  | MSelfDefine (l : str)
  (* PathError raised by File.adjust_label inside Trellis.create *)
  | MBadName (p : str)
  | MBadDir (p : str)
  (* not an exception of workflow.py: the request names a step that does not exist
     (Scheduler.get_job_step cannot return it) *)
  | MNoSuchStep (l : str)
  (* ConsistencyError (internal; proved unreachable from the empty state) *)
  | MNotHandedOver (p : str)
  | MCannotPhrase (kind label : str)
  | MIdentical (p : str)
  | MOwnCollide (p : str)
  | MNodeExists (key : str).

Definition is_internal (m : msg) : bool :=
  match m with
  | MNotHandedOver _ | MCannotPhrase _ _ | MIdentical _ | MOwnCollide _ | MNodeExists _ => true
  | _ => false
  end.

Definition is_path_error (m : msg) : bool :=
  match m with MBadName _ | MBadDir _ => true | _ => false end.

Inductive res (A : Type) := Ok (a : A) | Err (m : msg).
Arguments Ok {A} a.
Arguments Err {A} m.

Definition bind {A B} (r : res A) (f : A -> res B) : res B :=
  match r with Ok a => f a | Err m => Err m end.

Fixpoint assoc_n {A} (k : N) (l : list (N * A)) (d : A) : A :=
  match l with
  | [] => d
  | (k', v) :: r => if k =? k' then v else assoc_n k r d
  end.

Fixpoint assoc_nn {A} (k1 k2 : N) (l : list ((N * N) * A)) (d : A) : A :=
  match l with
  | [] => d
  | ((a, b), v) :: r => if (k1 =? a) && (k2 =? b) then v else assoc_nn k1 k2 r d
  end.

Definition verb (r : role) : str := assoc_n (role_val r) role_verbs [].

(* The clash and the hint of _file_collision_message for sorted parties d1 <= d2. *)
Definition clash_text (d1 d2 : decl) : str :=
  let args := [verb (d_role d1); verb (d_role d2); d_who d1; d_who d2] in
  if role_eqb (d_role d1) (d_role d2) then fill tmpl_clash_same_role args
  else if str_eqb (d_who d1) (d_who d2) then fill tmpl_clash_same_creator args
  else fill tmpl_clash_diff args.

Definition hint_text (d1 d2 : decl) : str :=
  if d_auth d1 && d_auth d2 then
    assoc_nn (role_val (d_role d1)) (role_val (d_role d2)) collision_hints []
  else if d_auth d1 then assoc_n (role_val (d_role d1)) stepup_hints []
  else assoc_n (role_val (d_role d2)) stepup_hints [].

Definition render (m : msg) : str :=
  match m with
  | MTreeFile t p => fill tmpl_tree_file [t; p]
  | MTreeProduct t p => fill tmpl_tree_product [t; p]
  | MGlobProduct pat gs p s => fill tmpl_glob_product [pat; gs; p; s]
  | MFile p d1 d2 => fill tmpl_file_collision [p; clash_text d1 d2; hint_text d1 d2]
  | MDupStep lbl c1 c2 =>
      fill tmpl_dupstep [lbl; if str_eqb c1 c2 then fill tmpl_dupstep_twice [c1; c2]
                              else fill tmpl_dupstep_both [c1; c2]]
  | MDupTree t c1 c2 => fill tmpl_duptree [t; c1; c2]
  | MTreeSub d => s2l "Static tree is a subdirectory of an existing static tree: " ++ d
  | MTreeParent d => s2l "Static tree is a parent directory of an existing static tree: " ++ d
  | MMultiTrees p => s2l "Multiple static trees match: " ++ p
  | MStepupFile p => s2l "Cannot declare a file under " ++ stepup_dir ++ s2l ": " ++ p
  | MStepupTree p => s2l "Cannot declare a static tree under " ++ stepup_dir ++ s2l ": " ++ p
  | MStepupGlob pat p =>
      s2l "Glob pattern (" ++ pat ++ s2l ") matches a path under " ++ stepup_dir ++ s2l ": " ++ p
  | MVolDir => s2l "A volatile output cannot be a directory."
  | MTreeRoot => s2l "A static tree cannot be the project root: it would have to own plan.py and every step output. Declare the subdirectories instead."
  | MTreeFsRoot => s2l "A static tree cannot be the file system root: it would own every absolute path in the workflow. Declare a subdirectory instead."
  | MDirInput p => s2l "Directory inputs are not supported: " ++ p
  | MVolInput p a b => fill tmpl_volatile_input [p; a; b]
  | MDefineCreator l lbl => s2l "Step (" ++ l ++ s2l ") cannot define its own creator (" ++ lbl ++ s2l ")."
  | MBoot => s2l "Boot step already defined."
  | MSelfDefine l => s2l "Step (" ++ l ++ s2l ") cannot define itself."
  | MBadName p => s2l "Invalid file name: " ++ p
  | MBadDir p => s2l "Invalid file name (directory): " ++ p
  | MNoSuchStep l => s2l "<model> no such step: " ++ l
  | MNotHandedOver p => s2l "Static declaration (" ++ p ++ s2l ") not handed to its tree."
  | MCannotPhrase k l => s2l "Cannot phrase a creator of kind " ++ k ++ s2l ": " ++ l
  | MIdentical p => s2l "Identical declarations of file (" ++ p ++ s2l ") are a no-op."
  | MOwnCollide p => s2l "StepUp's own declarations of file (" ++ p ++ s2l ") collide."
  | MNodeExists k => s2l "Node (" ++ k ++ s2l ") already exists and is not detached."
  end.

(* _creator_phrase *)
Definition phrase_step (l : str) : str := fill tmpl_phrase_step [l].
Definition phrase_root : str := fill tmpl_phrase_root [].

Definition phrase_of (c : creator) : res str :=
  match c with
  | CRoot => Ok phrase_root
  | CStep l => Ok (phrase_step l)
  | CTree l => Err (MCannotPhrase (s2l "st") l)
  end.

(* Decl.from_node *)
Definition decl_of_node (r : role) (c : creator) : res decl :=
  bind (phrase_of c) (fun ph =>
    Ok (mkDecl r ph (match c with CRoot => false | _ => true end))).

(* Tuple order of Decl: (role value, creator phrase, authored). `decl_lt b a` is Python's b < a. *)
Definition decl_lt (a b : decl) : bool :=
  if role_val (d_role a) <? role_val (d_role b) then true
  else if role_val (d_role b) <? role_val (d_role a) then false
  else if lex_lt (d_who a) (d_who b) then true
  else if lex_lt (d_who b) (d_who a) then false
  else negb (d_auth a) && d_auth b.

(* sorted([a, b]) is stable: [b, a] only when b < a. *)
Definition sort2_decl (a b : decl) : decl * decl := if decl_lt b a then (b, a) else (a, b).
Definition sort2_str (a b : str) : str * str := if lex_lt b a then (b, a) else (a, b).

(* _file_collision_message: the structured message (or the ConsistencyError it raises). *)
Definition file_collision (p : str) (a b : decl) : msg :=
  let (d1, d2) := sort2_decl a b in
  if role_eqb (d_role d1) (d_role d2) && str_eqb (d_who d1) (d_who d2) then MIdentical p
  else if negb (d_auth d1) && negb (d_auth d2) then MOwnCollide p
  else MFile p d1 d2.

(* _claim_collision_message(path, claim, decl) *)
Definition claim_collision (p : str) (cl : claim) (d : decl) : msg :=
  match c_by cl with
  | CTree t =>
      if role_eqb (d_role d) RStatic then MNotHandedOver p else MTreeProduct t p
  | c =>
      match decl_of_node (c_role cl) c with
      | Ok cd => file_collision p cd d
      | Err m => m
      end
  end.

(* ------------------------------------------------------------------------------------------ *)
(* String and list helpers                                                                     *)
(* ------------------------------------------------------------------------------------------ *)

Fixpoint lookup {A} (k : str) (l : list (str * A)) : option A :=
  match l with
  | [] => None
  | (k', v) :: r => if str_eqb k k' then Some v else lookup k r
  end.

Fixpoint mem_str (k : str) (l : list str) : bool :=
  match l with
  | [] => false
  | x :: r => str_eqb k x || mem_str k r
  end.

Definition remove_str (k : str) (l : list str) : list str :=
  filter (fun x => negb (str_eqb k x)) l.

Fixpoint ends_with_c (c : N) (s : str) : bool :=
  match s with
  | [] => false
  | [x] => x =? c
  | _ :: r => ends_with_c c r
  end.

Definition SLASH : N := 47.

(* Path(p) / "" : os.path.join(p, "") *)
Definition with_slash (s : str) : str :=
  match s with
  | [] => []
  | _ => if ends_with_c SLASH s then s else s ++ [SLASH]
  end.

Fixpoint ends_with_s (suf s : str) : bool :=
  str_eqb s suf || match s with [] => false | _ :: r => ends_with_s suf r end.

(* File.adjust_label *)
Definition bad_name (p : str) : option msg :=
  if str_eqb p [46] || str_eqb p [46; 46] || str_eqb p [] then Some (MBadName p)
  else if ends_with_c SLASH p then Some (MBadDir p)
  else if ends_with_s [SLASH; 46] p || ends_with_s [SLASH; 46; 46] p then Some (MBadName p)
  else None.

Definition stepup_prefix : str := stepup_dir ++ [SLASH].

(* sorted(set(paths)) *)
Fixpoint insert_uniq (x : str) (l : list str) : list str :=
  match l with
  | [] => [x]
  | y :: r => if str_eqb x y then l
              else if lex_lt x y then x :: l
              else y :: insert_uniq x r
  end.

Definition sort_uniq (l : list str) : list str := fold_right insert_uniq [] l.

Fixpoint find_first {A} (f : A -> bool) (l : list A) : option A :=
  match l with
  | [] => None
  | x :: r => if f x then Some x else find_first f r
  end.

(* The entry with the smallest key (ORDER BY node.label LIMIT 1). *)
Fixpoint min_entry {A} (l : list (str * A)) : option (str * A) :=
  match l with
  | [] => None
  | (k, v) :: r =>
      match min_entry r with
      | None => Some (k, v)
      | Some (k', v') => if lex_lt k' k then Some (k', v') else Some (k, v)
      end
  end.

Fixpoint fold_res {A S} (f : S -> A -> res S) (l : list A) (s : S) : res S :=
  match l with
  | [] => Ok s
  | x :: r => bind (f s x) (fold_res f r)
  end.

(* sorted(file.sinks(), key=label)[0]: the consumer with the smallest label *)
Fixpoint min_str (l : list str) : str :=
  match l with
  | [] => []
  | [x] => x
  | x :: r => let m := min_str r in if lex_lt m x then m else x
  end.

Definition first_consumer (st : state) (p : str) : str :=
  min_str (map snd (filter (fun e => str_eqb (fst e) p) (sinks st))).

Definition add_sink (st : state) (p consumer : str) : state :=
  mkState (claims st) (loose st) (trees st) (steps st) (globs st) ((p, consumer) :: sinks st).

(* the creator chain of a step: is `lbl` one of the (indirect) creators of step l? *)
Fixpoint is_ancestor (fuel : nat) (sts : list (str * creator)) (l lbl : str) : bool :=
  match fuel with
  | O => false
  | S f => match lookup l sts with
           | Some (CStep l') => str_eqb l' lbl || is_ancestor f sts l' lbl
           | _ => false
           end
  end.

(* ------------------------------------------------------------------------------------------ *)
(* The operations                                                                              *)
(* ------------------------------------------------------------------------------------------ *)

Section WithMatcher.

Variable gmatch : str -> str -> bool.   (* gkey pattern subs -> path -> does the stored regex fullmatch *)

(* Two facts about the code that the translator reads from the source (gen/GenClaims.v:
   owner_appends_slash, glob_scans_products), so that the same model follows the code across the
   fixes of D14 and D3:
   ow = true : _find_owning_static_tree probes `Path(path) / ""` (path plus separator);
        false: it probes the path itself, the same test as the scan of register_static_tree.
   gr = true : register_nglob tests the stored regex against every attached product;
        false: it only looks up the recorded matches. *)
Variable ow : bool.
Variable gr : bool.

Definition probe (p : str) : str := if ow then with_slash p else p.

(* Workflow._find_owning_static_tree *)
Definition owners (st : state) (p : str) : list (str * creator) :=
  filter (fun tc => is_prefix (fst tc) (probe p)) (trees st).

Definition find_owner (st : state) (p : str) : res (option (str * creator)) :=
  match owners st p with
  | [] => Ok None
  | [tc] => Ok (Some tc)
  | _ => Err (MMultiTrees (probe p))
  end.

(* The declaring party of _check_declaration: a node of the graph or only a phrase. *)
Inductive who := WNode (c : creator) | WPhrase (ph : str).

(* Workflow._check_declaration: Ok true = still to be declared, Ok false = already held. *)
Definition check_decl (st : state) (w : who) (p : str) (r : role) : res bool :=
  match lookup p (claims st) with
  | None => Ok true
  | Some cl =>
      match w with
      | WNode c =>
          if role_eqb (c_role cl) r && creator_eqb (c_by cl) c then Ok false
          else match decl_of_node r c with
               | Err m => Err m
               | Ok d => Err (claim_collision p cl d)
               end
      | WPhrase ph => Err (claim_collision p cl (mkDecl r ph true))
      end
  end.

Definition set_claim (st : state) (p : str) (cl : claim) : state :=
  mkState ((p, cl) :: claims st) (remove_str p (loose st)) (trees st) (steps st) (globs st) (sinks st).

(* Workflow._declare_file (no build targets: self.targets is empty in this layer). *)
Definition declare_file (c : creator) (r : role) (st : state) (p : str) : res state :=
  if role_eqb r RVolatile && ends_with_c SLASH p then Err MVolDir else
  bind (match c with
        | CTree _ => Ok tt
        | _ => bind (find_owner st p) (fun o =>
                 match o with
                 | None => Ok tt
                 | Some (t, _) => if role_eqb r RStatic then Err (MTreeFile t p)
                                  else Err (MTreeProduct t p)
                 end)
        end) (fun _ =>
  if is_prefix stepup_prefix p then Err (MStepupFile p) else
  match bad_name p with Some m => Err m | None =>
  match lookup p (claims st) with
  | Some _ => Err (MNodeExists (s2l "file:" ++ p))           (* Trellis.create guard *)
  | None =>
      if role_eqb r RVolatile && mem_str p (loose st)
      then match phrase_of c with
           | Ok ph => Err (MVolInput p ph (phrase_step (first_consumer st p)))
           | Err m => Err m
           end
      else Ok (set_claim st p (mkClaim r c))
  end end).

(* Workflow.declare_static_files(creator, paths): all checks first, then the declarations. *)
Definition static_check (c : creator) (st : state) (p : str) : res (option (creator * str)) :=
  bind (match c with
        | CTree _ => Ok c
        | _ => bind (find_owner st p) (fun o =>
                 match o with
                 | None => Ok c
                 | Some (t, tc) => if creator_eqb tc c then Ok (CTree t) else Err (MTreeFile t p)
                 end)
        end) (fun declarer =>
  bind (check_decl st (WNode declarer) p RStatic) (fun is_new =>
  Ok (if is_new then Some (declarer, p) else None))).

Fixpoint static_checks (c : creator) (st : state) (ps : list str) : res (list (creator * str)) :=
  match ps with
  | [] => Ok []
  | p :: r =>
      bind (static_check c st p) (fun o =>
      bind (static_checks c st r) (fun l =>
      Ok (match o with Some x => x :: l | None => l end)))
  end.

Definition declare_static_files (c : creator) (st : state) (ps : list str) : res state :=
  bind (static_checks c st (sort_uniq ps)) (fun todo =>
  fold_res (fun s dp => declare_file (fst dp) RStatic s (snd dp)) todo st).

Definition step_exists (st : state) (c : creator) : bool :=
  match c with
  | CRoot => true
  | CStep l => match lookup l (steps st) with Some _ => true | None => false end
  | CTree _ => false
  end.

Definition require_step (st : state) (c : creator) : res unit :=
  if step_exists st c then Ok tt else Err (MNoSuchStep (creator_label c)).

(* Workflow.register_static_tree (paths with glob wildcards are outside the model). *)
Definition offending (c : creator) (pc : str * claim) : bool :=
  negb (role_eqb (c_role (snd pc)) RStatic) || negb (creator_eqb (c_by (snd pc)) c).

Definition register_tree (c : creator) (path : str) (st : state) : res state :=
  bind (require_step st c) (fun _ =>
  if str_eqb path stepup_dir || is_prefix stepup_prefix path then Err (MStepupTree path) else
  let d := with_slash path in
  if str_eqb d [46; SLASH] || str_eqb d [] then Err MTreeRoot else
  if str_eqb d [SLASH] then Err MTreeFsRoot else
  bind (find_owner st d) (fun o =>
  match o with
  | Some (t, tc) =>
      if creator_eqb tc c then Ok st
      else if str_eqb t d then
        match phrase_of tc, phrase_of c with
        | Ok a, Ok b => let (c1, c2) := sort2_str a b in Err (MDupTree d c1 c2)
        | Err m, _ => Err m
        | _, Err m => Err m
        end
      else Err (MTreeSub d)
  | None =>
      if existsb (fun tc => is_prefix d (fst tc)) (trees st) then Err (MTreeParent d) else
      let under := filter (fun pc => is_prefix d (fst pc)) (claims st) in
      match min_entry (filter (offending c) under) with
      | Some (p, cl) =>
          if negb (role_eqb (c_role cl) RStatic) then Err (MTreeProduct d p)
          else Err (MTreeFile d p)
      | None =>
          let handed := map (fun pc => if is_prefix d (fst pc)
                                       then (fst pc, mkClaim (c_role (snd pc)) (CTree d))
                                       else pc) (claims st) in
          let st1 := mkState handed (loose st) ((d, c) :: trees st) (steps st) (globs st) (sinks st) in
          declare_static_files (CTree d) st1 (filter (is_prefix d) (loose st))
      end
  end)).

(* Workflow.register_nglob; NamedGlob.extend keeps only the paths the regex matches. *)
Definition is_product (st : state) (p : str) : option claim :=
  match lookup p (claims st) with
  | Some cl => if role_eqb (c_role cl) RStatic then None else Some cl
  | None => None
  end.

Fixpoint first_product (st : state) (ms : list str) : option (str * claim) :=
  match ms with
  | [] => None
  | m :: r => match is_product st m with
              | Some cl => Some (m, cl)
              | None => first_product st r
              end
  end.

Definition register_glob (s pat : str) (subs : subs_t) (ms : list str) (st : state) : res state :=
  bind (require_step st (CStep s)) (fun _ =>
  let ms' := sort_uniq (filter (gmatch (gkey pat subs)) ms) in
  match (if gr
         then min_entry (filter (fun pc => negb (role_eqb (c_role (snd pc)) RStatic)
                                           && gmatch (gkey pat subs) (fst pc)) (claims st))
         else first_product st ms') with
  | Some (p, cl) => Err (MGlobProduct pat s p (creator_label (c_by cl)))
  | None =>
      match find_first (is_prefix stepup_prefix) ms' with
      | Some p => Err (MStepupGlob pat p)
      | None => Ok (mkState (claims st) (loose st) (trees st) (steps st)
                            (pre_delete register_pre_delete s pat (gkey pat subs) (globs st)
                             ++ [mkGlob s pat subs ms']) (sinks st))
      end
  end).

(* Workflow._raise_if_glob_match(step_label, product_paths) *)
Fixpoint glob_check (gs : list glob) (lbl : str) (ps : list str) : res unit :=
  match gs with
  | [] => Ok tt
  | g :: r =>
      match find_first (gmatch (g_key g)) ps with
      | Some p => Err (MGlobProduct (g_pat g) (g_step g) p lbl)
      | None => glob_check r lbl ps
      end
  end.

(* _raise_if_dir_inputs *)
Definition dir_inputs (inps : list str) : res unit :=
  match find_first (ends_with_c SLASH) inps with
  | Some p => Err (MDirInput p)
  | None => Ok tt
  end.

(* _raise_if_out_and_vol_overlap(creator_phrase, out_paths, vol_paths): min of the overlap *)
Definition overlap_check (ph : str) (outs vols : list str) : res unit :=
  match find_first (fun p => mem_str p vols) outs with
  | Some p => Err (file_collision p (mkDecl ROutput ph true) (mkDecl RVolatile ph true))
  | None => Ok tt
  end.

(* Workflow._resolve_supply_file, as far as claims are concerned; `consumer` is the supplied step *)
Definition supply (consumer : str) (st : state) (p : str) : res state :=
  match lookup p (claims st) with
  | Some cl =>
      if role_eqb (c_role cl) RVolatile
      then match phrase_of (c_by cl) with
           | Ok ph => Err (MVolInput p ph (phrase_step consumer))
           | Err m => Err m
           end
      else Ok (add_sink st p consumer)
  | None =>
      bind (find_owner st p) (fun o =>
      match bad_name p with Some m => Err m | None =>
      match o with
      | Some (t, _) => Ok (add_sink (set_claim st p (mkClaim RStatic (CTree t))) p consumer)
      | None => Ok (add_sink (if mem_str p (loose st) then st
                    else mkState (claims st) (p :: loose st) (trees st) (steps st) (globs st) (sinks st))
                    p consumer)
      end end)
  end.

Fixpoint check_all (st : state) (w : who) (r : role) (ps : list str) : res (list str) :=
  match ps with
  | [] => Ok []
  | p :: rest =>
      bind (check_decl st w p r) (fun is_new =>
      bind (check_all st w r rest) (fun l => Ok (if is_new then p :: l else l)))
  end.

(* Workflow.define_step (no detached step to recycle in this layer; workdir = ".") *)
Definition define_step (c : creator) (lbl : str) (inps outs vols : list str) (st : state)
  : res state :=
  bind (require_step st c) (fun _ =>
  if creator_eqb c CRoot && existsb (fun sc => creator_eqb (snd sc) CRoot) (steps st)
  then Err MBoot else
  let inps := sort_uniq inps in
  let outs := sort_uniq outs in
  let vols := sort_uniq vols in
  bind (dir_inputs inps) (fun _ =>
  if creator_eqb c (CStep lbl) then Err (MSelfDefine lbl) else
  if (match c with CStep l => is_ancestor (List.length (steps st)) (steps st) l lbl | _ => false end)
  then Err (MDefineCreator (creator_label c) lbl) else
  bind (glob_check (globs st) lbl (sort_uniq (outs ++ vols))) (fun _ =>
  bind (match lookup lbl (steps st) with
        | None => Ok tt
        | Some c0 =>
            match phrase_of c0, phrase_of c with
            | Ok a, Ok b => let (c1, c2) := sort2_str a b in Err (MDupStep lbl c1 c2)
            | Err m, _ => Err m
            | _, Err m => Err m
            end
        end) (fun _ =>
  let ph := phrase_step lbl in
  bind (check_all st (WPhrase ph) ROutput outs) (fun _ =>
  bind (check_all st (WPhrase ph) RVolatile vols) (fun _ =>
  bind (overlap_check ph outs vols) (fun _ =>
  let st1 := mkState (claims st) (loose st) (trees st) ((lbl, c) :: steps st) (globs st) (sinks st) in
  bind (fold_res (supply lbl) inps st1) (fun st2 =>
  bind (fold_res (declare_file (CStep lbl) ROutput) outs st2) (fun st3 =>
  fold_res (declare_file (CStep lbl) RVolatile) vols st3))))))))).

(* Workflow.amend_step *)
Definition amend_step (s : str) (inps outs vols : list str) (st : state) : res state :=
  bind (require_step st (CStep s)) (fun _ =>
  let inps := sort_uniq inps in
  let outs := sort_uniq outs in
  let vols := sort_uniq vols in
  bind (dir_inputs inps) (fun _ =>
  bind (fold_res (supply s) inps st) (fun st1 =>
  bind (check_all st1 (WNode (CStep s)) ROutput outs) (fun outs' =>
  bind (check_all st1 (WNode (CStep s)) RVolatile vols) (fun vols' =>
  bind (overlap_check (phrase_step s) outs' vols') (fun _ =>
  bind (glob_check (globs st1) s (sort_uniq (outs' ++ vols'))) (fun _ =>
  bind (fold_res (declare_file (CStep s) ROutput) outs' st1) (fun st2 =>
  fold_res (declare_file (CStep s) RVolatile) vols' st2)))))))).

(* ------------------------------------------------------------------------------------------ *)
(* Requests (one per transaction of the director handlers)                                     *)
(* ------------------------------------------------------------------------------------------ *)

Inductive req :=
  | RqStatic (c : creator) (ps : list str)
  | RqTree (c : creator) (path : str)
  | RqGlob (s pat : str) (subs : subs_t) (ms : list str)
  | RqDefine (c : creator) (lbl : str) (inps outs vols : list str)
  | RqAmend (s : str) (inps outs vols : list str).

Definition step (st : state) (r : req) : res state :=
  match r with
  | RqStatic c ps => bind (require_step st c) (fun _ => declare_static_files c st ps)
  | RqTree c path => register_tree c path st
  | RqGlob s pat subs ms => register_glob s pat subs ms st
  | RqDefine c lbl inps outs vols => define_step c lbl inps outs vols st
  | RqAmend s inps outs vols => amend_step s inps outs vols st
  end.

(* A rejected request is rolled back (DBSession.__aexit__), the next one sees the old state. *)
Definition step_skip (st : state) (r : req) : state :=
  match step st r with Ok st' => st' | Err _ => st end.

Definition run_skip (st : state) (rs : list req) : state := fold_left step_skip rs st.

(* The plan as a whole: stops at the first rejection. *)
Definition run (st : state) (rs : list req) : res state := fold_res step rs st.

Definition outcomes (st : state) (rs : list req) : list (option msg) :=
  (fix go (st : state) (rs : list req) : list (option msg) :=
     match rs with
     | [] => []
     | r :: rest => match step st r with
                    | Ok st' => None :: go st' rest
                    | Err m => Some m :: go st rest
                    end
     end) st rs.

End WithMatcher.

(* ------------------------------------------------------------------------------------------ *)
(* Comparison helpers for the correspondence (canonical views of a state)                      *)
(* ------------------------------------------------------------------------------------------ *)

Definition creator_code (c : creator) : N * str :=
  match c with CRoot => (0, []) | CStep l => (1, l) | CTree l => (2, l) end.

Definition opt_str_eqb (a b : option str) : bool :=
  match a, b with
  | Some x, Some y => str_eqb x y
  | None, None => true
  | _, _ => false
  end.

Fixpoint list_eqb {A} (e : A -> A -> bool) (a b : list A) : bool :=
  match a, b with
  | [], [] => true
  | x :: a', y :: b' => e x y && list_eqb e a' b'
  | _, _ => false
  end.

(* Claims as (path, role value, creator kind, creator label), sorted by path. *)
Fixpoint insert_row (x : str * (N * (N * str))) (l : list (str * (N * (N * str)))) :=
  match l with
  | [] => [x]
  | y :: r => if lex_lt (fst x) (fst y) then x :: l else y :: insert_row x r
  end.

Definition claim_rows (st : state) : list (str * (N * (N * str))) :=
  fold_right insert_row []
    (map (fun pc => (fst pc, (role_val (c_role (snd pc)), creator_code (c_by (snd pc))))) (claims st)).

Definition tree_rows (st : state) : list (str * (N * (N * str))) :=
  fold_right insert_row [] (map (fun tc => (fst tc, (0, creator_code (snd tc)))) (trees st)).

Definition row_eqb (a b : str * (N * (N * str))) : bool :=
  str_eqb (fst a) (fst b) && (fst (snd a) =? fst (snd b)) &&
  (fst (snd (snd a)) =? fst (snd (snd b))) && str_eqb (snd (snd (snd a))) (snd (snd (snd b))).

Definition outcome_eqb (a : option msg) (b : option str) : bool :=
  opt_str_eqb (option_map render a) b.

(* A finite table as matcher: (pattern, paths it matches). *)
Definition table_match (tbl : list (str * list str)) (pat p : str) : bool :=
  existsb (fun e => str_eqb (fst e) pat && mem_str p (snd e)) tbl.
