(* C03: the decision "has this input changed since it was recorded" that the freshness argument of
   model/Fresh.v rests on (there: `disk w f =? f_hash (files w f)` on hash codes).  Executable
   definitions only; the pieces taken from the source are in gen/GenFreshStat.v:
   refreshed_shortcut (which FileHash attribute is compared with which stat field before the digest
   is recomputed), refreshed_build_gen, refreshed_stat_fails_gen, fh_eq_fields (attrs ==),
   inp_entry_gen / out_entry_gen (compute_inp_hashes / compute_out_hashes per path),
   inputs_changed_gen (unexpected_input_changes in execute_job / _new_run).

   Not modelled: refreshed is atomic (the file is not modified between os.stat and the end of
   compute_file_digest); directories (HashFailedError) and cancellation (model/FreshSkip.v: cancel);
   symbolic links (stat follows them: the path stands for its target). *)
From Coq Require Import List NArith Bool.
From SV Require Import model.FreshStatTypes gen.GenFreshStat.
Import ListNotations.
Open Scope N_scope.
Open Scope bool_scope.

(* ---------- FileHash.refreshed, for an arbitrary shortcut list ---------- *)
Definition shortcut_taken (sc : list (hfield * sfield)) (self : fhash) (st : cfile) : bool :=
  forallb (fun p => hf_get (fst p) self =? sf_get (snd p) st) sc.

Definition refreshed_with (sc : list (hfield * sfield)) (self : fhash) (d : option cfile) : fhash :=
  match d with
  | None => refreshed_stat_fails_gen self
  | Some st => if shortcut_taken sc self st then self else refreshed_build_gen (cf_digest st) st
  end.

(* the source as it is *)
Definition refreshed : fhash -> option cfile -> fhash := refreshed_with refreshed_shortcut.

(* FileHash.__eq__ (attrs) *)
Definition fh_eqb (a b : fhash) : bool := forallb (fun f => hf_get f a =? hf_get f b) fh_eq_fields.

(* one path of compute_inp_hashes / compute_out_hashes *)
Definition inp_entry_with (sc : list (hfield * sfield)) (old : fhash) (d : option cfile) : bool * N * bool :=
  let new := refreshed_with sc old d in
  inp_entry_gen (negb (fh_eqb new old)) (is_unknown_gen new) (is_unknown_gen old).
Definition inp_entry : fhash -> option cfile -> bool * N * bool := inp_entry_with refreshed_shortcut.
Definition out_entry (old : fhash) (d : option cfile) : bool * bool :=
  let new := refreshed old d in out_entry_gen (negb (fh_eqb new old)) (is_unknown_gen new).

(* compute_inp_hashes over the records handed to it, then `len(new_inp_hashes) > 0` *)
Definition inputs_changed (recs : list (fhash * option cfile)) : bool :=
  inputs_changed_gen (map (fun r => inp_entry (fst r) (snd r)) recs).
Definition inputs_reported (recs : list (fhash * option cfile)) : bool :=
  inputs_reported_gen (map (fun r => inp_entry (fst r) (snd r)) recs).

(* ---------- a path that is no longer a readable regular file ---------- *)
(* PUnreadable: a directory, or a file that cannot be opened: FileHash.refreshed raises HashFailedError /
   OSError.  None = the exception leaves compute_inp_hashes and fails the whole hash thread (the code
   before 9b8c8cd, finding D44: step FAILED, nothing flagged, no drain); Some e = the path is reported
   with entry e (generated: unreadable_input_reported, inp_entry_unreadable_gen). *)
Inductive pathstate := PFile (d : option cfile) | PUnreadable.

Definition inp_entry_path (old : fhash) (p : pathstate) : option (bool * N * bool) :=
  match p with
  | PFile d => Some (inp_entry old d)
  | PUnreadable =>
      if unreadable_input_reported
      then Some (inp_entry_unreadable_gen (negb (fh_eqb fh_unknown_gen old)) (is_unknown_gen old))
      else None
  end.

(* compute_inp_hashes on one path of each kind, as the implementation showed it *)
Definition unreadable_case (old : fhash) (raised differs : bool) (msg : N) (err : bool) : bool :=
  match inp_entry_path old PUnreadable with
  | None => raised
  | Some e => negb raised && Bool.eqb (fst (fst e)) differs && (snd (fst e) =? msg) && Bool.eqb (snd e) err
  end.

(* ---------- what the property is about: content, size and mode ---------- *)
(* the "hash code" of model/Fresh.v: what FileHash equality is meant to compare *)
Definition code_of_hash (h : fhash) : N * N * N := (fh_digest h, fh_mode h, fh_size h).
Definition code_of_disk (d : option cfile) : N * N * N :=
  match d with None => (0, 0, 0) | Some c => (cf_digest c, cf_mode c, cf_size c) end.
Definition code_eqb (a b : N * N * N) : bool :=
  (fst (fst a) =? fst (fst b)) && (snd (fst a) =? snd (fst b)) && (snd a =? snd b).

(* the record update_file_hashes stores for a file that was hashed when it looked like c *)
Definition record_of (c : cfile) : fhash := refreshed_build_gen (cf_digest c) c.

(* ---------- what a file system lets other actors do to one path ---------- *)
Inductive fsop :=
| OpWrite (digest size mtime : N)   (* open(O_TRUNC) + write: same inode, same mode *)
| OpRename (c : cfile)              (* rename(2) of another file over the path, or creation *)
| OpUtime (mtime : N)               (* utime / touch *)
| OpChmod (mode : N)                (* chmod: mtime untouched (ctime is not read) *)
| OpUnlink.

Definition fs_apply (d : option cfile) (o : fsop) : option cfile :=
  match o, d with
  | OpWrite dg sz mt, Some c => Some (mkCF dg (cf_mode c) mt sz (cf_ino c))
  | OpWrite _ _ _, None => None
  | OpRename c, _ => Some c
  | OpUtime mt, Some c => Some (mkCF (cf_digest c) (cf_mode c) mt (cf_size c) (cf_ino c))
  | OpUtime _, None => None
  | OpChmod m, Some c => Some (mkCF (cf_digest c) m (cf_mtime c) (cf_size c) (cf_ino c))
  | OpChmod _, None => None
  | OpUnlink, _ => None
  end.
Definition fs_run (d : option cfile) (ops : list fsop) : option cfile := fold_left fs_apply ops d.

(* every file has a real digest *)
Definition op_wf (o : fsop) : bool :=
  match o with OpWrite dg _ _ => negb (dg =? 0) | OpRename c => negb (cf_digest c =? 0) | _ => true end.

(* THE ASSUMPTION ABOUT THE WORLD (no_stat_forgery), relative to the file c0 that was recorded:
   - bytes written in place get an mtime other than the recorded one (the file system clock moved on:
     multigrain / nanosecond time stamps; a build tool cannot see a same-size rewrite inside one tick);
   - nobody sets the recorded mtime back (utime) on the recorded inode after its bytes or size changed;
   - the inode number of the recorded file is not given to another file that is moved to the path
     (the recorded inode is alive or at least not reused inside the window).
   Everything else is allowed: any bytes, any size, any mode, any mtime on a file that comes in by
   rename(2) -- in particular the recorded mtime, size and mode (rsync -t, cp -p + mv). *)
Definition op_honest (c0 : cfile) (d : option cfile) (o : fsop) : bool :=
  match o, d with
  | OpWrite _ _ mt, Some c => negb (cf_ino c =? cf_ino c0) || negb (mt =? cf_mtime c0)
  | OpUtime mt, Some c =>
      negb (cf_ino c =? cf_ino c0) || negb (mt =? cf_mtime c0)
      || ((cf_digest c =? cf_digest c0) && (cf_size c =? cf_size c0))
  | OpRename c, _ => negb (cf_ino c =? cf_ino c0)
  | _, _ => true
  end.
Fixpoint honest (c0 : cfile) (d : option cfile) (ops : list fsop) : bool :=
  match ops with
  | [] => true
  | o :: r => op_wf o && op_honest c0 d o && honest c0 (fs_apply d o) r
  end.

(* the shortcut is strong enough for that world: mode, mtime and inode are each compared with
   their own stat field (size is then implied; it is compared as well in the source) *)
Definition pair_in (h : hfield) (s : sfield) (sc : list (hfield * sfield)) : bool :=
  existsb (fun p => hfield_eqb (fst p) h && sfield_eqb (snd p) s) sc.
Definition shortcut_covers (sc : list (hfield * sfield)) : bool :=
  pair_in HF_mode SF_mode sc && pair_in HF_mtime SF_mtime sc && pair_in HF_ino SF_ino sc.

(* the shortcut of the seeded / older variant: the inode is recorded but not compared *)
Definition shortcut_without_inode : list (hfield * sfield) :=
  [(HF_mode, SF_mode); (HF_mtime, SF_mtime); (HF_size, SF_size)].
Definition shortcut_full : list (hfield * sfield) :=
  [(HF_mode, SF_mode); (HF_mtime, SF_mtime); (HF_size, SF_size); (HF_ino, SF_ino)].

(* ---------- correspondence: one call of the real FileHash.refreshed / compute_inp_hashes ---------- *)
Definition fhash_eqb_all (a b : fhash) : bool :=
  (fh_digest a =? fh_digest b) && (fh_mode a =? fh_mode b) && (fh_mtime a =? fh_mtime b)
  && (fh_size a =? fh_size b) && (fh_ino a =? fh_ino b).
(* old, what is under the path, the object the implementation returned, `new != old` (= entered in
   new_hashes), the message kind, ConsistencyError raised *)
Definition refreshed_case (old : fhash) (d : option cfile) (got : fhash) (differs : bool) (msg : N)
           (err : bool) : bool :=
  let e := inp_entry old d in
  fhash_eqb_all (refreshed old d) got && Bool.eqb (fst (fst e)) differs && (snd (fst e) =? msg)
  && Bool.eqb (snd e) err.
