(* Boolean comparison helpers used by the C17 correspondence cases (harness/p_c17.py).
   Each check is true iff the model agrees with the value observed on the implementation. *)
From Coq Require Import List NArith Bool Arith.
From SV Require Import lib.Bytes.
From SV Require Import lib.Regex.
From SV Require Import model.Nglob.
From SV Require Import model.GlobSem.
Import ListNotations.
Open Scope N_scope.

Fixpoint lstr_eqb (a b : list str) : bool :=
  match a, b with
  | [], [] => true
  | x :: a', y :: b' => str_eqb x y && lstr_eqb a' b'
  | _, _ => false
  end.

Definition tok_code (t : tok) : str :=
  match t with
  | TLit s => 76 :: s
  | TQ => [81]
  | TStar => [83]
  | TDStar => [68]
  | TDStarSlash => [82]
  | TCls i => 67 :: i
  | TName n => 78 :: n
  end.

Definition err_code (e : cerr) : N :=
  match e with EEmptyPattern => 0 | EEmptyName => 1 | ENamesNotAllowed => 2 end.

Definition chk_tokens (p : str) (exp : list str) : bool := lstr_eqb (map tok_code (tokenize p)) exp.

Definition chk_text (r : cres str) (exp : str) : bool :=
  match r with COk t => str_eqb t exp | CErr _ => false end.
Definition chk_err {A} (r : cres A) (code : N) : bool :=
  match r with COk _ => false | CErr e => err_code e =? code end.

Definition chk_regex p subs exp := chk_text (regex_text p subs) exp.
Definition chk_regex_err p subs code := chk_err (regex_text p subs) code.
Definition chk_glob p subs exp := chk_text (conv_glob p subs) exp.
Definition chk_glob_err p subs code := chk_err (conv_glob p subs) code.

Definition chk_names (p : str) (exp : list str) : bool :=
  match used_names p with COk l => lstr_eqb l exp | CErr _ => false end.

Definition okey_eqb (a b : option key) : bool :=
  match a, b with Some x, Some y => key_eqb x y | None, None => true | _, _ => false end.

(* re.fullmatch + groupdict in the order of _used_names *)
Definition chk_match (p : str) (subs : subs_t) (s : str) (exp : option key) : bool :=
  match ng_make p subs with
  | CErr _ => false
  | COk g => okey_eqb (ng_mv g s) exp
             && Bool.eqb (ng_accepts g s) (match exp with Some _ => true | None => false end)
  end.

Definition set_eqb_str (a b : list str) : bool :=
  forallb (fun p => mem_str p b) a && forallb (fun p => mem_str p a) b.

(* the accepted ones among the existing paths are exactly the recorded ones *)
Definition chk_accept_set (p : str) (subs : subs_t) (paths recorded : list str) : bool :=
  match ng_make p subs with
  | CErr _ => false
  | COk g => set_eqb_str (filter (ng_accepts g) paths) recorded
  end.

Definition ref_supported (p : str) (subs : subs_t) : bool :=
  match nglob_ref false p subs [97] with Some _ => true | None => false end.

Definition chk_ref_set (dir_always : bool) (p : str) (subs : subs_t) (paths expected : list str) : bool :=
  set_eqb_str (filter (fun q => match nglob_ref dir_always p subs q with Some b => b | None => false end) paths)
              expected.

(* a sequence of extend (true) / reduce (false) calls on a fresh instance *)
Definition run_ops (g : ng) (ops : list (bool * list str)) : results key :=
  fold_left (fun (r : results key) (op : bool * list str) => if fst op then extend key_eqb (ng_mv g) r (snd op)
                         else reduce key_eqb (ng_mv g) r (snd op)) ops [].

Definition chk_ops (p : str) (subs : subs_t) (ops : list (bool * list str)) (exp : results key) : bool :=
  match ng_make p subs with
  | CErr _ => false
  | COk g => results_eqb key_eqb (run_ops g ops) exp && results_eqb key_eqb exp (run_ops g ops)
  end.

Definition chk_will_change (p : str) (subs : subs_t) (ops : list (bool * list str))
    (deleted added : list str) (exp : option (results key)) : bool :=
  match ng_make p subs with
  | CErr _ => false
  | COk g =>
    match will_change key_eqb (ng_mv g) (run_ops g ops) deleted added, exp with
    | None, None => true
    | Some ev, Some x => results_eqb key_eqb ev x
    | _, _ => false
    end
  end.

(* glob.glob(pattern, recursive=True, include_hidden=True) on a finite tree *)
Definition chk_globsem (t : list entry) (pat : str) (exp : list str) : bool :=
  set_eqb_str (glob_paths_raw t pat) exp.

(* the whole of NamedGlob(p, subs).glob() on a tree: candidates from the glob model for the
   translated pattern, filtered and grouped by the regex model *)
Definition chk_scan (t : list entry) (p : str) (subs : subs_t) (recorded : list str) : bool :=
  match ng_make p subs, conv_glob p subs with
  | COk g, COk gp => set_eqb_str (files (scan key_eqb (ng_mv g) (glob_paths t gp))) recorded
  | _, _ => false
  end.

Definition chk_all_paths (t : list entry) (exp : list str) : bool := set_eqb_str (all_paths t) exp.

Definition chk_parts_ok (p : str) (subs : subs_t) : bool := conv_parts_ok p subs.

(* the two formulations of the reference agree (where both cover the pattern) *)
Definition chk_ref_agree (dir_always : bool) (p : str) (subs : subs_t) (paths : list str) : bool :=
  forallb (fun q => match nglob_ref dir_always p subs q, nglob_ref_comps dir_always p subs q with
                    | Some a, Some b => Bool.eqb a b
                    | _, _ => true
                    end) paths.

Definition ref_comps_supported (p : str) (subs : subs_t) : bool :=
  match nglob_ref_comps false p subs [97] with Some _ => true | None => false end.
