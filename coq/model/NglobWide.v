(* C17: side conditions of the compiler-level theorem "a named wildcard in place of an anonymous
   `*`" (proofs/NglobNamedWide.v).  Definitions only.

   convert_nglob_to_regex drops a `*` that follows `*` or `**` (regex None), and a `**` / `**/`
   that follows a `*` replaces the part of that `*`.  A named wildcard is never merged.  The two
   predicates say that the replaced `*` takes no part in such a merge. *)
From Coq Require Import List NArith Bool.
From SV Require Import lib.Bytes.
From SV Require Import lib.Regex.
From SV Require Import model.Nglob.
Import ListNotations.
Open Scope N_scope.

(* the token before the `*` (if any) is neither `*` nor `**`: the `*` is not dropped *)
Definition star_before_ok (pre : list tok) : bool :=
  negb (is_tstar (last_tok pre) || is_tdstar (last_tok pre)).

(* the token after the `*` (if any) is none of `*`, `**`, `**/`: nothing is merged into the `*` *)
Definition star_after_ok (post : list tok) : bool :=
  match post with
  | [] => true
  | t :: _ => negb (is_tstar (Some t) || is_tdstar (Some t) || is_tdstarslash (Some t))
  end.

(* ------------------------------------------------------------------------------------------ *)
(* The fragment F2 of the correctness theorem: F1 plus back-references                         *)
(* ------------------------------------------------------------------------------------------ *)

(* F1 (literals, `?`, classes that cannot match the separator, `*`, default named wildcards, no two
   star-like tokens adjacent, no `**`) where a name may occur again: every later occurrence is a
   back-reference.  A back-reference counts as star-like for the adjacency rule (it can match the
   empty text) and is not the last token.  Both restrictions are tight: `a${*n}/${*n}` accepts a/
   (C17_empty_component_backref_refuted) and so does `a${*n}/${*n}*`. *)
Fixpoint f2_toks (ts : list tok) (subs : subs_t) (seen : list str) (prev_star : bool) : bool :=
  match ts with
  | [] => true
  | t :: r =>
    match t with
    | TLit s => negb (is_nil s) && f2_toks r subs seen false
    | TQ => f2_toks r subs seen false
    | TCls inner => cls_rejects_sep inner && f2_toks r subs seen false
    | TStar => negb prev_star && f2_toks r subs seen true
    | TName n =>
      negb prev_star && negb (is_nil n)
      && (if mem_str n seen then negb (is_nil r) && f2_toks r subs seen true
          else is_none (subs_get n subs) && f2_toks r subs (n :: seen) true)
    | _ => false
    end
  end.

Definition f2 (p : str) (subs : subs_t) : bool :=
  negb (is_nil (tokenize p)) && f2_toks (tokenize p) subs [] false.
