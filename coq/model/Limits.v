(* C12 executable model: job loop, resource accounting, holds. Definitions only (no proofs), so
   that the correspondence still runs when a proof breaks.

   Part A  the job loop of Builder.job_loop as a transition system on the slot bookkeeping.
   Part B  the scheduler/step tables that matter for dispatch: per step the creator link,
           attached flag, state, _holding, _has_hash, step_resource rows; available_resource;
           the dispatch guard is assembled from the *generated* fragments of GenLimits.v
           (STEP_DISPATCH_WHERE, the extra conjuncts of SELECT_NEXT_STEP, RESOURCE_UNAVAILABLE,
           the value expressions of FILL_SAFE_UPDATE, trigger step_reset_holding, ...).
           Ghost component: per step the list `cmds` of its commands that are executing right
           now, each with the claims it was dispatched under (`held`) and the number of hold()
           blocks its process has open (`depth`). The code has no such table; it is what the
           property talks about ("running commands hold units", "declared inside a hold block").
   `_safe` / `_safe_ignoring_hold` are modelled by their definition (every step ancestor
   RUNNING or SUCCEEDED and not holding); that the cached columns agree with the definition
   when a decision is taken is property C10. The remaining dispatch conditions (deferred,
   _implied_need, _ready) are oracle inputs (event ESetMeta). *)
From Coq Require Import List Arith NArith ZArith Bool.
From SV Require Import gen.GenLimits.
Import ListNotations.
Open Scope bool_scope.

(* ------------------------------------------------------------------------------------------ *)
(* Part A: job loop                                                                            *)
(* ------------------------------------------------------------------------------------------ *)

(* Builder.running_tasks holds step tasks (TJob, started by start_task: the only place a step
   command is launched from) and hash tasks (THash, started by start_hash_task); both kinds share
   the njob slots. A running step task whose command called amend() on inputs that still need
   hashing is parked in Builder.run_promoted_hash_jobs (`amending`, one entry per call in progress);
   its command is blocked in the RPC but it has not ended: it still executes, and it still counts
   as a command task. What the code counts against njob is NOT fixed here: the two tests of
   Builder.job_loop are translated from the source into gen.GenLimits.hash_slot_free /
   job_slot_free (functions of len(running_tasks), the number of calls parked in
   run_promoted_hash_jobs, and njob). *)
Inductive task := TJob (j : nat) | THash (h : nat).

Definition task_eqb (a b : task) : bool :=
  match a, b with
  | TJob x, TJob y => Nat.eqb x y
  | THash x, THash y => Nat.eqb x y
  | _, _ => false
  end.

Definition is_job (t : task) : bool := match t with TJob _ => true | THash _ => false end.

Record loop := mkLoop {
  njob : nat;              (* Builder.njob *)
  running : list task;     (* Builder.running_tasks *)
  amending : list nat;     (* job ids with a run_promoted_hash_jobs call in progress (amend() waits) *)
  popping : bool;          (* job_loop is suspended in `await scheduler.pop_next_job()` *)
  promoted : nat;          (* hash jobs run by run_promoted_hash_jobs, outside the budget *)
  draining : bool }.

Inductive lev :=
| LHashStart (h : nat)       (* hash_queue.pop_nowait() returned a job -> start_hash_task *)
| LPopBegin                  (* slot test passed, pop_next_job awaited *)
| LPopEnd (j : option nat)   (* pop_next_job returned; Some j -> start_task *)
| LTaskDone (t : task)       (* done callback: running_tasks.pop(task) *)
| LAmendBegin (j : nat)      (* amend_step of running job j enters run_promoted_hash_jobs *)
| LAmendEnd (j : nat)        (* ... its hash jobs are resolved, the RPC returns *)
| LPromotedStart | LPromotedDone
| LDrain | LWake.

Fixpoint remove_first (t : task) (l : list task) : list task :=
  match l with
  | [] => []
  | x :: r => if task_eqb t x then r else x :: remove_first t r
  end.

Fixpoint remove_first_nat (j : nat) (l : list nat) : list nat :=
  match l with
  | [] => []
  | x :: r => if Nat.eqb j x then r else x :: remove_first_nat j r
  end.

Definition zlen {A} (l : list A) : Z := Z.of_nat (length l).

(* a slot test: len(running_tasks) -> calls parked in run_promoted_hash_jobs -> njob -> bool *)
Definition slot_test := Z -> Z -> Z -> bool.

Definition guard_of (g : slot_test) (l : loop) : bool :=
  g (zlen (running l)) (zlen (amending l)) (Z.of_nat (njob l)).

Definition set_loop (l : loop) (r : list task) (a : list nat) (p : bool) : loop :=
  mkLoop (njob l) r a p (promoted l) (draining l).

(* the loop for an arbitrary pair of tests (hg in front of start_hash_task, jg in front of
   pop_next_job/start_task) *)
Definition lstep_gen (hg jg : slot_test) (l : loop) (e : lev) : loop :=
  match e with
  | LHashStart h =>
      if negb (popping l) && guard_of hg l
      then set_loop l (THash h :: running l) (amending l) false else l
  | LPopBegin =>
      if negb (popping l) && guard_of jg l
      then set_loop l (running l) (amending l) true else l
  | LPopEnd None => set_loop l (running l) (amending l) false
  | LPopEnd (Some j) =>
      if popping l && negb (draining l)
      then set_loop l (TJob j :: running l) (amending l) false
      else set_loop l (running l) (amending l) false
  | LTaskDone t => set_loop l (remove_first t (running l)) (amending l) (popping l)
  | LAmendBegin j =>
      if existsb (task_eqb (TJob j)) (running l)
      then set_loop l (running l) (j :: amending l) (popping l) else l
  | LAmendEnd j => set_loop l (running l) (remove_first_nat j (amending l)) (popping l)
  | LPromotedStart => mkLoop (njob l) (running l) (amending l) (popping l) (S (promoted l)) (draining l)
  | LPromotedDone => mkLoop (njob l) (running l) (amending l) (popping l) (pred (promoted l)) (draining l)
  | LDrain => mkLoop (njob l) (running l) (amending l) (popping l) (promoted l) true
  | LWake => l
  end.

Definition lrun_gen (hg jg : slot_test) (l : loop) (evs : list lev) : loop := fold_left (lstep_gen hg jg) evs l.

(* the code as it is: the two tests are generated from Builder.job_loop *)
Definition lstep := lstep_gen hash_slot_free job_slot_free.
Definition lrun := lrun_gen hash_slot_free job_slot_free.
Definition hash_guard := guard_of hash_slot_free.
Definition job_guard := guard_of job_slot_free.

(* Step commands are only launched inside TJob tasks (structure facts of GenLimits.v); a command
   whose step waits in amend() is still executing. *)
Definition command_tasks (l : loop) : nat := length (filter is_job (running l)).

Definition loop_init (n : nat) : loop := mkLoop n [] [] false 0 false.

Definition overrun (l : loop) : bool := negb (Nat.leb (command_tasks l) (njob l)).

(* Counterexample search (a standing case of the check, and the source of the model-level witness
   when the proof about the slot tests breaks): depth-first over the events that can change the
   bookkeeping, fresh ids = k. *)
Definition jobs_of (r : list task) : list nat :=
  flat_map (fun t => match t with TJob j => [j] | THash _ => [] end) r.

Definition next_events (l : loop) (k : nat) : list lev :=
  [LPopBegin; LPopEnd (Some k); LHashStart k]
  ++ map LAmendBegin (jobs_of (running l))
  ++ map LAmendEnd (amending l)
  ++ map LTaskDone (running l).

Fixpoint first_some {A B} (f : A -> option B) (l : list A) : option B :=
  match l with
  | [] => None
  | x :: r => match f x with Some y => Some y | None => first_some f r end
  end.

Fixpoint find_overrun_gen (hg jg : slot_test) (depth : nat) (l : loop) (k : nat) (acc : list lev) : option (list lev) :=
  if overrun l then Some (rev acc) else
  match depth with
  | O => None
  | S d => first_some (fun e => find_overrun_gen hg jg d (lstep_gen hg jg l e) (S k) (e :: acc)) (next_events l k)
  end.

(* iterative deepening: a shortest overrun of at most depth+tries-1 events for job limit n *)
Fixpoint shortest_overrun_gen (hg jg : slot_test) (n : nat) (depth : nat) (tries : nat) : option (list lev) :=
  match tries with
  | O => None
  | S t => match find_overrun_gen hg jg depth (loop_init n) 1 [] with
           | Some w => Some w
           | None => shortest_overrun_gen hg jg n (S depth) t
           end
  end.

Definition shortest_overrun := shortest_overrun_gen hash_slot_free job_slot_free.

(* the variant test that discounts the step tasks parked in amend() (seeded change r3) *)
Definition lend_slot_free : slot_test := fun r w n => Z.ltb (r - w) n.

(* correspondence with the real Builder: after every event the implementation performed, the
   number of tracked tasks and of parked amend calls must agree *)
Fixpoint loop_trace_ok (l : loop) (tr : list (lev * nat * nat)) : bool :=
  match tr with
  | [] => true
  | (e, nr, na) :: r =>
      let l' := lstep l e in
      Nat.eqb (length (running l')) nr && Nat.eqb (length (amending l')) na && loop_trace_ok l' r
  end.

Fixpoint loop_trace_mismatch (l : loop) (tr : list (lev * nat * nat)) (n : nat) : option nat :=
  match tr with
  | [] => None
  | (e, nr, na) :: r =>
      let l' := lstep l e in
      if Nat.eqb (length (running l')) nr && Nat.eqb (length (amending l')) na
      then loop_trace_mismatch l' r (S n) else Some n
  end.

(* ------------------------------------------------------------------------------------------ *)
(* Part B: tables                                                                              *)
(* ------------------------------------------------------------------------------------------ *)

Inductive sstate := Pending | Running | Checking | Succeeded | Failed.

Definition code (s : sstate) : N :=
  match s with
  | Pending => code_PENDING | Running => code_RUNNING | Checking => code_CHECKING
  | Succeeded => code_SUCCEEDED | Failed => code_FAILED
  end.

Definition of_code (n : N) : sstate :=
  if N.eqb n code_RUNNING then Running
  else if N.eqb n code_CHECKING then Checking
  else if N.eqb n code_SUCCEEDED then Succeeded
  else if N.eqb n code_FAILED then Failed
  else Pending.

Definition sstate_eqb (a b : sstate) : bool := N.eqb (code a) (code b).

Definition claims := list (N * N).   (* resource name (as a number) -> units *)

Record cmd := mkCmd { held : claims; depth : N }.

Record row := mkRow {
  label : N;
  creator : option nat;    (* Some p: created by step p; None: creator is the root or NULL *)
  attached : bool;         (* NOT node.detached *)
  st : sstate;
  holding : N;             (* step._holding *)
  has_hash : bool;         (* step._has_hash *)
  rclaims : claims;        (* step_resource rows *)
  sig : list N;            (* output lists (as numbers, 0 = none) whose step->file edges exist: what
                              can_recycle compares for a detached step (edges of earlier declarations
                              survive a partial recycle) *)
  deferred : bool;         (* oracle inputs, see ESetMeta *)
  ineed : N;
  ready : bool;
  cmds : list cmd }.       (* ghost: executing commands of this step *)

Record sys := mkSys { db : list row; avail : claims; threshold : N }.

Definition set_creator c x := mkRow (label x) c (attached x) (st x) (holding x) (has_hash x) (rclaims x) (sig x) (deferred x) (ineed x) (ready x) (cmds x).
Definition set_attached b x := mkRow (label x) (creator x) b (st x) (holding x) (has_hash x) (rclaims x) (sig x) (deferred x) (ineed x) (ready x) (cmds x).
Definition set_st s x := mkRow (label x) (creator x) (attached x) s (holding x) (has_hash x) (rclaims x) (sig x) (deferred x) (ineed x) (ready x) (cmds x).
Definition set_holding h x := mkRow (label x) (creator x) (attached x) (st x) h (has_hash x) (rclaims x) (sig x) (deferred x) (ineed x) (ready x) (cmds x).
Definition set_has_hash b x := mkRow (label x) (creator x) (attached x) (st x) (holding x) b (rclaims x) (sig x) (deferred x) (ineed x) (ready x) (cmds x).
Definition set_rclaims c x := mkRow (label x) (creator x) (attached x) (st x) (holding x) (has_hash x) c (sig x) (deferred x) (ineed x) (ready x) (cmds x).
Definition set_sig (g : list N) x := mkRow (label x) (creator x) (attached x) (st x) (holding x) (has_hash x) (rclaims x) g (deferred x) (ineed x) (ready x) (cmds x).
Definition set_meta (m : bool * N * bool) x :=
  mkRow (label x) (creator x) (attached x) (st x) (holding x) (has_hash x) (rclaims x) (sig x) (fst (fst m)) (snd (fst m)) (snd m) (cmds x).
Definition set_cmds c x := mkRow (label x) (creator x) (attached x) (st x) (holding x) (has_hash x) (rclaims x) (sig x) (deferred x) (ineed x) (ready x) c.

(* Step.set_state with the trigger step_reset_holding (generated WHEN clause). *)
Definition set_state_tr (s : sstate) (x : row) : row :=
  if holding_reset (code s) (holding x) then set_holding 0 (set_st s x) else set_st s x.

Fixpoint upd {A} (l : list A) (i : nat) (f : A -> A) : list A :=
  match l, i with
  | [], _ => []
  | x :: r, O => f x :: r
  | x :: r, S j => x :: upd r j f
  end.

Fixpoint mapi_from {A B} (n : nat) (f : nat -> A -> B) (l : list A) : list B :=
  match l with [] => [] | x :: r => f n x :: mapi_from (S n) f r end.
Definition mapi {A B} (f : nat -> A -> B) (l : list A) : list B := mapi_from 0 f l.

Fixpoint remove_nth {A} (k : nat) (l : list A) : list A :=
  match l, k with
  | [], _ => []
  | _ :: r, O => r
  | x :: r, S j => x :: remove_nth j r
  end.

Definition memb (i : nat) (l : list nat) : bool := existsb (Nat.eqb i) l.

Definition sumN (l : list N) : N := fold_right N.add 0%N l.

Fixpoint claim (r : N) (cl : claims) : N :=
  match cl with
  | [] => 0%N
  | (n, u) :: t => ((if N.eqb n r then u else 0) + claim r t)%N
  end.

Fixpoint lookup (r : N) (cl : claims) : option N :=
  match cl with
  | [] => None
  | (n, u) :: t => if N.eqb n r then Some u else lookup r t
  end.

Definition availz (a : claims) (r : N) : N := match lookup r a with Some u => u | None => 0%N end.

Fixpoint nodupb (l : list N) : bool :=
  match l with [] => true | x :: r => negb (existsb (N.eqb x) r) && nodupb r end.

(* step_resource: PRIMARY KEY (node, name), CHECK(units > 0); the API passes a dict *)
Definition valid_claims (cl : claims) : bool :=
  nodupb (map fst cl) && forallb (fun e => N.ltb 0 (snd e)) cl.

(* the SUM of RESOURCE_UNAVAILABLE over the rows the generated predicate counts *)
Definition row_used (r : N) (x : row) : N :=
  if guard_counted (code (st x)) then claim r (rclaims x) else 0%N.
Definition used (r : N) (d : list row) : N := sumN (map (row_used r) d).

(* units held by executing commands (ghost) *)
Definition cmd_units (r : N) (c : cmd) : N := claim r (held c).
Definition row_cmd_used (r : N) (x : row) : N := sumN (map (cmd_units r) (cmds x)).
Definition cmd_used (r : N) (d : list row) : N := sumN (map (row_cmd_used r) d).

Definition req_blocked (s : sys) (e : N * N) : bool :=
  match lookup (fst e) (avail s) with
  | None => res_blocked true 0%Z (Z.of_N (used (fst e) (db s))) (Z.of_N (snd e))
  | Some a => res_blocked false (Z.of_N a) (Z.of_N (used (fst e) (db s))) (Z.of_N (snd e))
  end.
Definition res_unavailable (s : sys) (x : row) : bool := existsb (req_blocked s) (rclaims x).

(* _safe / _safe_ignoring_hold by definition, with the generated value expressions.
   chain d i = (chain, chain_nh) of row i: its own safe values with its own state folded in. *)
Fixpoint chain (fuel : nat) (d : list row) (i : nat) : bool * bool :=
  match fuel with
  | O => (false, false)
  | S f =>
      match nth_error d i with
      | None => (false, false)
      | Some x =>
          match creator x with
          | None => (seed_chain true false false 0 0 (code (st x)) (holding x),
                     seed_chain_nh true false false 0 0 (code (st x)) (holding x))
          | Some c => let p := chain f d c in
                      (rec_chain (fst p) (snd p) (code (st x)) (holding x),
                       rec_chain_nh (fst p) (snd p) (code (st x)) (holding x))
          end
      end
  end.

Definition safe_pair (d : list row) (x : row) : bool * bool :=
  match creator x with
  | None => (seed_safe true false false 0 0 (code (st x)) (holding x),
             seed_safe_nh true false false 0 0 (code (st x)) (holding x))
  | Some c => let p := chain (length d) d c in
              (rec_safe (fst p) (snd p) 0 0, rec_safe_nh (fst p) (snd p) 0 0)
  end.

Definition eligible_row (s : sys) (x : row) : bool :=
  let p := safe_pair (db s) x in
  dispatch_where (code (st x)) (fst p) (has_hash x) (snd p) (deferred x) (ineed x) (ready x)
  && select_extra (ineed x) (threshold s) (negb (attached x)) (has_hash x) (res_unavailable s x).

Definition eligible (s : sys) (i : nat) : bool :=
  match nth_error (db s) i with None => false | Some x => eligible_row s x end.

Definition eligible_set (s : sys) : list nat := filter (eligible s) (seq 0 (length (db s))).

(* creator -> product edges between steps *)
Definition children_of (d : list row) (ps : list nat) : list nat :=
  filter (fun j => match nth_error d j with
                   | Some x => match creator x with Some p => memb p ps | None => false end
                   | None => false end) (seq 0 (length d)).

Fixpoint descendants (fuel : nat) (d : list row) (ps : list nat) : list nat :=
  match fuel with
  | O => []
  | S f => match children_of d ps with [] => [] | cs => cs ++ descendants f d cs end
  end.

Definition set_attached_in (js : list nat) (b : bool) (d : list row) : list row :=
  mapi (fun j x => if memb j js then set_attached b x else x) d.

(* Step.detach: creator := NULL, detached := TRUE, and if it was attached, all recursive products *)
Definition detach_one (d : list row) (j : nat) : list row :=
  match nth_error d j with
  | None => d
  | Some x =>
      match creator x with
      | None => d
      | Some _ =>
          let d1 := upd d j (fun y => set_attached false (set_creator None y)) in
          if attached x then set_attached_in (descendants (length d) d1 [j]) false d1 else d1
      end
  end.

(* Step._detach_created_steps *)
Definition detach_created (d : list row) (i : nat) : list row :=
  fold_left detach_one (children_of d [i]) d.

Fixpoint find_label_from (n : nat) (l : N) (d : list row) : option nat :=
  match d with
  | [] => None
  | x :: r => if N.eqb (label x) l then Some n else find_label_from (S n) l r
  end.
Definition find_label (l : N) (d : list row) : option nat := find_label_from 0 l d.

Inductive outcome := OSucc | OFail | ODefer.
Inductive chk := CSkip | CMismatch | CValid.

Inductive event :=
| ESetMeta (m : list (bool * N * bool))    (* oracle: deferred, _implied_need, _ready of every row *)
| EDispatch (i : nat)                      (* Scheduler.pop_next_job selected step i *)
| EReset (i : nat)                         (* Step.reset_for_rerun *)
| EComplete (i k : nat) (o : outcome)      (* the k-th executing command of step i ended: mark_completed *)
| ECheckDone (i : nat) (c : chk)           (* try_skip_job / validate_dynamic_job verdict *)
| EDefine (p : nat) (l g : N) (cl : claims) (nd : N) (eo : bool)   (* Workflow.define_step by creator p; eo (oracle):
     the env_overrides of the declaration differ from the stored ones (read by Step.after_recycle only) *)
| EHold (i k : nat) | ERelease (i k : nat) (* hold_dispatch / release_dispatch from command k of step i *)
| EMarkPending (i : nat).                  (* Workflow.mark_step_pending *)

Definition state_of_outcome (o : outcome) : sstate :=
  match o with OSucc => Succeeded | OFail => Failed | ODefer => Pending end.

Definition with_db (s : sys) (d : list row) : sys := mkSys d (avail s) (threshold s).

Definition add_out (g : N) (l : list N) : list N :=
  if N.eqb g 0 then l else if existsb (N.eqb g) l then l else g :: l.

(* Step.can_recycle on the output lists: the new declaration has no output (g = 0) or one *)
Definition outs_match (l : list N) (g : N) : bool :=
  match l with
  | [] => N.eqb g 0
  | [h] => N.eqb h g
  | _ => false
  end.

Definition new_row (p : nat) (att : bool) (l g : N) (cl : claims) (nd : N) : row :=
  mkRow l (Some p) att Pending 0 false cl (add_out g []) false nd false [].

(* Node.reattach / Trellis.create on an existing detached node: the old creator, if it is still
   recorded, must be detached and loses its stored hash (Step.after_lost_product). *)
Definition lose_product (d : list row) (x : row) : option (list row) :=
  match creator x with
  | None => Some d
  | Some c => match nth_error d c with
              | None => Some d
              | Some cx => if attached cx then None else Some (upd d c (set_has_hash false))
              end
  end.

(* A job of the step is in flight: RUNNING (command executing) or CHECKING (hash check under way). *)
Definition in_flight (x : row) : bool := sstate_eqb (st x) Running || sstate_eqb (st x) Checking.

(* Workflow.mark_step_pending on a row: calls on RUNNING and CHECKING steps are ignored (pinned by the
   translator), otherwise Step.set_state(PENDING) with the trigger. *)
Definition mark_pending_row (y : row) : row := if in_flight y then y else set_state_tr Pending y.

(* Interpreter of Step.after_recycle as translated statement by statement (gen.GenLimits.after_recycle_ops).
   k = the local `in_flight` of the repaired shape; eo = the env_overrides test (oracle input). *)
Definition rcond_holds (c : rcond) (k eo : bool) (y : row) : bool :=
  match c with
  | CAlways => true
  | CFailed => sstate_eqb (st y) Failed
  | CEnvDiffers => eo
  | CInFlight => k
  | CNotInFlight => negb k
  end.

Definition ract_apply (a : ract) (cl : claims) (y : row) : row :=
  match a with
  | AUpdate z => if z then set_holding 0 y else y      (* need / shell are outside the model *)
  | AMarkPending => mark_pending_row y
  | ASetClaims => set_rclaims cl y
  | ANone => y
  end.

Definition rop_apply (k eo : bool) (cl : claims) (y : row) (op : rcond * ract) : row :=
  if rcond_holds (fst op) k eo y then ract_apply (snd op) cl y else y.

Definition run_ops (k eo : bool) (cl : claims) (ops : list (rcond * ract)) (y : row) : row :=
  fold_left (rop_apply k eo cl) ops y.

(* every write of _holding / step_resource is under `not in_flight`: what the translator calls the
   repaired shape (recycle_keeps_inflight); proofs.LimitsProofs.guarded_ops_frame: such a list leaves a
   row in flight exactly as it is *)
Definition ops_guarded (ops : list (rcond * ract)) : bool :=
  forallb (fun op => match snd op with
                     | AUpdate true | ASetClaims => match fst op with CNotInFlight => true | _ => false end
                     | _ => true
                     end) ops.

(* Trellis.try_recycle + Step.after_recycle.
   keep = the repaired shape (generated recycle_keeps_inflight): a row whose job is in flight is left as it
   is; otherwise the statements run with `in_flight` false (for a row that is not in flight that is what
   the local variable holds; for a row in flight under keep = false it is the unrepaired code, whatever
   shape the source has today, so that the theorems about both shapes are independent of the source). *)
Definition recycle_full_row (keep : bool) (cl : claims) (nd : N) (eo : bool) (y : row) : row :=
  set_meta (false, nd, false)
    (if keep && in_flight y then y else run_ops false eo cl after_recycle_ops y).

Definition recycle_full (keep : bool) (d : list row) (i p : nat) (att : bool) (x : row) (cl : claims) (nd : N) (eo : bool) : option (list row) :=
  match lose_product d x with
  | None => None
  | Some d0 =>
      let d1 := upd d0 i (fun y => set_attached att (set_creator (Some p) y)) in
      let d2 := set_attached_in (descendants (length d1) d1 [i]) att d1 in
      Some (upd d2 i (recycle_full_row keep cl nd eo))
  end.

(* Trellis.create on a detached node + Step.initialize_row + set_resources.
   keep: the row of a step whose job is in flight carries state and _holding over and define_step
   does not replace its step_resource rows. *)
Definition recycle_partial_row (keep : bool) (g : N) (cl : claims) (nd : N) (y : row) : row :=
  set_meta (false, nd, false)
    (if keep && in_flight y then set_sig (add_out g (sig y)) y
     else set_rclaims cl (set_sig (add_out g (sig y)) (set_holding 0 (set_st (of_code partial_recycle_state) y)))).

Definition recycle_partial (keep : bool) (d : list row) (i p : nat) (att : bool) (x : row) (g : N) (cl : claims) (nd : N) : option (list row) :=
  match lose_product d x with
  | None => None
  | Some d0 =>
      let d1 := upd d0 i (fun y => set_attached att (set_creator (Some p) y)) in
      let d2 := detach_created d1 i in
      Some (upd d2 i (recycle_partial_row keep g cl nd))
  end.

(* step i is among the (indirect) creators of step j: the walk of the creator links Workflow.define_step makes
   before it refuses "Step cannot define its own creator" (only detached creators get that far) *)
Fixpoint creator_reaches (fuel : nat) (d : list row) (j i : nat) : bool :=
  match fuel with
  | O => false
  | S f => match nth_error d j with
           | Some x => match creator x with
                       | Some c => Nat.eqb c i || creator_reaches f d c i
                       | None => false
                       end
           | None => false
           end
  end.

(* keep: see recycle_full; rej = the other repaired shape (generated define_rejects_inflight):
   Workflow.define_step refuses to declare a detached step again while its job is in flight. *)
Definition step_gen (keep rej : bool) (s : sys) (e : event) : option sys :=
  let d := db s in
  match e with
  | ESetMeta m =>
      Some (with_db s (map (fun xm => match snd xm with Some mm => set_meta mm (fst xm) | None => fst xm end)
                           (combine d (map Some m ++ repeat None (length d)))))
  | EDispatch i =>
      match nth_error d i with
      | None => None
      | Some x =>
          if eligible_row s x then
            let ns := of_code (dispatch_code (has_hash x)) in
            Some (with_db s (upd d i (fun y =>
              let y1 := set_st ns y in
              if has_hash x then y1 else set_cmds (cmds y ++ [mkCmd (rclaims y) 0]) y1)))
          else None
      end
  | EReset i =>
      match nth_error d i with None => None | Some _ => Some (with_db s (detach_created d i)) end
  | EComplete i k o =>
      match nth_error d i with
      | None => None
      | Some x =>
          match nth_error (cmds x) k with
          | None => None
          | Some _ =>
              let ns := state_of_outcome o in
              let d1 := upd d i (fun y =>
                set_has_hash (match o with OSucc => true | _ => false end)
                  (set_state_tr ns (set_cmds (remove_nth k (cmds y)) y))) in
              Some (with_db s (match o with OFail => detach_created d1 i | _ => d1 end))
          end
      end
  | ECheckDone i c =>
      match nth_error d i with
      | None => None
      | Some x =>
          if sstate_eqb (st x) Checking then
            match c with
            | CSkip => Some (with_db s (upd d i (fun y => set_has_hash true (set_state_tr Succeeded y))))
            | CMismatch => Some (with_db s (upd (detach_created d i) i (fun y => set_state_tr Pending (set_has_hash false y))))
            | CValid => Some (with_db s (upd d i (set_state_tr Pending)))
            end
          else None
      end
  | EDefine p l g cl nd eo =>
      match nth_error d p with
      | None => None
      | Some px =>
          if negb (valid_claims cl) then None else
          match find_label l d with
          | None => Some (with_db s (d ++ [new_row p (attached px) l g cl nd]))
          | Some i =>
              match nth_error d i with
              | None => None
              | Some x =>
                  if attached x then None
                  else if Nat.eqb i p then None
                  else if define_rejects_own_creator && creator_reaches (length d) d p i then None
                  else if rej && in_flight x then None
                  else match (if outs_match (sig x) g then recycle_full keep d i p (attached px) x cl nd eo
                              else recycle_partial keep d i p (attached px) x g cl nd) with
                       | None => None
                       | Some d' => Some (with_db s d')
                       end
              end
          end
      end
  | EHold i k =>
      match nth_error d i with
      | None => None
      | Some x =>
          match nth_error (cmds x) k with
          | None => None
          | Some _ => Some (with_db s (upd d i (fun y =>
              set_cmds (upd (cmds y) k (fun c => mkCmd (held c) (depth c + 1))) (set_holding (hold_step (holding y)) y))))
          end
      end
  | ERelease i k =>
      match nth_error d i with
      | None => None
      | Some x =>
          match nth_error (cmds x) k with
          | None => None
          | Some _ =>
              if release_guard (holding x) then
                Some (with_db s (upd d i (fun y =>
                  set_cmds (upd (cmds y) k (fun c => mkCmd (held c) (depth c - 1))) (set_holding (release_step (holding y)) y))))
              else None
          end
      end
  | EMarkPending i =>
      match nth_error d i with
      | None => None
      | Some x =>
          if sstate_eqb (st x) Running || sstate_eqb (st x) Checking then Some s
          else Some (with_db s (upd d i (set_state_tr Pending)))
      end
  end.

(* What the completion of a hash-check job writes, WHATEVER the state of the row: Executor.try_skip_job /
   validate_dynamic_job do not look at the state before they call mark_completed / _reset_step_to_pending /
   set_state(PENDING). ECheckDone above is this, restricted to a row that is CHECKING; the two coincide in every
   calm history and under either repair (a CHECKING row is left only through its verdict). After a partial recycle
   of a CHECKING step (part of D21) the verdict of the job still in flight reaches a row that has moved on:
   late_verdict describes that step of the code (used by the refutation late_verdict_refuted and by the scripted
   E2 history that replays it on the real Workflow). *)
Definition verdict_db (d : list row) (i : nat) (c : chk) : list row :=
  match c with
  | CSkip => upd d i (fun y => set_has_hash true (set_state_tr Succeeded y))
  | CMismatch => upd (detach_created d i) i (fun y => set_state_tr Pending (set_has_hash false y))
  | CValid => upd d i (set_state_tr Pending)
  end.
Definition late_verdict (s : sys) (i : nat) (c : chk) : sys := with_db s (verdict_db (db s) i c).

(* a rejected request is rolled back: the state is unchanged *)
Definition apply_gen (keep rej : bool) (s : sys) (e : event) : sys :=
  match step_gen keep rej s e with Some s' => s' | None => s end.
Definition run_gen (keep rej : bool) (s : sys) (evs : list event) : sys := fold_left (apply_gen keep rej) evs s.

(* the code as it is: the two shape flags are generated from Step.after_recycle / Step.initialize_row /
   Workflow.define_step *)
Definition step := step_gen recycle_keeps_inflight define_rejects_inflight.
Definition apply := apply_gen recycle_keeps_inflight define_rejects_inflight.
Definition run := run_gen recycle_keeps_inflight define_rejects_inflight.

(* The hypothesis of the partial theorems: a step whose job is in flight (its command is executing,
   or its hash check is under way) is not recycled (Workflow.define_step on a detached label, fully
   or partially). Outside this hypothesis the model is moreover an under-approximation: a check job
   that is still in flight after its row was reset could deliver its verdict to a row that is no
   longer CHECKING, which ECheckDone does not describe. *)
Definition quiet_event (s : sys) (e : event) : Prop :=
  match e with
  | EDefine p l g cl nd eo =>
      match find_label l (db s) with
      | Some i => match nth_error (db s) i with Some x => cmds x = [] /\ st x <> Checking | None => True end
      | None => True
      end
  | _ => True
  end.

Fixpoint quiet_gen (keep rej : bool) (s : sys) (evs : list event) : Prop :=
  match evs with
  | [] => True
  | e :: r => quiet_event s e /\ quiet_gen keep rej (apply_gen keep rej s e) r
  end.
Definition quiet := quiet_gen recycle_keeps_inflight define_rejects_inflight.

(* A weaker hypothesis that still covers the ordinary situation "a deferred plan runs again and declares
   its children again while they are still in flight": a step in flight may be declared again when the
   declaration is a FULL recycle (same outputs) and either only a hash check is under way (no command
   executes: nothing of the row matters to the limits, and the row stays CHECKING), or the command executes
   outside any hold block and the new declaration asks for the same resources (the row is rewritten with
   the values it has). Everything else about an in-flight step (other resources, an open hold block, other
   outputs = partial recycle) is finding D21. *)
Definition benign_redeclare (x : row) (g : N) (cl : claims) : Prop :=
  outs_match (sig x) g = true /\ (st x = Checking \/ (holding x = 0%N /\ cl = rclaims x)).

Definition calm_event (s : sys) (e : event) : Prop :=
  match e with
  | EDefine p l g cl nd eo =>
      match find_label l (db s) with
      | Some i => match nth_error (db s) i with
                  | Some x => (cmds x = [] /\ st x <> Checking) \/ benign_redeclare x g cl
                  | None => True end
      | None => True
      end
  | _ => True
  end.

Fixpoint calm_gen (keep rej : bool) (s : sys) (evs : list event) : Prop :=
  match evs with
  | [] => True
  | e :: r => calm_event s e /\ calm_gen keep rej (apply_gen keep rej s e) r
  end.
Definition calm := calm_gen recycle_keeps_inflight define_rejects_inflight.

(* ------------------------------------------------------------------------------------------ *)
(* Observations used by the correspondence                                                     *)
(* ------------------------------------------------------------------------------------------ *)

Definition claims_eqb (a b : claims) : bool :=
  Nat.eqb (length a) (length b) && forallb (fun e => N.eqb (claim (fst e) b) (snd e)) a
  && forallb (fun e => N.eqb (claim (fst e) a) (snd e)) b.

(* observed row: (label, creator label option as N+1 / 0, attached, state code, holding, has_hash, claims) *)
Definition obs := (N * option N * bool * N * N * bool * claims)%type.

Definition creator_label (d : list row) (x : row) : option N :=
  match creator x with None => None | Some c => match nth_error d c with Some cx => Some (label cx) | None => None end end.

Definition opt_eqb (a b : option N) : bool :=
  match a, b with Some x, Some y => N.eqb x y | None, None => true | _, _ => false end.

Definition obs_row_ok (d : list row) (o : obs) : bool :=
  match o with
  | (l, cr, att, stc, h, hh, cl) =>
      match find_label l d with
      | None => false
      | Some i => match nth_error d i with
                  | None => false
                  | Some x => opt_eqb (creator_label d x) cr && Bool.eqb (attached x) att
                              && N.eqb (code (st x)) stc && N.eqb (holding x) h
                              && Bool.eqb (has_hash x) hh && claims_eqb (rclaims x) cl
                  end
      end
  end.

Definition obs_ok (s : sys) (os : list obs) : bool :=
  Nat.eqb (length os) (length (db s)) && forallb (obs_row_ok (db s)) os.

Definition labels_of (s : sys) (l : list nat) : list N :=
  flat_map (fun i => match nth_error (db s) i with Some x => [label x] | None => [] end) l.

Definition same_set (a b : list N) : bool :=
  forallb (fun x => existsb (N.eqb x) b) a && forallb (fun x => existsb (N.eqb x) a) b.

(* One trace item: the event, whether the implementation accepted it, the rows afterwards, and
   (optionally) the set of labels the implementation considers dispatchable afterwards. *)
Definition item := (event * bool * list obs * option (list N))%type.

Fixpoint check_trace (s : sys) (tr : list item) (n : nat) : option nat :=   (* index of first mismatch *)
  match tr with
  | [] => None
  | (e, acc, os, el) :: r =>
      let acc_m := match step s e with Some _ => true | None => false end in
      let s' := apply s e in
      if Bool.eqb acc_m acc && obs_ok s' os
         && match el with None => true | Some ls => same_set (labels_of s' (eligible_set s')) ls end
      then check_trace s' r (S n) else Some n
  end.

Definition trace_ok (s : sys) (tr : list item) : bool :=
  match check_trace s tr 0 with None => true | Some _ => false end.
