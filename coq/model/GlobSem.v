(* Python 3.12 glob.glob(pattern, recursive=True, include_hidden=True) on a finite directory tree,
   followed by what NamedGlob.glob() does with each result (a trailing separator is added to a
   directory; a result that ends with a separator but is no directory is skipped).  Definitions only.

   Domain: relative patterns whose components (split at '/') are non-empty except possibly the
   last one, none equal to "." or ".."; trees without symbolic links.  Within that domain the
   model follows glob.py step by step, including two quirks of the standard library:
     - the longest wildcard-free directory prefix of the pattern is not checked for existence, and
       a literal component after a wildcard one is checked with lexists only (not isdir);
     - a recursive `**` component yields its own directory ("" joined to the prefix) without
       checking that the prefix is an existing directory, so glob('missing/**') = ['missing/'].
   fnmatch is modelled for class bodies made of single characters and ascending ranges. *)
From Coq Require Import List NArith Bool Arith.
From SV Require Import lib.Bytes.
From SV Require Import lib.Regex.
Import ListNotations.
Open Scope N_scope.

Inductive node := File | Dir (es : list (str * node)).
Definition entry := (str * node)%type.

Definition is_dir (n : node) : bool := match n with Dir _ => true | File => false end.
Definition is_dir_opt (n : option node) : bool := match n with Some (Dir _) => true | _ => false end.

Fixpoint lookup_e (name : str) (es : list entry) : option node :=
  match es with
  | [] => None
  | (n, ch) :: r => if str_eqb name n then Some ch else lookup_e name r
  end.

Definition children (nd : option node) : list entry :=
  match nd with Some (Dir es) => es | _ => [] end.

Definition ends_slash (s : str) : bool := match rev s with c :: _ => c =? 47 | [] => false end.

(* os.path.join for a relative second argument *)
Definition pjoin (d n : str) : str :=
  match d with
  | [] => n
  | _ => if ends_slash d then d ++ n else d ++ [47] ++ n
  end.

(* _rlistdir: every entry below the node, as (relative path, node) *)
Fixpoint rlist (dironly : bool) (n : node) : list (str * node) :=
  match n with
  | File => []
  | Dir es =>
    (fix go (l : list (str * node)) : list (str * node) :=
       match l with
       | [] => []
       | (nm, ch) :: r =>
         (if dironly && negb (is_dir ch) then []
          else (nm, ch) :: map (fun x => (nm ++ [47] ++ fst x, snd x)) (rlist dironly ch))
         ++ go r
       end) es
  end.

Definition rlist_opt (dironly : bool) (nd : option node) : list (str * node) :=
  match nd with Some n => rlist dironly n | None => [] end.

(* ---- fnmatch on one name ---- *)

Fixpoint scan_close (s acc : str) : option (str * str) :=
  match s with
  | [] => None
  | c :: r => if c =? 93 then Some (rev acc, r) else scan_close r (c :: acc)
  end.

(* after '[': (negated, body, rest of the pattern) *)
Definition parse_class (s : str) : option (bool * str * str) :=
  let neg := match s with c :: _ => c =? 33 | [] => false end in
  let s1 := if neg then tl s else s in
  let r := match s1 with
           | c :: s2 => if c =? 93 then scan_close s2 [93] else scan_close s1 []
           | [] => None
           end in
  match r with Some (body, rest) => Some (neg, body, rest) | None => None end.

Definition class_ok (neg : bool) (body : str) (c : N) : bool :=
  match body with
  | [] => neg                      (* '(?!)' for [] (unreachable), '.' for [!] *)
  | _ => xorb neg (cls_in body c)
  end.

Fixpoint fnm (fuel : nat) (p s : str) : bool :=
  match fuel with
  | O => false
  | S f =>
    match p with
    | [] => match s with [] => true | _ => false end
    | c :: p' =>
      if c =? 42 then fnm f p' s || match s with _ :: s' => fnm f p s' | [] => false end
      else if c =? 63 then match s with _ :: s' => fnm f p' s' | [] => false end
      else if c =? 91 then
        match parse_class p' with
        | Some (neg, body, rest) =>
          match s with x :: s' => class_ok neg body x && fnm f rest s' | [] => false end
        | None => match s with x :: s' => (x =? 91) && fnm f p' s' | [] => false end
        end
      else match s with x :: s' => (x =? c) && fnm f p' s' | [] => false end
    end
  end.

Definition fnmatch (pat name : str) : bool := fnm (S (length pat + length name)) pat name.

Definition has_magic (c : str) : bool := existsb (fun x => (x =? 42) || (x =? 63) || (x =? 91)) c.
Definition is_rec (c : str) : bool := str_eqb c [42; 42].

(* ---- one pattern component applied to the current set of directories ---- *)

Definition state := list (str * option node).

Definition step1 (seen_magic is_last : bool) (c : str) (pn : str * option node) : state :=
  let path := fst pn in
  let nd := snd pn in
  if is_rec c then
    (pjoin path [], nd)
    :: map (fun x => (pjoin path (fst x), Some (snd x))) (rlist_opt (negb is_last) nd)
  else if has_magic c then
    map (fun x => (pjoin path (fst x), Some (snd x)))
        (filter (fun x => (is_last || is_dir (snd x)) && fnmatch c (fst x)) (children nd))
  else match c with
       | [] => if is_dir_opt nd then [(pjoin path [], nd)] else []
       | _ =>
         let ch := lookup_e c (children nd) in
         if negb seen_magic && negb is_last then [(pjoin path c, ch)]
         else match ch with Some _ => [(pjoin path c, ch)] | None => [] end
       end.

Fixpoint split_slash (s acc : str) : list str :=
  match s with
  | [] => [rev acc]
  | x :: r => if x =? 47 then rev acc :: split_slash r [] else split_slash r (x :: acc)
  end.

Fixpoint walk (cs : list str) (seen_magic : bool) (st : state) : state :=
  match cs with
  | [] => st
  | c :: r =>
    let is_last := match r with [] => true | _ => false end in
    walk r (seen_magic || has_magic c) (flat_map (step1 seen_magic is_last c) st)
  end.

(* if path.is_dir(): path = path / "" *)
Definition canon (pn : str * option node) : str :=
  if is_dir_opt (snd pn) && negb (ends_slash (fst pn)) then fst pn ++ [47] else fst pn.

(* glob.iglob(pattern, recursive=True, include_hidden=True) with the directory normalisation *)
Definition walked (root : list entry) (pat : str) : state :=
  filter (fun pn => negb (is_nil (fst pn))) (walk (split_slash pat []) false [([], Some (Dir root))]).

Definition glob_paths_raw (root : list entry) (pat : str) : list str := map canon (walked root pat).

(* the list NamedGlob.glob() passes to extend:
     if path.is_dir(): path = path / ""
     elif path.endswith("/"): continue        (glob's unchecked "prefix/" for a recursive pattern) *)
Definition kept (pn : str * option node) : bool := is_dir_opt (snd pn) || negb (ends_slash (fst pn)).

Definition glob_paths (root : list entry) (pat : str) : list str :=
  map canon (filter kept (walked root pat)).

(* every existing path of the tree, directories with a trailing separator *)
Definition all_paths (root : list entry) : list str :=
  map (fun x => if is_dir (snd x) then fst x ++ [47] else fst x) (rlist false (Dir root)).
