(* model/CleanParents.v -- what the kernel does with a path whose DIRECTORY components contain a symbolic link.
   Definitions only.  model/Clean.v assumes (A-links) that only the last component of a path is ever a link; this
   file models the resolution of the directories on the way, to show what that assumption hides and what the
   has_linked_parent guard (regenerated flags rdf_skips_linked_parents / clean_skips_linked_parents) restores. *)
From Coq Require Import List NArith Bool.
From SV Require Import lib.Bytes.
From SV Require Import gen.GenClean.
From SV Require Import model.TrellisDD.
From SV Require Import model.Clean.
Import ListNotations.
Open Scope N_scope.

(* the first proper prefix d of the path (ending before a separator) that is a symbolic link to t redirects the
   path to t/rest; `pre` is the prefix read so far, reversed *)
Fixpoint redirect (f : fsys) (pre rest : str) : option str :=
  match rest with
  | [] => None
  | c :: r =>
      if c =? SLASH then
        match fs_get f (rev pre) with
        | Some (FLink t) => Some (t ++ c :: r)
        | _ => redirect f (c :: pre) r
        end
      else redirect f (c :: pre) r
  end.

(* path.has_linked_parent: is a directory on the way a symbolic link? *)
Definition has_linked_parent (f : fsys) (p : str) : bool :=
  match redirect f [] p with Some _ => true | None => false end.

(* where the last component really lives (at most MAXSYMLINKS redirections) *)
Fixpoint real_location (fuel : nat) (f : fsys) (p : str) : str :=
  match fuel with
  | O => p
  | S k => match redirect f [] p with Some p' => real_location k f p' | None => p end
  end.

(* os.remove(p) as the kernel performs it: the entry that goes is the one at the real location *)
Definition kernel_unlink (f : fsys) (p : str) : fsys * bool := rm_file f (real_location MAXSYMLINKS f p).
