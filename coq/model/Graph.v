(* Executable model of the stored workflow graph (trellis.py, workflow.py, file.py, step.py)
   at transaction granularity.  Definitions only; proofs are in proofs/GraphProofs.v.
   State is keyed by (kind,label); no integer node ids.  Scheduling caches (_safe, _implied_need,
   _ready and the _check_* flags) are not part of this model (see model/Sched.v for C10/C11);
   glob registrations, resources, targets and static trees' label arithmetic are abstracted as
   stated in design.d/C09.md. *)
From Coq Require Import List NArith Bool.
From SV Require Import lib.Bytes lib.Closure.
Import ListNotations.
Open Scope N_scope.

(* ------------------------------------------------------------------------------------------ *)
(* Enumerations (values are checked against enums.py by gen/GenEnums.v + a theorem)            *)
(* ------------------------------------------------------------------------------------------ *)
Inductive kind := KRoot | KFile | KStep | KTree.
Inductive fstate := FUndeclared | FUnconfirmed | FMissing | FConfirmed | FPlanned | FBuilt
                  | FOutdated | FVolatile.
Inductive sstate := SPending | SRunning | SSucceeded | SFailed | SChecking.
Inductive need := NOptional | NDefault | NPlan.
Inductive cause := CExternal | CSucceeded | CFailed | CConfirmed.
Inductive action := AUpdated | ADeleted | ACompleted.

Definition kind_eqb (a b : kind) : bool :=
  match a, b with KRoot, KRoot | KFile, KFile | KStep, KStep | KTree, KTree => true | _, _ => false end.
Definition fstate_code (f : fstate) : N :=
  match f with FUndeclared => 11 | FUnconfirmed => 12 | FMissing => 13 | FConfirmed => 14
             | FPlanned => 15 | FBuilt => 16 | FOutdated => 17 | FVolatile => 18 end.
Definition sstate_code (s : sstate) : N :=
  match s with SPending => 21 | SRunning => 22 | SSucceeded => 23 | SFailed => 24 | SChecking => 25 end.
Definition need_code (n : need) : N := match n with NOptional => 31 | NDefault => 32 | NPlan => 34 end.
Definition cause_code (c : cause) : N :=
  match c with CExternal => 51 | CSucceeded => 52 | CFailed => 53 | CConfirmed => 54 end.
Definition fstate_eqb (a b : fstate) : bool := fstate_code a =? fstate_code b.
Definition sstate_eqb (a b : sstate) : bool := sstate_code a =? sstate_code b.
Definition need_eqb (a b : need) : bool := need_code a =? need_code b.

Definition key := (kind * str)%type.
Definition key_eqb (a b : key) : bool := kind_eqb (fst a) (fst b) && str_eqb (snd a) (snd b).
Definition okey_eqb (a b : option key) : bool :=
  match a, b with Some x, Some y => key_eqb x y | None, None => true | _, _ => false end.
Definition root_key : key := (KRoot, []).
Definition is_some {A} (o : option A) : bool := match o with Some _ => true | None => false end.

(* node_check_creator_kind_ins / _upd (WORKFLOW_SCHEMA) *)
Definition creator_kind_ok (child parent : kind) : bool :=
  match child, parent with
  | KFile, KStep | KFile, KTree | KFile, KRoot => true
  | KStep, KStep | KStep, KRoot => true
  | KTree, KStep => true
  | _, _ => false
  end.

Record node := mkNode { nk : key; ncre : option key; ndet : bool }.
Record frow := mkF { fl : str; fstt : fstate; fh : option N }.
Record srow := mkS { sl : str; sst : sstate; sneed : need; sdef : bool; sdc : N; shold : N }.
Record dep := mkD { dsrc : key; dsnk : key; ddyn : bool }.
Record envr := mkE { estep : str; ename : str; edyn : bool }.

Record st := mkSt {
  nodes : list node; files : list frow; steps : list srow; deps : list dep;
  shash : list str;            (* labels of steps with a step_hash row *)
  envs : list envr;            (* env_var rows *)
  defer_cap : N }.

Definition init_st (cap : N) : st :=
  mkSt [mkNode root_key (Some root_key) false] [] [] [] [] [] cap.

(* Error classes.  Usage = an exception of the UsageError family (GraphError, CyclicError,
   PathError): the request is rejected and the transaction rolled back.  Internal = anything
   else (ConsistencyError, AssertionError, ValueError, sqlite3.IntegrityError, KeyError). *)
Inductive res (A : Type) := Ok (a : A) | Usage (tag : N) | Internal (tag : N).
Arguments Ok {A} a. Arguments Usage {A} tag. Arguments Internal {A} tag.
Definition bind {A B} (r : res A) (f : A -> res B) : res B :=
  match r with Ok a => f a | Usage t => Usage t | Internal t => Internal t end.
Notation "'do' x <- r ; k" := (bind r (fun x => k)) (at level 200, x name, r at level 100, k at level 200).

Fixpoint foldM {A S} (f : S -> A -> res S) (l : list A) (s : S) : res S :=
  match l with [] => Ok s | a :: l' => do s' <- f s a; foldM f l' s' end.

(* ------------------------------------------------------------------------------------------ *)
(* Finite-map helpers                                                                          *)
(* ------------------------------------------------------------------------------------------ *)
Definition find_node (k : key) (s : st) : option node := find (fun n => key_eqb (nk n) k) (nodes s).
Definition find_file (l : str) (s : st) : option frow := find (fun f => str_eqb (fl f) l) (files s).
Definition find_step (l : str) (s : st) : option srow := find (fun r => str_eqb (sl r) l) (steps s).
Definition has_hash (l : str) (s : st) : bool := existsb (str_eqb l) (shash s).

Definition set_nodes (s : st) x := mkSt x (files s) (steps s) (deps s) (shash s) (envs s) (defer_cap s).
Definition set_files (s : st) x := mkSt (nodes s) x (steps s) (deps s) (shash s) (envs s) (defer_cap s).
Definition set_steps (s : st) x := mkSt (nodes s) (files s) x (deps s) (shash s) (envs s) (defer_cap s).
Definition set_deps (s : st) x := mkSt (nodes s) (files s) (steps s) x (shash s) (envs s) (defer_cap s).
Definition set_shash (s : st) x := mkSt (nodes s) (files s) (steps s) (deps s) x (envs s) (defer_cap s).
Definition set_envs (s : st) x := mkSt (nodes s) (files s) (steps s) (deps s) (shash s) x (defer_cap s).

Definition upd_node (k : key) (f : node -> node) (s : st) : st :=
  set_nodes s (map (fun n => if key_eqb (nk n) k then f n else n) (nodes s)).
Definition upd_file (l : str) (f : frow -> frow) (s : st) : st :=
  set_files s (map (fun r => if str_eqb (fl r) l then f r else r) (files s)).
Definition upd_step (l : str) (f : srow -> srow) (s : st) : st :=
  set_steps s (map (fun r => if str_eqb (sl r) l then f r else r) (steps s)).

Definition is_detached (k : key) (s : st) : bool :=
  match find_node k s with Some n => ndet n | None => true end.
Definition creator_of (k : key) (s : st) : option key :=
  match find_node k s with Some n => ncre n | None => None end.

Definition products (k : key) (s : st) : list key :=
  map nk (filter (fun n => okey_eqb (ncre n) (Some k) && negb (key_eqb (nk n) k)) (nodes s)).

Definition mem_key (k : key) (l : list key) : bool := existsb (key_eqb k) l.
Definition mem_str (k : str) (l : list str) : bool := existsb (str_eqb k) l.

(* keys reachable from [seed] by creator -> product edges, in at most [fuel] rounds;
   fuel = number of nodes suffices (lib/Closure.v, proofs/GraphClosure.v). The seed itself is
   not included unless reachable.  The root (its own creator) is not a product of itself. *)
Definition prod_edges (s : st) : list (key * key) :=
  flat_map (fun n => match ncre n with
                     | Some c => if key_eqb (nk n) c then [] else [(c, nk n)]
                     | None => [] end) (nodes s).
Definition rec_products_from (fuel : nat) (acc : list key) (s : st) : list key :=
  closure_from key_eqb (prod_edges s) fuel acc.
Definition rec_products (k : key) (s : st) : list key :=
  filter (fun x => negb (key_eqb x k)) (rec_products_from (length (nodes s)) [k] s).

(* RECURSIVELY_SET_DETACHED *)
Definition set_detached_rec (k : key) (b : bool) (s : st) : st :=
  let ps := rec_products k s in
  set_nodes s (map (fun n => if mem_key (nk n) ps then mkNode (nk n) (ncre n) b else n) (nodes s)).

(* sinks / sources over dependency edges *)
Definition sinks_of (k : key) (s : st) : list key :=
  map dsnk (filter (fun d => key_eqb (dsrc d) k) (deps s)).
Definition sources_of (k : key) (s : st) : list key :=
  map dsrc (filter (fun d => key_eqb (dsnk d) k) (deps s)).
Definition has_dep (a b : key) (s : st) : bool :=
  existsb (fun d => key_eqb (dsrc d) a && key_eqb (dsnk d) b) (deps s).

Fixpoint nodup_keys (l : list key) : list key :=
  match l with [] => [] | x :: l' => if mem_key x l' then nodup_keys l' else x :: nodup_keys l' end.

(* all (indirect) sinks of the seed, seed included: RECURSE_SINKS *)
Definition dep_edges (s : st) : list (key * key) := map (fun d => (dsrc d, dsnk d)) (deps s).
Definition rec_sinks_from (fuel : nat) (acc : list key) (s : st) : list key :=
  closure_from key_eqb (dep_edges s) fuel acc.
Definition rec_sinks (k : key) (s : st) : list key := rec_sinks_from (S (length (deps s))) [k] s.

(* ------------------------------------------------------------------------------------------ *)
(* Primitive layer: row updates with the effects of the SQL triggers and CHECK constraints     *)
(* ------------------------------------------------------------------------------------------ *)
Definition needs_hash (f : fstate) : bool :=
  match f with FConfirmed | FBuilt | FOutdated => true | _ => false end.

(* file_clear_hash WHEN clause, applied to (old state, new state) *)
Definition clears_hash (old new : fstate) : bool :=
  match new with
  | FMissing | FPlanned | FVolatile => true
  | FUnconfirmed => match old with FBuilt | FOutdated => true | _ => false end
  | _ => false
  end.

(* UPDATE file SET state = new [, hash = h'] WHERE node = l.
   newh = None: the statement does not assign the hash column. *)
Definition set_fstate_hash (l : str) (new : fstate) (newh : option (option N)) (s : st) : res st :=
  match find_file l s with
  | None => Ok s                      (* UPDATE of a missing row changes nothing *)
  | Some r =>
    let h1 := match newh with Some h => h | None => fh r end in
    (* CHECK (state NOT IN (CONFIRMED, BUILT, OUTDATED) OR hash IS NOT NULL) *)
    if needs_hash new && match h1 with None => true | Some _ => false end then Internal 101
    else
      let h2 := if clears_hash (fstt r) new then None else h1 in
      (* file_check_undeclared_detached_upd *)
      if fstate_eqb new FUndeclared && negb (is_detached (KFile, l) s) then Internal 102
      else Ok (upd_file l (fun r => mkF (fl r) new h2) s)
  end.
Definition set_fstate (l : str) (new : fstate) (s : st) : res st := set_fstate_hash l new None s.

Definition fstate_of (l : str) (s : st) : option fstate :=
  match find_file l s with Some r => Some (fstt r) | None => None end.

(* UPDATE step SET state = new, deferred = d  (Step.set_state); triggers:
   step_reset_holding, step_clear_deferred, step_reset_defer_count; CHECK deferred -> PENDING *)
Definition set_sstate (l : str) (new : sstate) (d : bool) (s : st) : res st :=
  match find_step l s with
  | None => Ok s
  | Some r =>
    if d && negb (sstate_eqb new SPending) then Internal 103
    else
      let hold := if sstate_eqb new SRunning then shold r else 0 in
      let d' := match new with SSucceeded | SFailed => false | _ => d end in
      let dc := match new with SSucceeded => 0 | _ => sdc r end in
      Ok (upd_step l (fun r => mkS (sl r) new (sneed r) d' dc hold) s)
  end.
(* UPDATE step SET state = new  (raw, deferred column untouched) *)
Definition set_sstate_raw (l : str) (new : sstate) (s : st) : res st :=
  match find_step l s with
  | None => Ok s
  | Some r => set_sstate l new (sdef r) s
  end.

Definition sstate_of (l : str) (s : st) : option sstate :=
  match find_step l s with Some r => Some (sst r) | None => None end.

Definition delete_hash (l : str) (s : st) : st :=
  set_shash s (filter (fun x => negb (str_eqb x l)) (shash s)).
Definition store_hash (l : str) (s : st) : st :=
  if has_hash l s then s else set_shash s (l :: shash s).

(* dependency_check_kinds_ins *)
Definition dep_kinds_ok (a b : key) : bool :=
  match fst a, fst b with
  | KFile, KStep | KStep, KFile | KTree, KFile => true
  | _, _ => false
  end.

Definition del_deps_where (p : dep -> bool) (s : st) : st :=
  set_deps s (filter (fun d => negb (p d)) (deps s)).
Definition del_all_sources (k : key) (s : st) : st := del_deps_where (fun d => key_eqb (dsnk d) k) s.

(* ------------------------------------------------------------------------------------------ *)
(* State propagation (workflow.py): mark_step_pending, mark_file_outdated, consumers pending   *)
(* The mutual recursion of the code terminates because the dependency graph is acyclic; the    *)
(* model recurses on fuel and reports exhaustion as Internal 199 (excluded by GraphProofs).    *)
(* ------------------------------------------------------------------------------------------ *)
Definition step_sinks_of_file (l : str) (s : st) : list str :=
  map snd (filter (fun k => kind_eqb (fst k) KStep) (sinks_of (KFile, l) s)).
Definition file_sinks_of_step (l : str) (s : st) : list str :=
  map snd (filter (fun k => kind_eqb (fst k) KFile) (sinks_of (KStep, l) s)).

Fixpoint mark_step_pending_f (fuel : nat) (l : str) (s : st) : res st :=
  match fuel with
  | O => Internal 199
  | S fuel' =>
    match sstate_of l s with
    | None => Internal 104                        (* get_state on a missing row: TypeError *)
    | Some SRunning | Some SChecking => Ok s
    | Some old =>
      do s1 <- set_sstate l SPending false s;
      match old with
      | SSucceeded | SFailed =>
        foldM (fun s f =>
                 match fstate_of f s with
                 | Some FBuilt => mark_file_outdated_f fuel' f s
                 | _ => Ok s
                 end) (file_sinks_of_step l s1) s1
      | _ => Ok s1
      end
    end
  end
with mark_file_outdated_f (fuel : nat) (f : str) (s : st) : res st :=
  match fuel with
  | O => Internal 199
  | S fuel' =>
    match fstate_of f s with
    | Some FBuilt =>
      do s1 <- set_fstate f FOutdated s;
      foldM (fun s l => mark_step_pending_f fuel' l s) (step_sinks_of_file f s1) s1
    | Some FOutdated => Ok s
    | _ => Internal 105                           (* ConsistencyError: Cannot make file outdated *)
    end
  end.

Definition fuel_of (s : st) : nat := S (S (length (nodes s) + length (nodes s))).
Definition mark_step_pending (l : str) (s : st) : res st := mark_step_pending_f (fuel_of s) l s.
Definition mark_file_outdated (f : str) (s : st) : res st := mark_file_outdated_f (fuel_of s) f s.
Definition mark_consumers_pending (f : str) (s : st) : res st :=
  foldM (fun s l => mark_step_pending l s) (step_sinks_of_file f s) s.

(* ------------------------------------------------------------------------------------------ *)
(* Trellis: detach, reattach, after_lost_product, create (with partial recycle)                *)
(* ------------------------------------------------------------------------------------------ *)
Definition after_lost_product (k : key) (s : st) : res st :=
  match fst k with
  | KStep => Ok (delete_hash (snd k) s)
  | KTree => Ok s
  | KFile | KRoot => Internal 106                 (* AssertionError *)
  end.

(* Node.detach *)
Definition node_detach (k : key) (s : st) : res st :=
  match find_node k s with
  | None => Internal 107                          (* ValueError: Node id not in database *)
  | Some n =>
    match ncre n with
    | None => Ok s
    | Some _ =>
      let s1 := upd_node k (fun n => mkNode (nk n) None true) s in
      Ok (if ndet n then s1 else set_detached_rec k true s1)
    end
  end.

(* Node.reattach (Step.reattach only adds scheduling flags) *)
Definition node_reattach (k c : key) (s : st) : res st :=
  match find_node k s, find_node c s with
  | Some n, Some cn =>
    if negb (ndet n) then Internal 108            (* ValueError: only on a detached node *)
    else if key_eqb c k then Internal 124         (* CHECK (creator != i) *)
    else if negb (creator_kind_ok (fst k) (fst c)) then Internal 122   (* node_check_creator_kind_upd *)
    else if mem_key c (rec_products k s) then Internal 126
      (* the new creator is a recursive product of the node: the creator links become cyclic and
         Step._flag_checks_with_products (WITH RECURSIVE ... UNION ALL) does not terminate; the
         transaction never commits *)
    else
      let det := ndet cn in
      let s1 := upd_node k (fun n => mkNode (nk n) (Some c) det) s in
      do s2 <- match ncre n with
               | None => Ok s1
               | Some oc =>
                 if negb (is_detached oc s) then Internal 109   (* ConsistencyError *)
                 else after_lost_product oc s1
               end;
      Ok (set_detached_rec k det s2)
  | _, _ => Internal 110
  end.

(* class-specific detach of a product during a partial recycle / reset_for_rerun *)
Definition detach_any (k : key) (s : st) : res st := node_detach k s.

(* File.initialize_row *)
Definition file_initialize_row (l : str) (req : fstate) (s : st) : res st :=
  let old := find_file l s in
  let state := match req, old with
               | FUndeclared, Some r =>
                 (* a former output keeps its output state; a former volatile output that is merely
                    supplied as an input stays VOLATILE (so that cleanup still removes it) *)
                 match fstt r with FBuilt => FBuilt | FOutdated => FOutdated | FVolatile => FVolatile | _ => req end
               | FPlanned, Some r =>
                 match fstt r with FBuilt => FBuilt | FOutdated => FOutdated | _ => req end
               | _, _ => req
               end in
  do s1 <- match old with
           | Some _ => set_fstate l state s
           | None =>
             (* INSERT with hash NULL: CHECK, then file_check_undeclared_detached_ins *)
             if needs_hash state then Internal 111
             else if fstate_eqb state FUndeclared && negb (is_detached (KFile, l) s) then Internal 112
             else Ok (set_files s (files s ++ [mkF l state None]))
           end;
  match state with
  | FBuilt => mark_file_outdated l s1
  | _ => Ok s1
  end.

(* Step.initialize_row: DELETE + INSERT of the step row; satellites survive *)
Definition step_initialize_row (l : str) (nd : need) (s : st) : res st :=
  let rows := filter (fun r => negb (str_eqb (sl r) l)) (steps s) in
  Ok (set_steps s (rows ++ [mkS l SPending nd false 0 0])).

Inductive init_arg := InitFile (f : fstate) | InitStep (n : need) | InitTree.

(* Trellis.create *)
Definition creator_ok (k : key) (creator : option key) (s : st) : res unit :=
  match creator with
  | None => Ok tt
  | Some c =>
    if negb (is_some (find_node c s)) then Internal 121        (* creator row not in the database *)
    else if key_eqb c k then Internal 124                       (* CHECK (creator != i) *)
    else if negb (creator_kind_ok (fst k) (fst c)) then Internal 122   (* node_check_creator_kind_* *)
    else Ok tt
  end.

Definition create (k : key) (creator : option key) (arg : init_arg) (s : st) : res st :=
  let cdet := match creator with None => true | Some c => is_detached c s end in
  do _ <- creator_ok k creator s;
  do s1 <-
    match find_node k s with
    | Some n =>
      if negb (ndet n) then Internal 113          (* ConsistencyError: exists and not detached *)
      else
        let s1 := upd_node k (fun n => mkNode (nk n) creator cdet) s in
        do s2 <- match ncre n with
                 | None => Ok s1
                 | Some oc =>
                   if negb (is_detached oc s) then Internal 114
                   else after_lost_product oc s1
                 end;
        let s3 := del_all_sources k s2 in
        foldM (fun s p => detach_any p s) (products k s3) s3
    | None => Ok (set_nodes s (nodes s ++ [mkNode k creator cdet]))
    end;
  match arg with
  | InitFile f => file_initialize_row (snd k) f s1
  | InitStep n => step_initialize_row (snd k) n s1
  | InitTree => Ok s1
  end.

(* cycle check used by add_source / check_sources_acyclic *)
Definition would_cycle (sink : key) (srcs : list key) (s : st) : bool :=
  let reach := rec_sinks sink s in
  existsb (fun x => mem_key x reach) srcs.

Definition add_dep (a b : key) (dyn : bool) (s : st) : res st :=
  if has_dep a b s then Usage 201                  (* GraphError: Relation already exists *)
  else if negb (dep_kinds_ok a b) then Internal 115
  else Ok (set_deps s (deps s ++ [mkD a b dyn])).

(* ------------------------------------------------------------------------------------------ *)
(* Declarations                                                                                *)
(* ------------------------------------------------------------------------------------------ *)
Definition role_of (f : fstate) : option N :=
  match f with
  | FUnconfirmed | FMissing | FConfirmed => Some 61
  | FPlanned | FBuilt | FOutdated => Some 62
  | FVolatile => Some 63
  | FUndeclared => None
  end.

(* _existing_claim: attached file node with a creator row.  FILE_ROLE_BY_STATE has no entry
   for UNDECLARED: an attached UNDECLARED file with a creator is a KeyError (Internal 125);
   the invariant (UNDECLARED implies no creator) excludes it. *)
Definition existing_claim (l : str) (s : st) : res (option (N * key)) :=
  match find_node (KFile, l) s, find_file l s with
  | Some n, Some r =>
    if ndet n then Ok None
    else match ncre n with
         | Some c => match role_of (fstt r) with
                     | Some ro => Ok (Some (ro, c))
                     | None => Internal 125
                     end
         | None => Ok None
         end
  | _, _ => Ok None
  end.

(* _check_declaration with a creator NODE: Ok true = new, Ok false = no-op, Usage = collision *)
Definition check_declaration_node (c : key) (l : str) (role : N) (s : st) : res bool :=
  do cl <- existing_claim l s;
  match cl with
  | None => Ok true
  | Some (ro, cr) => if (ro =? role) && key_eqb cr c then Ok false else Usage 202
  end.
(* ... with a creator phrase (node does not exist yet): any claim collides *)
Definition check_declaration_phrase (l : str) (s : st) : res bool :=
  do cl <- existing_claim l s;
  match cl with None => Ok true | Some _ => Usage 202 end.

Definition attached_step_sinks (l : str) (s : st) : list str :=
  filter (fun x => negb (is_detached (KStep, x) s)) (step_sinks_of_file l s).

(* _declare_file (no static trees, no targets, paths outside .stepup) *)
Definition declare_file (c : key) (l : str) (f : fstate) (s : st) : res st :=
  match f with
  | FUnconfirmed | FPlanned | FVolatile =>
    do s1 <- create (KFile, l) (Some c) (InitFile f) s;
    match f with
    | FVolatile => match attached_step_sinks l s1 with [] => Ok s1 | _ => Usage 203 end
    | _ => Ok s1
    end
  | _ => Internal 116
  end.

(* declare_static_files: paths are sorted and duplicate free (done by the harness as sorted(set())) *)
Definition declare_static_files (c : key) (paths : list str) (s : st) : res st :=
  if negb (is_some (find_node c s)) then Internal 121   (* the creator must be a node of the graph *)
  else
  do todo <- foldM (fun acc l => do isnew <- check_declaration_node c l 61 s;
                                 Ok (if isnew then acc ++ [l] else acc)) paths [];
  foldM (fun s l => declare_file c l FUnconfirmed s) todo s.

(* _resolve_supply_file + _supply_files *)
Definition resolve_supply_file (step : str) (l : str) (require_new : bool) (s : st)
  : res (st * bool) :=
  do s1 <-
    match find_node (KFile, l) s with
    | None => create (KFile, l) None (InitFile FUndeclared) s
    | Some n =>
      match ncre n with
      | None => create (KFile, l) None (InitFile FUndeclared) s
      | Some _ =>
        match fstate_of l s with
        | Some FVolatile => Usage 204             (* Input is volatile *)
        | Some _ => Ok s
        | None => Internal 117
        end
      end
    end;
  let isnew := negb (has_dep (KFile, l) (KStep, step) s1) in
  if negb isnew && require_new then Usage 205     (* Supplying file already exists *)
  else Ok (s1, isnew).

Definition supply_files (step : str) (paths : list str) (require_new dyn : bool) (s : st) : res st :=
  do r <- foldM (fun (acc : st * list str) l =>
                   do x <- resolve_supply_file step l require_new (fst acc);
                   Ok (fst x, if snd x then snd acc ++ [l] else snd acc)) paths (s, []);
  let s1 := fst r in let news := snd r in
  if match news with [] => false | _ => would_cycle (KStep, step) (map (fun l => (KFile, l)) news) s1 end
  then Usage 206                                    (* CyclicError *)
  else foldM (fun s l => add_dep (KFile, l) (KStep, step) dyn s) news s1.

(* file.add_source(step) with its own cycle check *)
Definition add_output_edge (step : str) (l : str) (dyn : bool) (s : st) : res st :=
  if would_cycle (KFile, l) [(KStep, step)] s then Usage 206
  else add_dep (KStep, step) (KFile, l) dyn s.

(* Step._paths: a path is visible when attached or when the step itself is detached *)
Definition visible (step : str) (k : key) (s : st) : bool :=
  is_detached (KStep, step) s || negb (is_detached k s).

Fixpoint insert_str (x : str) (l : list str) : list str :=
  match l with [] => [x] | y :: l' => if lex_lt x y then x :: l else y :: insert_str x l' end.
Definition sort_strs (l : list str) : list str := fold_right insert_str [] l.
Fixpoint strs_eqb (a b : list str) : bool :=
  match a, b with [] , [] => true | x :: a', y :: b' => str_eqb x y && strs_eqb a' b' | _, _ => false end.

Definition initial_inputs (step : str) (s : st) : list str :=
  map (fun d => snd (dsrc d))
      (filter (fun d => key_eqb (dsnk d) (KStep, step) && negb (ddyn d) && kind_eqb (fst (dsrc d)) KFile
                        && visible step (dsrc d) s
                        && match find_file (snd (dsrc d)) s with Some _ => true | None => false end) (deps s)).
Definition initial_outputs (step : str) (vol : bool) (s : st) : list str :=
  map (fun d => snd (dsnk d))
      (filter (fun d => key_eqb (dsrc d) (KStep, step) && negb (ddyn d) && kind_eqb (fst (dsnk d)) KFile
                        && visible step (dsnk d) s
                        && match fstate_of (snd (dsnk d)) s with
                           | Some FVolatile => vol
                           | Some FPlanned | Some FBuilt | Some FOutdated => negb vol
                           | _ => false end) (deps s)).
Definition initial_envs (step : str) (s : st) : list str :=
  map ename (filter (fun e => str_eqb (estep e) step && negb (edyn e)) (envs s)).

Definition can_recycle (step : str) (inp env out vol : list str) (s : st) : bool :=
  strs_eqb (sort_strs (initial_inputs step s)) inp &&
  strs_eqb (sort_strs (initial_envs step s)) env &&
  strs_eqb (sort_strs (initial_outputs step false s)) out &&
  strs_eqb (sort_strs (initial_outputs step true s)) vol.

Definition add_env (step name : str) (dyn replace : bool) (s : st) : st :=
  let exists_ := existsb (fun e => str_eqb (estep e) step && str_eqb (ename e) name) (envs s) in
  if exists_ then
    if replace then
      set_envs s (map (fun e => if str_eqb (estep e) step && str_eqb (ename e) name
                                then mkE step name dyn else e) (envs s))
    else s
  else set_envs s (envs s ++ [mkE step name dyn]).

Definition root_has_step (s : st) : bool :=
  existsb (fun k => kind_eqb (fst k) KStep) (products root_key s).

(* the part of Workflow.define_step after the recycle short-circuit *)
Definition define_step_new (creator : key) (label : str) (inp env out vol : list str) (nd : need)
           (s : st) : res st :=
  let k := (KStep, label) in
  do _ <- foldM (fun (u : unit) l => do _ <- check_declaration_phrase l s; Ok tt) out tt;
  do _ <- foldM (fun (u : unit) l => do _ <- check_declaration_phrase l s; Ok tt) vol tt;
  if existsb (fun l => mem_str l vol) out then Usage 209            (* out/vol overlap *)
  else
  do s1 <- create k (Some creator) (InitStep nd) s;
  do s2 <- supply_files label inp true false s1;
  let s3 := fold_left (fun s e => add_env label e false true s) env s2 in
  do s4 <- foldM (fun s l => do s' <- declare_file k l FPlanned s; add_output_edge label l false s') out s3;
  foldM (fun s l => do s' <- declare_file k l FVolatile s; add_output_edge label l false s') vol s4.

(* Workflow.define_step; inp/env/out/vol are sorted and duplicate free *)
Definition define_step (creator : key) (label : str) (inp env out vol : list str) (nd : need)
           (s : st) : res st :=
  if negb (is_some (find_node creator s)) then Internal 121          (* creator must be a node *)
  else if key_eqb creator root_key && root_has_step s then Usage 207 (* Boot step already defined *)
  else if key_eqb creator (KStep, label) then Usage 211              (* a step cannot define itself *)
  else if mem_key creator (rec_products (KStep, label) s) then Usage 212
    (* ... nor one of its own (indirect) creators: the label is on the creator chain of the creator *)
  else
  let k := (KStep, label) in
  match find_node k s with
  | Some n =>
    if ndet n && can_recycle label inp env out vol s then
      (* try_recycle: reattach + after_recycle *)
      do s1 <- node_reattach k creator s;
      let s2 := upd_step label (fun r => mkS (sl r) (sst r) nd (sdef r) (sdc r) 0) s1 in
      match sstate_of label s2 with
      | Some SFailed => mark_step_pending label s2
      | _ => Ok s2
      end
    else if negb (ndet n) then Usage 208                             (* _raise_if_step_exists *)
    else define_step_new creator label inp env out vol nd s
  | None => define_step_new creator label inp env out vol nd s
  end.

(* Workflow.amend_step (ran_concurrently is not part of the stored graph) *)
Definition amend_step (label : str) (inp env out vol : list str) (s : st) : res st :=
  let k := (KStep, label) in
  if negb (is_some (find_node k s) && is_some (find_step label s)) then Internal 123  (* step must exist *)
  else
  do s1 <- supply_files label inp false true s;
  let s2 := fold_left (fun s e => add_env label e true false s) env s1 in
  do out' <- foldM (fun acc l => do isnew <- check_declaration_node k l 62 s2;
                                 Ok (if isnew : bool then acc ++ [l] else acc)) out [];
  do vol' <- foldM (fun acc l => do isnew <- check_declaration_node k l 63 s2;
                                 Ok (if isnew : bool then acc ++ [l] else acc)) vol [];
  if existsb (fun l => mem_str l vol') out' then Usage 209
  else
  do s3 <- foldM (fun s l => do s' <- declare_file k l FPlanned s; add_output_edge label l true s') out' s2;
  foldM (fun s l => do s' <- declare_file k l FVolatile s; add_output_edge label l true s') vol' s3.

(* ------------------------------------------------------------------------------------------ *)
(* update_file_hashes with the _HASH_TRANSITIONS table                                         *)
(* ------------------------------------------------------------------------------------------ *)
Definition transition (c : cause) (old : fstate) (known : bool) : option (fstate * option action) :=
  match c, old, known with
  | CExternal, FMissing, true => Some (FConfirmed, Some AUpdated)
  | CExternal, FConfirmed, true => Some (FConfirmed, Some AUpdated)
  | CExternal, FConfirmed, false => Some (FMissing, Some ADeleted)
  | CExternal, FBuilt, true => Some (FPlanned, Some AUpdated)
  | CExternal, FOutdated, true => Some (FPlanned, Some AUpdated)
  | CExternal, FBuilt, false => Some (FPlanned, Some ADeleted)
  | CExternal, FOutdated, false => Some (FPlanned, Some ADeleted)
  | CSucceeded, FOutdated, true => Some (FBuilt, Some ACompleted)
  | CSucceeded, FPlanned, true => Some (FBuilt, Some ACompleted)
  | CFailed, FConfirmed, true => Some (FConfirmed, Some AUpdated)
  | CFailed, FBuilt, true => Some (FOutdated, Some AUpdated)
  | CFailed, FOutdated, true => Some (FOutdated, None)
  | CFailed, FPlanned, true => Some (FOutdated, None)
  | CFailed, FConfirmed, false => Some (FMissing, Some ADeleted)
  | CFailed, FBuilt, false => Some (FPlanned, Some ADeleted)
  | CFailed, FOutdated, false => Some (FPlanned, None)
  | CFailed, FPlanned, false => Some (FPlanned, None)
  | CConfirmed, FUnconfirmed, true => Some (FConfirmed, Some ACompleted)
  | CConfirmed, FUnconfirmed, false => Some (FMissing, Some ADeleted)
  | CConfirmed, FConfirmed, true => Some (FConfirmed, None)
  | CConfirmed, FMissing, false => Some (FMissing, None)
  | CConfirmed, FMissing, true => Some (FConfirmed, Some ACompleted)
  | CConfirmed, FConfirmed, false => Some (FMissing, Some ADeleted)
  | CExternal, FUnconfirmed, true => Some (FConfirmed, Some AUpdated)
  | CExternal, FUnconfirmed, false => Some (FMissing, Some ADeleted)
  | _, _, _ => None
  end.

Definition step_creator_of_file (l : str) (s : st) : option str :=
  match creator_of (KFile, l) s with
  | Some (KStep, c) => Some c
  | _ => None
  end.

Definition handle_updated_file (l : str) (s : st) : res st :=
  match fstate_of l s with
  | Some FConfirmed => mark_consumers_pending l s
  | Some FPlanned | Some FOutdated =>
    match step_creator_of_file l s with Some c => mark_step_pending c s | None => Ok s end
  | _ => Ok s
  end.
Definition handle_deleted_file (l : str) (s : st) : res st :=
  do s1 <- match fstate_of l s with
           | Some FPlanned =>
             match step_creator_of_file l s with Some c => mark_step_pending c s | None => Ok s end
           | _ => Ok s
           end;
  mark_consumers_pending l s1.

Definition action_eqb (a b : action) : bool :=
  match a, b with AUpdated, AUpdated | ADeleted, ADeleted | ACompleted, ACompleted => true | _, _ => false end.

Record planrow := mkP { p_path : str; p_hash : option N; p_state : fstate; p_act : option action }.

(* hs: (path, new hash) sorted by path, duplicate free *)
Definition update_file_hashes (c : cause) (hs : list (str * option N)) (s : st) : res st :=
  do plan <- foldM (fun acc ph =>
                      match find_file (fst ph) s with
                      | None => Internal 118       (* Inconsistent number of records *)
                      | Some r =>
                        match transition c (fstt r) (is_some (snd ph)) with
                        | None => Internal 119     (* Unexpected file hash update *)
                        | Some (ns, act) => Ok (acc ++ [mkP (fst ph) (snd ph) ns act])
                        end
                      end) hs [];
  do s1 <- foldM (fun s x =>
                    (* an unknown hash is stored as a non-NULL JSON value; every transition with
                       an unknown hash leads to MISSING or PLANNED, where the trigger clears it *)
                    set_fstate_hash (p_path x) (p_state x)
                                    (Some (match p_hash x with Some v => Some v | None => Some 0 end)) s)
                 plan s;
  let with_act a := map p_path (filter (fun x => match p_act x with Some b => action_eqb a b | None => false end) plan) in
  do s2 <- foldM (fun s l => handle_updated_file l s) (with_act AUpdated) s1;
  do s3 <- foldM (fun s l => handle_deleted_file l s) (with_act ADeleted) s2;
  foldM (fun s l => mark_consumers_pending l s) (with_act ACompleted) s3.

(* ------------------------------------------------------------------------------------------ *)
(* Step lifecycle                                                                              *)
(* ------------------------------------------------------------------------------------------ *)
Definition file_products_in (step : str) (p : fstate -> bool) (s : st) : list str :=
  map snd (filter (fun k => kind_eqb (fst k) KFile &&
                            match fstate_of (snd k) s with Some f => p f | None => false end)
                  (products (KStep, step) s)).

Definition detach_created_steps (step : str) (s : st) : res st :=
  foldM (fun s k => node_detach k s)
        (filter (fun k => kind_eqb (fst k) KStep) (products (KStep, step) s)) s.

Definition is_static_state (f : fstate) : bool :=
  match f with FUnconfirmed | FMissing | FConfirmed => true | _ => false end.
Definition is_built (f : fstate) : bool := match f with FBuilt => true | _ => false end.
Definition is_outdated (f : fstate) : bool := match f with FOutdated => true | _ => false end.

Definition reset_for_rerun (step : str) (s : st) : res st :=
  let k := (KStep, step) in
  (* dynamic source edges *)
  let s1 := del_deps_where (fun d => key_eqb (dsnk d) k && ddyn d) s in
  (* dynamic env vars; nglob rows are not modelled *)
  let s2 := set_envs s1 (filter (fun e => negb (str_eqb (estep e) step && edyn e)) (envs s1)) in
  (* dynamic sink edges: delete edge, detach the sink *)
  let dsinks := map dsnk (filter (fun d => key_eqb (dsrc d) k && ddyn d) (deps s2)) in
  do s3 <- foldM (fun s x => node_detach x (del_deps_where (fun d => key_eqb (dsrc d) k && key_eqb (dsnk d) x) s))
                 dsinks s2;
  do s4 <- detach_created_steps step s3;
  do s5 <- foldM (fun s l => node_detach (KFile, l) s) (file_products_in step is_static_state s4) s4;
  do s6 <- foldM (fun s x => node_detach x s)
                 (filter (fun x => kind_eqb (fst x) KTree) (products k s5)) s5;
  foldM (fun s l => mark_file_outdated l s) (file_products_in step is_built s6) s6.

Definition has_unavailable_dynamic_input (step : str) (s : st) : bool :=
  existsb (fun d => key_eqb (dsnk d) (KStep, step) && ddyn d &&
                    match fstate_of (snd (dsrc d)) s with
                    | Some FConfirmed | Some FBuilt => false
                    | Some _ => true
                    | None => false end) (deps s).

Definition mark_completed (step : str) (success wants_defer : bool) (s : st) : res st :=
  if negb (is_some (find_step step s)) then Internal 120   (* the step must have a row *)
  else if success then
    do s1 <- set_sstate step SSucceeded false s;
    do s2 <- foldM (fun s l => do s' <- set_fstate l FBuilt s; mark_consumers_pending l s')
                   (file_products_in step is_outdated s1) s1;
    Ok (store_hash step s2)
  else
    do s1 <- foldM (fun s l => set_fstate l FOutdated s) (file_products_in step is_built s) s;
    do s2 <-
      (if wants_defer then
         match find_step step s1 with
         | None => Internal 120
         | Some r =>
           let dc := sdc r + 1 in
           let s' := upd_step step (fun r => mkS (sl r) (sst r) (sneed r) (sdef r) dc (shold r)) s1 in
           if dc <=? defer_cap s then set_sstate step SPending (has_unavailable_dynamic_input step s') s'
           else set_sstate step SFailed false s'
         end
       else set_sstate step SFailed false s1);
    do s3 <- match sstate_of step s2 with
             | Some SFailed => detach_created_steps step s2
             | _ => Ok s2
             end;
    Ok (delete_hash step s3).

Definition hold (step : str) (s : st) : res st :=
  if negb (is_some (find_step step s)) then Internal 123 else
  Ok (upd_step step (fun r => mkS (sl r) (sst r) (sneed r) (sdef r) (sdc r) (shold r + 1)) s).
Definition release (step : str) (s : st) : res st :=
  match find_step step s with
  | Some r => if shold r =? 0 then Usage 210
              else Ok (upd_step step (fun r => mkS (sl r) (sst r) (sneed r) (sdef r) (sdc r) (shold r - 1)) s)
  | None => Internal 123
  end.

(* ------------------------------------------------------------------------------------------ *)
(* delete_detached                                                                             *)
(* ------------------------------------------------------------------------------------------ *)
Definition deletable (n : node) (s : st) : bool :=
  ndet n && match products (nk n) s with [] => true | _ => false end
         && negb (existsb (fun d => key_eqb (dsrc d) (nk n)) (deps s)).

Definition delete_node (k : key) (s : st) : st :=
  let s1 := del_all_sources k s in
  let s2 := set_nodes s1 (filter (fun n => negb (key_eqb (nk n) k)) (nodes s1)) in
  match fst k with
  | KFile => set_files s2 (filter (fun r => negb (str_eqb (fl r) (snd k))) (files s2))
  | KStep => let s3 := set_steps s2 (filter (fun r => negb (str_eqb (sl r) (snd k))) (steps s2)) in
             let s4 := set_shash s3 (filter (fun x => negb (str_eqb x (snd k))) (shash s3)) in
             set_envs s4 (filter (fun e => negb (str_eqb (estep e) (snd k))) (envs s4))
  | _ => s2
  end.

(* one round deletes one deletable node; [fuel] = number of nodes suffices *)
Fixpoint dd_loop (fuel : nat) (lost : list key) (s : st) : st * list key :=
  match fuel with
  | O => (s, lost)
  | S fuel' =>
    match find (fun n => deletable n s) (nodes s) with
    | None => (s, lost)
    | Some n =>
      let lost' := filter (fun x => negb (key_eqb x (nk n))) lost in
      let lost'' := match ncre n with
                    | Some c => if mem_key c lost' then lost' else lost' ++ [c]
                    | None => lost' end in
      dd_loop fuel' lost'' (delete_node (nk n) s)
    end
  end.

Definition delete_detached (s : st) : res st :=
  let r := dd_loop (length (nodes s)) [] s in
  foldM (fun s c => match find_node c s with
                    | Some _ => after_lost_product c s
                    | None => Ok s end) (snd r) (fst r).

(* startup.reset_interrupted_steps *)
Definition reset_interrupted (s : st) : res st :=
  do s1 <- foldM (fun s r => match sst r with SRunning => set_sstate_raw (sl r) SFailed s | _ => Ok s end) (steps s) s;
  do s2 <- foldM (fun s r => match sst r with SChecking => set_sstate_raw (sl r) SPending s | _ => Ok s end) (steps s1) s1;
  foldM (fun s r => match sstate_of (sl r) s with
                    | Some SFailed => if is_detached (KStep, sl r) s then Ok s else mark_step_pending (sl r) s
                    | _ => Ok s end) (steps s2) s2.

(* ------------------------------------------------------------------------------------------ *)
(* Operation alphabet (one transaction each)                                                   *)
(* ------------------------------------------------------------------------------------------ *)
Inductive op :=
| OpDeclareStatic (creator : key) (paths : list str)
| OpUpdateHashes (c : cause) (hs : list (str * option N))
| OpDefineStep (creator : key) (label : str) (inp env out vol : list str) (nd : need)
| OpAmendStep (label : str) (inp env out vol : list str)
| OpDispatch (label : str)                                   (* pop_next_job's state change *)
| OpResetForRerun (label : str)
| OpExecEnd (label : str) (pre : list (str * option N)) (c : cause) (hs : list (str * option N))
            (success wants_defer : bool)
| OpResetToPending (label : str)                             (* _reset_step_to_pending *)
| OpValidatePending (label : str)                            (* validate_dynamic_job: PENDING *)
| OpMarkStepPending (label : str)
| OpDeleteDetached
| OpHold (label : str)
| OpRelease (label : str)
| OpResetInterrupted.

Definition step_op (o : op) (s : st) : res st :=
  match o with
  | OpDeclareStatic c ps => declare_static_files c ps s
  | OpUpdateHashes c hs => update_file_hashes c hs s
  | OpDefineStep c l i e o v n => define_step c l i e o v n s
  | OpAmendStep l i e o v => amend_step l i e o v s
  | OpDispatch l => set_sstate l (if has_hash l s then SChecking else SRunning) false s
  | OpResetForRerun l => reset_for_rerun l s
  | OpExecEnd l pre c hs ok wd =>
    do s0 <- update_file_hashes CFailed pre s;
    do s1 <- update_file_hashes c hs s0; mark_completed l ok wd s1
  | OpResetToPending l =>
    do s1 <- reset_for_rerun l s; set_sstate l SPending false (delete_hash l s1)
  | OpValidatePending l => set_sstate l SPending true s      (* deferred: d760e3e (D36) *)
  | OpMarkStepPending l => mark_step_pending l s
  | OpDeleteDetached => delete_detached s
  | OpHold l => hold l s
  | OpRelease l => release l s
  | OpResetInterrupted => reset_interrupted s
  end.

(* A rejected (Usage) or crashed (Internal) operation leaves the state as it was: the
   transaction is rolled back. *)
Definition apply_op (s : st) (o : op) : st := match step_op o s with Ok s' => s' | _ => s end.
Definition run_ops (ops : list op) (s : st) : st := fold_left apply_op ops s.
