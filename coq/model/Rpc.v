(* Executable model of stepup/core/rpc.py for C16.  Definitions only (no proofs), so that the
   correspondence still runs when a proof breaks.  Everything that can be read off the source is
   taken from gen/GenRpc.v (regenerated from /repo on every run). *)
From Coq Require Import List Arith NArith Bool.
From SV Require Import lib.Bytes.
From SV Require Import lib.RpcTypes.
From SV Require Import gen.GenRpc.
Import ListNotations.
Open Scope N_scope.

(* ------------------------------------------------------------------------------------------ *)
(* 1. The wire format: _encode_message / _decode_header                                        *)
(* ------------------------------------------------------------------------------------------ *)

Definition field_val (f : hfield) (id size : N) : N := match f with FId => id | FSize => size end.

Definition encode_header (id size : N) : str :=
  flat_map (fun e => match e with (f, w, o) => enc_int o w (field_val f id size) end) enc_layout.

(* size = 0 if body is None else len(body) *)
Definition body_size (body : option str) : N :=
  match body with None => 0 | Some b => N.of_nat (length b) end.

(* return header if body is None else header + body *)
Definition encode_msg (id : N) (body : option str) : str :=
  encode_header id (body_size body) ++ match body with None => [] | Some b => b end.

Definition slice (lo : nat) (hi : option nat) (l : str) : str :=
  match hi with Some h => firstn (h - lo) (skipn lo l) | None => skipn lo l end.

Definition dec_field (f : hfield) (h : str) : N :=
  match find (fun e => hfield_eqb (fst (fst (fst e))) f) dec_layout with
  | Some (_, lo, hi, o) => dec_int o (slice lo hi h)
  | None => 0
  end.

Definition decode_header (h : str) : N * N := (dec_field FId h, dec_field FSize h).

Definition cmp_eval (c : cmpop) (a b : N) : bool :=
  match c with CGt => b <? a | CGe => b <=? a end.

(* if size > MAX_BODY_SIZE: raise RPCError *)
Definition oversized (size : N) : bool := cmp_eval oversize_cmp size MAX_BODY_SIZE.

(* what a message is read back as: an empty body is the sentinel None *)
Definition normalise (body : option str) : option str :=
  match body with Some [] => None | b => b end.

(* ------------------------------------------------------------------------------------------ *)
(* 2. The reader: readexactly(HEADER_SIZE) then readexactly(size), fed fragment by fragment     *)
(* ------------------------------------------------------------------------------------------ *)

(* `acc` is the part of the pending readexactly(n) that has arrived (fewer than n bytes). *)
Inductive rphase :=
| RHdr (acc : str)
| RBody (id size : N) (acc : str)
| RDead.                                  (* _decode_header raised: nothing is read anymore *)

Inductive ritem :=
| IMsg (id : N) (body : option str)
| IOversize (id size : N).

Definition hdr_complete (h : str) : rphase * list ritem :=
  let '(id, size) := decode_header h in
  if oversized size then (RDead, [IOversize id size])
  else if size =? 0 then (RHdr [], [IMsg id None])
  else (RBody id size [], []).

Definition feed_byte (st : rphase) (b : N) : rphase * list ritem :=
  match st with
  | RHdr acc =>
      let acc' := acc ++ [b] in
      if Nat.eqb (length acc') HEADER_SIZE then hdr_complete acc' else (RHdr acc', [])
  | RBody id size acc =>
      let acc' := acc ++ [b] in
      if N.of_nat (length acc') =? size then (RHdr [], [IMsg id (Some acc')])
      else (RBody id size acc', [])
  | RDead => (RDead, [])
  end.

Fixpoint feed (st : rphase) (l : str) : rphase * list ritem :=
  match l with
  | [] => (st, [])
  | b :: r => let '(st1, i1) := feed_byte st b in
              let '(st2, i2) := feed st1 r in (st2, i1 ++ i2)
  end.

Fixpoint feed_frags (st : rphase) (frags : list str) : rphase * list ritem :=
  match frags with
  | [] => (st, [])
  | f :: r => let '(st1, i1) := feed st f in
              let '(st2, i2) := feed_frags st1 r in (st2, i1 ++ i2)
  end.

Definition reader_idle : rphase := RHdr [].

(* ------------------------------------------------------------------------------------------ *)
(* 3. Decision functions: _call_procedure, _call_and_capture_failure, RemoteFailure             *)
(* ------------------------------------------------------------------------------------------ *)

Inductive lookup := LMissing | LNotAllowed | LAllowed.   (* getattr fails / no marker / @allow_rpc *)
Inductive decision := DInvoke | DRefuse (e : exc_class) | DNothing.

Fixpoint run_steps (steps : list cp_step) (lk : lookup) (args_ok : bool) : decision :=
  match steps with
  | [] => DNothing
  | CPLookup e :: r => match lk with LMissing => DRefuse e | _ => run_steps r lk args_ok end
  | CPAllowed e :: r => match lk with LAllowed => run_steps r lk args_ok
                                     | LNotAllowed => DRefuse e
                                     | LMissing => DRefuse EOtherError end
  | CPBind e :: r => if args_ok then run_steps r lk args_ok else DRefuse e
  | CPInvoke :: _ => match lk with LMissing => DRefuse EOtherError | _ => DInvoke end
  | CPReturn :: r => run_steps r lk args_ok
  end.

Definition dispatch : lookup -> bool -> decision := run_steps call_procedure_steps.

(* How a handler invocation ends. `ORaise u`: raises an exception, u = it is a UsageError. *)
Inductive outcome := OReturn | OUnpicklable | ORaise (usage : bool).
(* What the completed task holds / what goes on the wire. *)
Inductive result := ROk | RUsage | RGeneric | RUnpicklable.
Inductive kind := KOk | KUsage | KGeneric | KSentinel.

Definition usage_flag (is_usage : bool) : bool :=
  match usage_flag_rule with
  | UIsInstanceUsageError => is_usage | UConstTrue => true | UConstFalse => false
  end.

Definition result_of (o : outcome) : result :=
  match o with
  | OReturn => ROk
  | OUnpicklable => RUnpicklable
  | ORaise u => if usage_flag u then RUsage else RGeneric
  end.

Definition kind_of (r : result) : kind :=
  match r with ROk => KOk | RUsage => KUsage | RGeneric => KGeneric | RUnpicklable => KSentinel end.

(* The exception class as the two processes see it. *)
Record excinfo := mk_exc {
  ex_usage : bool;          (* isinstance(exc, UsageError) in the server *)
  ex_importable : bool;     (* getattr(import_module(module), qualname) works in the client *)
  ex_subclass : bool;       (* ... and gives a class that is a subclass of UsageError *)
  ex_ctor_ok : bool         (* cls(message) does not raise TypeError *)
}.
Inductive client_exc := CESame | CEGeneric.    (* same class as on the server / RPCError *)

Fixpoint to_exception_run (steps : list te_step) (e : excinfo) : client_exc :=
  match steps with
  | [] => CEGeneric
  | TEImport :: r => if ex_importable e then to_exception_run r e else CEGeneric
  | TESubclass :: r => if ex_subclass e then to_exception_run r e else CEGeneric
  | TECtor :: _ => if ex_importable e && ex_ctor_ok e then CESame else CEGeneric
  end.
Definition to_exception : excinfo -> client_exc := to_exception_run to_exception_steps.

Definition rr_holds (debug flag : bool) (c : rr_cond) : bool :=
  match c with RRUsageFlag => flag | RRNotDebug => negb debug end.

(* _raise_remote_error on the RemoteFailure built by from_exception *)
Definition client_raises (debug : bool) (e : excinfo) : client_exc :=
  if forallb (rr_holds debug (usage_flag (ex_usage e))) raise_remote_conds
  then to_exception e else CEGeneric.

(* ------------------------------------------------------------------------------------------ *)
(* 4. One server connection (RPCServerConnection)                                              *)
(* ------------------------------------------------------------------------------------------ *)

(* What _decode_request makes of a body (None: not an RPCCall, the receive loop raises). *)
Record request := mk_rq {
  rq_name : str;
  rq_args_ok : bool;                    (* inspect.signature(procedure).bind succeeds *)
  rq_immediate : option outcome         (* Some o: the procedure ends without awaiting anything *)
}.

Inductive rloop := RRun | REnded | RDeadLoop.
Inductive sloop := SIdle | SDrain | SDrainFail | SEnded | SDead.
Inductive failure := FNone | FRecv | FSend.
Inductive status := StUp | StClosed | StFailedRecv | StFailedSend.

Record conn := mk_conn {
  c_rd : rphase;
  c_recv : rloop;
  c_send : sloop;
  c_stop : bool;
  c_fail : failure;
  c_inflight : list (N * str);          (* handler invocations that have not ended, oldest first *)
  c_queue : list (N * result);          (* _completed: replies the send loop will still write *)
  c_wire : list (N * kind);             (* replies handed to writer.write, in order *)
  c_dropped : list (N * result);        (* replies that will never be written *)
  c_received : list N;                  (* call ids of the requests a task was created for *)
  c_completed : list N;                 (* call ids whose procedure ran to its end *)
  c_cancelled : list N;                 (* call ids whose handler was cancelled *)
  c_invoked : list str;                 (* names of the procedures that were invoked *)
  c_racy : list (N * result)            (* see teardown *)
}.

Definition conn_init : conn :=
  mk_conn reader_idle RRun SIdle false FNone [] [] [] [] [] [] [] [] [].

Definition sender_alive (s : sloop) : bool :=
  match s with SIdle | SDrain | SDrainFail => true | SEnded | SDead => false end.

Definition status_of (c : conn) : status :=
  match c_fail c with
  | FRecv => StFailedRecv
  | FSend => StFailedSend
  | FNone => match c_recv c, c_send c, c_inflight c with
             | REnded, SEnded, [] => StClosed
             | _, _, _ => StUp
             end
  end.

Definition conn_up (c : conn) : bool :=
  match c_recv c with RRun => negb (c_stop c) && sender_alive (c_send c) | _ => false end.

(* setters *)
Definition set_rd c x := mk_conn x (c_recv c) (c_send c) (c_stop c) (c_fail c) (c_inflight c) (c_queue c) (c_wire c) (c_dropped c) (c_received c) (c_completed c) (c_cancelled c) (c_invoked c) (c_racy c).
Definition set_recv c x := mk_conn (c_rd c) x (c_send c) (c_stop c) (c_fail c) (c_inflight c) (c_queue c) (c_wire c) (c_dropped c) (c_received c) (c_completed c) (c_cancelled c) (c_invoked c) (c_racy c).
Definition set_send c x := mk_conn (c_rd c) (c_recv c) x (c_stop c) (c_fail c) (c_inflight c) (c_queue c) (c_wire c) (c_dropped c) (c_received c) (c_completed c) (c_cancelled c) (c_invoked c) (c_racy c).
Definition set_stop c x := mk_conn (c_rd c) (c_recv c) (c_send c) x (c_fail c) (c_inflight c) (c_queue c) (c_wire c) (c_dropped c) (c_received c) (c_completed c) (c_cancelled c) (c_invoked c) (c_racy c).
Definition set_inflight c x := mk_conn (c_rd c) (c_recv c) (c_send c) (c_stop c) (c_fail c) x (c_queue c) (c_wire c) (c_dropped c) (c_received c) (c_completed c) (c_cancelled c) (c_invoked c) (c_racy c).
Definition set_queue c x := mk_conn (c_rd c) (c_recv c) (c_send c) (c_stop c) (c_fail c) (c_inflight c) x (c_wire c) (c_dropped c) (c_received c) (c_completed c) (c_cancelled c) (c_invoked c) (c_racy c).
Definition set_wire c x := mk_conn (c_rd c) (c_recv c) (c_send c) (c_stop c) (c_fail c) (c_inflight c) (c_queue c) x (c_dropped c) (c_received c) (c_completed c) (c_cancelled c) (c_invoked c) (c_racy c).
Definition set_dropped c x := mk_conn (c_rd c) (c_recv c) (c_send c) (c_stop c) (c_fail c) (c_inflight c) (c_queue c) (c_wire c) x (c_received c) (c_completed c) (c_cancelled c) (c_invoked c) (c_racy c).
Definition set_received c x := mk_conn (c_rd c) (c_recv c) (c_send c) (c_stop c) (c_fail c) (c_inflight c) (c_queue c) (c_wire c) (c_dropped c) x (c_completed c) (c_cancelled c) (c_invoked c) (c_racy c).
Definition set_completed c x := mk_conn (c_rd c) (c_recv c) (c_send c) (c_stop c) (c_fail c) (c_inflight c) (c_queue c) (c_wire c) (c_dropped c) (c_received c) x (c_cancelled c) (c_invoked c) (c_racy c).
Definition set_invoked c x := mk_conn (c_rd c) (c_recv c) (c_send c) (c_stop c) (c_fail c) (c_inflight c) (c_queue c) (c_wire c) (c_dropped c) (c_received c) (c_completed c) (c_cancelled c) x (c_racy c).

(* _completed is an asyncio.Queue(maxsize): put_nowait on a full queue raises QueueFull inside the done
   callback, where only the event loop's exception handler sees it.  completed_maxsize is GENERATED
   from the field definition (None = unbounded). *)
Definition queue_full (c : conn) : bool :=
  match completed_maxsize with
  | None => false
  | Some b => Nat.leb b (length (c_queue c))
  end.

(* _queue_reply: the send loop takes it if it is still alive, otherwise nobody will; on a full queue the
   reply object is lost (it is neither written, queued nor dropped) *)
Definition enqueue (r : N * result) (c : conn) : conn :=
  if sender_alive (c_send c)
  then (if queue_full c then c else set_queue c (c_queue c ++ [r]))
  else set_dropped c (c_dropped c ++ [r]).

(* The send loop, when it is not waiting in drain(): take the head of _completed and write it;
   with nothing queued it goes back to waiting, or returns when the stop event is set. *)
Definition pump_send (c : conn) : conn :=
  match c_send c with
  | SIdle =>
      match c_queue c with
      | (id, r) :: rest =>
          match r with
          | RUnpicklable =>  (* _encode_body raises: the sentinel is written, then `raise` *)
              set_send (set_queue (set_wire c (c_wire c ++ [(id, KSentinel)])) rest) SDrainFail
          | _ => set_send (set_queue (set_wire c (c_wire c ++ [(id, kind_of r)])) rest) SDrain
          end
      | [] => if c_stop c then set_send c SEnded else c
      end
  | _ => c
  end.

Definition cancel_replies (infl : list (N * str)) : list (N * result) :=
  match capture_clause with
  | CapBaseException => map (fun e => (fst e, RGeneric)) infl   (* CancelledError is captured *)
  | CapException => []                                            (* task.cancelled(): no reply *)
  end.

(* One of the two loops raised: the TaskGroup cancels the other one, the handlers in flight are
   cancelled, nothing more is written.  `mark` = length of the queue when the current event
   began: the replies queued during the very event that tears the connection down are recorded
   in c_racy (whether the send loop got to write them first depends on the scheduling of the
   event loop; see design.d/C16.md). *)
Definition teardown (cause : failure) (mark : nat) (c : conn) : conn :=
  match c_fail c with
  | FNone =>
      mk_conn (c_rd c) RDeadLoop SDead (c_stop c) cause []
              [] (c_wire c)
              (c_dropped c ++ c_queue c ++ cancel_replies (c_inflight c))
              (c_received c) (c_completed c) (c_cancelled c ++ map fst (c_inflight c)) (c_invoked c)
              (match c_send c with SIdle => skipn mark (c_queue c) | _ => [] end)
  | _ => c
  end.

Section Server.
  Variable classify : str -> option request.   (* _decode_request *)
  Variable handler : str -> lookup.            (* the handler object *)

  (* one request for which a task is created *)
  Definition accept (id : N) (rq : request) (c : conn) : conn :=
    let c := set_received c (c_received c ++ [id]) in
    match dispatch (handler (rq_name rq)) (rq_args_ok rq) with
    | DRefuse _ => enqueue (id, RGeneric) c
    | DNothing => enqueue (id, ROk) c
    | DInvoke =>
        let c := set_invoked c (c_invoked c ++ [rq_name rq]) in
        match rq_immediate rq with
        | Some o => enqueue (id, result_of o) (set_completed c (c_completed c ++ [id]))
        | None => set_inflight c (c_inflight c ++ [(id, rq_name rq)])
        end
    end.

  (* the receive loop on the messages that one feed_data made available *)
  Fixpoint recv_items (mark : nat) (items : list ritem) (c : conn) : conn :=
    match items with
    | [] => c
    | it :: rest =>
        match c_recv c with
        | RRun =>
            match it with
            | IOversize _ _ => teardown FRecv mark c
            | IMsg id None =>
                match server_none_rule with
                | NoneStopsAndBreaks => set_recv (set_stop c true) REnded
                | _ => teardown FRecv mark c
                end
            | IMsg id (Some body) =>
                match classify body with
                | None => teardown FRecv mark c
                | Some rq => recv_items mark rest (accept id rq c)
                end
            end
        | _ => c
        end
    end.

  Fixpoint take_inflight (id : N) (l : list (N * str)) : option (str * list (N * str)) :=
    match l with
    | [] => None
    | (i, n) :: r => if i =? id then Some (n, r)
                     else match take_inflight id r with
                          | Some (n', r') => Some (n', (i, n) :: r')
                          | None => None
                          end
    end.

  Inductive event :=
  | EvRecv (bytes : str)                 (* reader.feed_data *)
  | EvComplete (id : N) (o : outcome)    (* the oldest handler in flight for this id ends *)
  | EvSent                               (* the pending writer.drain() returns *)
  | EvSendFail                           (* the pending writer.drain() raises ConnectionError *)
  | EvPeerGone                           (* reader.feed_eof *)
  | EvGarbage                            (* the reader raises something that is not 'peer gone' *)
  | EvStop.                              (* RPCServerConnection.stop() *)

  Definition end_recv (c : conn) : conn :=
    match c_recv c with RRun => set_recv c REnded | _ => c end.

  Definition step (c : conn) (e : event) : conn :=
    let mark := length (c_queue c) in
    match e with
    | EvRecv b =>
        match c_recv c with
        | RRun => let '(rd', items) := feed (c_rd c) b in
                  pump_send (recv_items mark items (set_rd c rd'))
        | _ => c
        end
    | EvComplete id o =>
        match take_inflight id (c_inflight c) with
        | None => c
        | Some (_, rest) =>
            pump_send (enqueue (id, result_of o)
                         (set_completed (set_inflight c rest) (c_completed c ++ [id])))
        end
    | EvSent =>
        match c_send c with
        | SDrain => pump_send (set_send c SIdle)
        | SDrainFail => teardown FSend mark c
        | _ => c
        end
    | EvSendFail =>
        match c_send c with
        | SDrain =>   (* except ConnectionError: self._stop_event.set(); return *)
            end_recv (set_queue (set_dropped (set_send (set_stop c true) SEnded)
                                             (c_dropped c ++ c_queue c)) [])
        | SDrainFail => teardown FSend mark c
        | _ => c
        end
    | EvPeerGone =>
        match c_recv c with
        | RRun => pump_send (set_recv (set_stop c true) REnded)
        | _ => c
        end
    | EvGarbage =>
        match c_recv c with
        | RRun => teardown FRecv mark c
        | _ => c
        end
    | EvStop => pump_send (end_recv (set_stop c true))
    end.

  Definition run (c : conn) (evs : list event) : conn := fold_left step evs c.

  (* the observations after every event, for the correspondence *)
  Fixpoint trace (c : conn) (evs : list event) : list conn :=
    match evs with
    | [] => []
    | e :: r => let c' := step c e in c' :: trace c' r
    end.
End Server.

Definition reply_ids (c : conn) : list N :=
  map fst (c_wire c) ++ map fst (c_queue c) ++ map fst (c_dropped c).
Definition inflight_ids (c : conn) : list N := map fst (c_inflight c).

(* Several connections served by one director: an event is addressed to one of them. *)
Definition director := list conn.
Fixpoint step_at (classify : str -> option request) (handler : str -> lookup)
         (d : director) (i : nat) (e : event) : director :=
  match d, i with
  | [], _ => []
  | c :: r, O => step classify handler c e :: r
  | c :: r, S i' => c :: step_at classify handler r i' e
  end.
(* What a teardown of connection i does to the OTHER connections when the set of calls in flight is not
   per connection (connection_state_per_instance = false, GENERATED): `for task in list(self._tasks):
   task.cancel()` reaches their handlers too; each of them is cancelled and, the CancelledError being
   captured, answers with a generic failure on its own connection. *)
Definition cancel_all_inflight (c : conn) : conn :=
  let infl := c_inflight c in
  let c1 := mk_conn (c_rd c) (c_recv c) (c_send c) (c_stop c) (c_fail c) [] (c_queue c) (c_wire c)
                    (c_dropped c) (c_received c) (c_completed c)
                    (c_cancelled c ++ map fst infl) (c_invoked c) (c_racy c) in
  pump_send (fold_left (fun acc r => enqueue r acc) (cancel_replies infl) c1).

Definition newly_failed (before after : option conn) : bool :=
  match before, after with
  | Some b, Some a => match c_fail b, c_fail a with FNone, FNone => false | FNone, _ => true | _, _ => false end
  | _, _ => false
  end.

Fixpoint map_others (f : conn -> conn) (d : director) (i : nat) : director :=
  match d, i with
  | [], _ => []
  | c :: r, O => c :: map f r
  | c :: r, S i' => f c :: map_others f r i'
  end.

Definition step_dir (classify : str -> option request) (handler : str -> lookup)
           (d : director) (i : nat) (e : event) : director :=
  let d' := step_at classify handler d i e in
  if connection_state_per_instance then d'
  else if newly_failed (nth_error d i) (nth_error d' i) then map_others cancel_all_inflight d' i else d'.

Definition run_director classify handler (d : director) (evs : list (nat * event)) : director :=
  fold_left (fun d ie => step_dir classify handler d (fst ie) (snd ie)) evs d.

(* The handler of the director: exactly the generated @allow_rpc list is exposed. *)
Definition director_handler (name : str) : lookup :=
  if existsb (str_eqb name) director_allowed then LAllowed
  else if existsb (str_eqb name) director_not_allowed then LNotAllowed else LMissing.

(* ------------------------------------------------------------------------------------------ *)
(* 5. The clients                                                                              *)
(* ------------------------------------------------------------------------------------------ *)

Inductive cresult := CRBody (body : option str) | CRConnLost.

Record client := mk_client {
  k_rd : rphase;
  k_alive : bool;                       (* the receive loop is running *)
  k_failed : bool;                      (* it ended by raising (unknown id, bad frame) *)
  k_counter : N;                        (* _counter *)
  k_pending : list (N * bool);          (* _pending: id, the caller is still waiting *)
  k_done : list (N * cresult)           (* what the futures of the callers received *)
}.
Definition client_init : client := mk_client reader_idle true false 0 [] [].

Inductive cevent :=
| CCall                                  (* __call__: next id, register, send *)
| CCancel (id : N)                       (* the caller of id is cancelled *)
| CRecv (bytes : str)                    (* feed_data on the client's reader *)
| CPeerGone                              (* feed_eof / close() *)
| CClose.                                (* close(): the counter runs on for the close message *)

Fixpoint pop_pending (id : N) (l : list (N * bool)) : option (bool * list (N * bool)) :=
  match l with
  | [] => None
  | (i, w) :: r => if i =? id then Some (w, r)
                   else match pop_pending id r with
                        | Some (w', r') => Some (w', (i, w) :: r')
                        | None => None
                        end
  end.

(* finally: while self._pending: popitem() ... set_exception(ConnectionResetError) *)
Definition fail_all (failed : bool) (k : client) : client :=
  mk_client (k_rd k) false failed (k_counter k) []
            (k_done k ++ map (fun e => (fst e, CRConnLost)) (filter snd (rev (k_pending k)))).

Fixpoint client_items (items : list ritem) (k : client) : client :=
  match items with
  | [] => k
  | it :: rest =>
      if k_alive k then
        match it with
        | IOversize _ _ => fail_all true k
        | IMsg id body =>
            match pop_pending id (k_pending k) with
            | None => fail_all true k
            | Some (waiting, rest_p) =>
                client_items rest
                  (mk_client (k_rd k) true false (k_counter k) rest_p
                             (if waiting then k_done k ++ [(id, CRBody body)] else k_done k))
            end
        end
      else k
  end.

Definition cstep (k : client) (e : cevent) : client :=
  match e with
  | CCall =>
      if k_alive k then
        mk_client (k_rd k) true (k_failed k) (k_counter k + 1)
                  (k_pending k ++ [(k_counter k + 1, true)]) (k_done k)
      else k
  | CCancel id =>
      mk_client (k_rd k) (k_alive k) (k_failed k) (k_counter k)
                (map (fun e => if fst e =? id then (fst e, false) else e) (k_pending k)) (k_done k)
  | CRecv b =>
      if k_alive k then
        let '(rd', items) := feed (k_rd k) b in
        client_items items (mk_client rd' true (k_failed k) (k_counter k) (k_pending k) (k_done k))
      else k
  | CPeerGone => if k_alive k then fail_all false k else k
  | CClose =>
      let k' := mk_client (k_rd k) (k_alive k) (k_failed k) (k_counter k + 1) (k_pending k) (k_done k) in
      if k_alive k then fail_all false k' else k'
  end.
Definition crun (k : client) (evs : list cevent) : client := fold_left cstep evs k.

(* what _decode_response makes of a delivered body, given what the body unpickles to *)
Inductive call_end := EndValue | EndSame | EndGeneric | EndConnLost.

(* The synchronous client: _recv_response(expected) on a _SocketReader whose recv() returns the
   given fragments (an empty fragment, or none left, is a peer that is gone). *)
Inductive sync_result :=
| SyOk (body : option str) | SyMismatch (got : N) | SyConnReset | SyBadFrame.

Fixpoint sync_recv (expected : N) (st : rphase) (buffered : list ritem) (frags : list str)
  : sync_result * rphase * list ritem * list str :=
  match buffered with
  | IMsg id body :: more =>
      (if id =? expected then SyOk body else SyMismatch id, st, more, frags)
  | IOversize _ _ :: more => (SyBadFrame, st, more, frags)
  | [] =>
      match frags with
      | [] => (SyConnReset, st, [], [])
      | f :: r =>
          match f with
          | [] => (SyConnReset, st, [], r)
          | _ => let '(st1, items) := feed st f in
                 match items with
                 | [] => sync_recv expected st1 [] r
                 | IMsg id body :: more =>
                     (if id =? expected then SyOk body else SyMismatch id, st1, more, r)
                 | IOversize _ _ :: more => (SyBadFrame, st1, more, r)
                 end
          end
      end
  end.
