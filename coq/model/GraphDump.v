(* Canonical dump of a Graph.st and the trace checker used by the E2 correspondence. *)
From Coq Require Import List NArith Bool.
From SV Require Import lib.Bytes model.Graph.
Import ListNotations.
Open Scope N_scope.

Definition dnode := (key * option key * bool)%type.
Definition dfile := (str * N * option N)%type.
Definition dstep := (str * N * N * bool * N * N * bool)%type.
Definition ddep := (key * key * bool)%type.
Definition denv := (str * str * bool)%type.
Record dump := mkDump { d_nodes : list dnode; d_files : list dfile; d_steps : list dstep;
                        d_deps : list ddep; d_shash : list str; d_envs : list denv }.

Definition on_eqb (a b : option N) : bool :=
  match a, b with Some x, Some y => x =? y | None, None => true | _, _ => false end.
Definition dnode_eqb (a b : dnode) : bool :=
  let '(k1, c1, d1) := a in let '(k2, c2, d2) := b in key_eqb k1 k2 && okey_eqb c1 c2 && Bool.eqb d1 d2.
Definition dfile_eqb (a b : dfile) : bool :=
  let '(l1, s1, h1) := a in let '(l2, s2, h2) := b in str_eqb l1 l2 && (s1 =? s2) && on_eqb h1 h2.
Definition dstep_eqb (a b : dstep) : bool :=
  let '(l1, s1, n1, d1, c1, h1, x1) := a in let '(l2, s2, n2, d2, c2, h2, x2) := b in
  str_eqb l1 l2 && (s1 =? s2) && (n1 =? n2) && Bool.eqb d1 d2 && (c1 =? c2) && (h1 =? h2) && Bool.eqb x1 x2.
Definition ddep_eqb (a b : ddep) : bool :=
  let '(a1, b1, d1) := a in let '(a2, b2, d2) := b in key_eqb a1 a2 && key_eqb b1 b2 && Bool.eqb d1 d2.
Definition denv_eqb (a b : denv) : bool :=
  let '(a1, b1, d1) := a in let '(a2, b2, d2) := b in str_eqb a1 a2 && str_eqb b1 b2 && Bool.eqb d1 d2.

Definition set_eqb {A} (eqb : A -> A -> bool) (a b : list A) : bool :=
  Nat.eqb (length a) (length b) && forallb (fun x => existsb (eqb x) b) a && forallb (fun x => existsb (eqb x) a) b.

Definition dump_of (s : st) : dump :=
  mkDump (map (fun n => (nk n, ncre n, ndet n)) (nodes s))
         (map (fun r => (fl r, fstate_code (fstt r), fh r)) (files s))
         (map (fun r => (sl r, sstate_code (sst r), need_code (sneed r), sdef r, sdc r, shold r,
                         has_hash (sl r) s)) (steps s))
         (map (fun d => (dsrc d, dsnk d, ddyn d)) (deps s))
         (shash s)
         (map (fun e => (estep e, ename e, edyn e)) (envs s)).

Definition dump_eqb (a b : dump) : bool :=
  set_eqb dnode_eqb (d_nodes a) (d_nodes b) && set_eqb dfile_eqb (d_files a) (d_files b) &&
  set_eqb dstep_eqb (d_steps a) (d_steps b) && set_eqb ddep_eqb (d_deps a) (d_deps b) &&
  set_eqb str_eqb (d_shash a) (d_shash b) && set_eqb denv_eqb (d_envs a) (d_envs b).

Inductive outcome := OOk | OUsage | OInternal.
Definition outcome_of {A} (r : res A) : outcome :=
  match r with Ok _ => OOk | Usage _ => OUsage | Internal _ => OInternal end.
Definition outcome_eqb (a b : outcome) : bool :=
  match a, b with OOk, OOk | OUsage, OUsage | OInternal, OInternal => true | _, _ => false end.

(* index of the first disagreeing transaction, or None when the whole trace agrees *)
Fixpoint first_bad (i : nat) (s : st) (tr : list (op * outcome * dump)) : option nat :=
  match tr with
  | [] => None
  | (o, oc, d) :: tr' =>
    let r := step_op o s in
    let s' := match r with Ok x => x | _ => s end in
    if outcome_eqb (outcome_of r) oc && dump_eqb (dump_of s') d then first_bad (S i) s' tr'
    else Some i
  end.
Definition check_trace (cap : N) (tr : list (op * outcome * dump)) : bool :=
  match first_bad 0 (init_st cap) tr with None => true | Some _ => false end.
(* diagnostics *)
Definition state_at (cap : N) (ops : list op) : dump := dump_of (run_ops ops (init_st cap)).
Definition result_tag (cap : N) (ops : list op) (o : op) : N :=
  match step_op o (run_ops ops (init_st cap)) with Ok _ => 0 | Usage t => t | Internal t => t end.
