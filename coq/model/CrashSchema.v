(* model/CrashSchema.v -- C05: a kill inside DBSession.apply_schema.  Definitions only
   (proofs: proofs/CrashSchemaProofs.v).

   apply_schema runs in autocommit mode: every statement is committed on its own, so the file a
   killed director leaves is a PREFIX of the statement sequence.  What later opens look at:
     happ   PRAGMA application_id holds StepUp's id (a new file holds 0)
     hver   PRAGMA user_version holds the current schema version
     hobjs  the schema objects (tables, indexes, triggers) created so far, numbered in script order;
            every CREATE of the scripts is IF NOT EXISTS (tied by the oracle: the scripts are run
            again on every prefix)
   The ORDER of the three writing statements (1 = PRAGMA application_id, 2 = PRAGMA user_version,
   3 = the scripts) is generated from the source: gen/GenCrashSchema.v apply_schema_writes. *)
From Coq Require Import List NArith Bool Arith.
Import ListNotations.

Record head := mkH { happ : bool; hver : bool; hobjs : list nat }.
Definition new_file : head := mkH false false [].

Inductive sstmt := SAppId | SUserVersion | SCreate (i : nat).

Definition memn (i : nat) (l : list nat) : bool := existsb (Nat.eqb i) l.
Definition exec (h : head) (s : sstmt) : head :=
  match s with
  | SAppId => mkH true (hver h) (hobjs h)
  | SUserVersion => mkH (happ h) true (hobjs h)
  | SCreate i => if memn i (hobjs h) then h else mkH (happ h) (hver h) (hobjs h ++ [i])
  end.
Definition run (l : list sstmt) (h : head) : head := fold_left exec l h.

(* the writing statements of apply_schema for scripts with n objects, in the order of the source *)
Definition expand (n : nat) (code : N) : list sstmt :=
  match code with
  | 1%N => [SAppId]
  | 2%N => [SUserVersion]
  | 3%N => map SCreate (seq 0 n)
  | _ => []
  end.
Definition prog (order : list N) (n : nat) : list sstmt := flat_map (expand n) order.

Inductive sres := SOk (fresh : bool) (h : head) | SInvalidApplicationId.

(* apply_schema on the file as found: is_fresh = no object at all; not fresh: another application
   id is an error, another schema version wipes the file; then the writing statements *)
Definition open_schema (order : list N) (n : nat) (h : head) : sres :=
  let fresh := match hobjs h with [] => true | _ => false end in
  if negb fresh && negb (happ h) then SInvalidApplicationId
  else
    let wipe := negb fresh && negb (hver h) in
    let h1 := if wipe then mkH (happ h) (hver h) [] else h in
    SOk (fresh || wipe) (run (prog order n) h1).

(* the file after a kill right after the k-th autocommitted statement of a first start *)
Definition schema_crash (order : list N) (n k : nat) : head := run (firstn k (prog order n)) new_file.
Definition complete (n : nat) : head := mkH true true (seq 0 n).

Definition reopens_b (order : list N) (n k : nat) : bool :=
  match open_schema order n (schema_crash order n k) with
  | SOk _ h => happ h && hver h && (length (hobjs h) =? n)
  | SInvalidApplicationId => false
  end.
