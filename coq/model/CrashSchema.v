(* model/CrashSchema.v -- C05: a kill inside DBSession.apply_schema.  Definitions only
   (proofs: proofs/CrashSchemaProofs.v).

   apply_schema runs in autocommit mode: every statement is committed on its own, so the file a
   killed director leaves is a PREFIX of the statement sequence.  What later opens look at:
     happ   PRAGMA application_id holds StepUp's id (a new file holds 0)
     hver   PRAGMA user_version holds the current schema version
     hobjs  the persistent schema objects (tables, indexes, triggers) present, numbered in script
            order.  Every CREATE of the scripts is IF NOT EXISTS and every DROP is IF EXISTS and
            directly followed by the CREATE of the same object (GENERATED from the scripts:
            gen/GenCrashSchema.v schema_statements_idempotent, schema_drops), so no statement fails
            when it is run again on a file that holds part of the schema.
   The ORDER of the three writing statements (1 = PRAGMA application_id, 2 = PRAGMA user_version,
   3 = the scripts) is generated from the source: apply_schema_writes. *)
From Coq Require Import List NArith Bool Arith.
Import ListNotations.
Open Scope nat_scope.

Record head := mkH { happ : bool; hver : bool; hobjs : list nat }.
Definition new_file : head := mkH false false [].

Inductive sstmt := SAppId | SUserVersion | SCreate (i : nat) | SDrop (i : nat).

Definition memn (i : nat) (l : list nat) : bool := existsb (Nat.eqb i) l.
Definition exec (h : head) (s : sstmt) : head :=
  match s with
  | SAppId => mkH true (hver h) (hobjs h)
  | SUserVersion => mkH (happ h) true (hobjs h)
  | SCreate i => if memn i (hobjs h) then h else mkH (happ h) (hver h) (hobjs h ++ [i])
  | SDrop i => mkH (happ h) (hver h) (filter (fun j => negb (Nat.eqb j i)) (hobjs h))
  end.
Definition run (l : list sstmt) (h : head) : head := fold_left exec l h.

(* the statements of the scripts: object i is created, after a DROP when i is in [drops] *)
Definition script (drops : list nat) (n : nat) : list sstmt :=
  flat_map (fun i => (if memn i drops then [SDrop i] else []) ++ [SCreate i]) (seq 0 n).
Definition expand (drops : list nat) (n : nat) (code : N) : list sstmt :=
  match code with
  | 1%N => [SAppId]
  | 2%N => [SUserVersion]
  | 3%N => script drops n
  | _ => []
  end.
Definition prog (order : list N) (drops : list nat) (n : nat) : list sstmt := flat_map (expand drops n) order.

Inductive sres := SOk (fresh : bool) (h : head) | SInvalidApplicationId.

(* apply_schema on the file as found: is_fresh = no object at all; not fresh: another application
   id is an error, another schema version wipes the file; then the writing statements *)
Definition open_schema (order : list N) (drops : list nat) (n : nat) (h : head) : sres :=
  let fresh := match hobjs h with [] => true | _ => false end in
  if negb fresh && negb (happ h) then SInvalidApplicationId
  else
    let wipe := negb fresh && negb (hver h) in
    let h1 := if wipe then mkH (happ h) (hver h) [] else h in
    SOk (fresh || wipe) (run (prog order drops n) h1).

(* the file after a kill right after the k-th autocommitted statement of a start on the file [h0] *)
Definition schema_crash_from (h0 : head) (order : list N) (drops : list nat) (n k : nat) : head :=
  run (firstn k (prog order drops n)) h0.
Definition schema_crash := schema_crash_from new_file.
(* both stamps, every object *)
Definition complete_b (n : nat) (h : head) : bool :=
  happ h && hver h && forallb (fun i => memn i (hobjs h)) (seq 0 n).

Definition reopens_b (order : list N) (drops : list nat) (n k : nat) : bool :=
  match open_schema order drops n (schema_crash order drops n k) with
  | SOk _ h => complete_b n h
  | SInvalidApplicationId => false
  end.
