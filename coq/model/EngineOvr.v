(* C01: environment overrides of a step (leading VAR=value words of its command, or the
   env_overrides argument of api.step) in the engine model/Engine.v.  Definitions only.

   The overrides are part of the step DEFINITION: the command runs under them and they are an
   ingredient of the step hash (StepHash.from_inp).  They are NOT part of the label, which is the
   node key, and Step.can_recycle does not compare them.  In Engine.v the program of a step and its
   recorded trace are indexed by the step id, so the faithful encoding is
       id = oid key o        key = the node (label), o = the code of the override set, 0 = none
   ([okey], [oovr] recover the two; o < [ovr_base]).  Every theorem of Engine.v quantifies over all
   ids, hence over all override codes: for the model's recycle rule ([retarget]: same id and same
   definition) a plan edit that adds, changes or removes the overrides of a step is a
   RE-DEFINITION (new id: PENDING, no trace), and the equivalence with a build from scratch holds
   (props/C01.v C01_plan_edits_equiv_scratch_partial).

   What the code does is [retarget_ovr_code]: the definition [b] of the new plan recycles the node
   of the old plan with the same KEY and the same inputs, variables and outputs, whatever its
   overrides ([same_node] = Step.can_recycle); Step.after_recycle stores the new overrides and
   keeps the STATE.  The stored hash was computed under the old overrides: when they differ, any
   later re-validation mismatches, which is the same as having no trace.  So a step whose
   overrides changed stays SUCCEEDED with the outputs of the run under the old overrides unless
   something else marks it pending (finding F10; props/C01.v C01_F10_engine_refuted). *)
From Coq Require Import List NArith Bool.
From SV Require Import model.Engine.
Import ListNotations.
Open Scope N_scope.

Definition ovr_base : N := 4294967296.
Definition oid (key o : N) : N := key * ovr_base + o.
Definition okey (id : N) : N := id / ovr_base.
Definition oovr (id : N) : N := id mod ovr_base.

(* Step.can_recycle: same node key, same initial inputs, variables, outputs *)
Definition same_node (a b : step) : bool :=
  (okey (sid a) =? okey (sid b)) && listN_eqb (inp a) (inp b) && listN_eqb (envn a) (envn b) &&
  listN_eqb (out a) (out b).
Definition recycled_from (P : project) (b : step) : option step := find (fun a => same_node a b) P.

Definition retarget_ovr_code (P P' : project) (y : sys) : sys :=
  mkSys (fs y) (ev y)
        (fun id => match find_step P' id with
                   | Some b => match recycled_from P b with
                               | Some a => if sid a =? sid b then tr y id else None
                               | None => None
                               end
                   | None => None
                   end)
        (fun id => match find_step P' id with
                   | Some b => match recycled_from P b with
                               | Some a => stt y (sid a)
                               | None => Pending
                               end
                   | None => Pending
                   end).

Section Ovr.
  Variable run : N -> list (option N) -> list (option N) -> N -> N.
  Definition rebuild_ovr_code (P : project) (y : sys) (P' : project) (w : world) : sys :=
    build run P' (resync P' (retarget_ovr_code P P' y) w).
End Ovr.
