(* C10 (D39): when may a step be parked?  Definitions only.

   `deferred` keeps a PENDING step out of every dispatch set (STEP_DISPATCH_WHERE).  It is set by
     Step.mark_completed (defer)             deferred = has_unavailable_dynamic_input()
     Executor.validate_dynamic_job           digest unchanged: a literal (True since d760e3e), or, with the
                                             repair of D39, has_unusable_dynamic_input() evaluated in the
                                             outcome transaction
   and cleared by Step.set_state(st) (mark_step_pending, dispatch, completion, reset) and, with the repair,
   by the trigger step_node_undefer_reattached when an input node is re-attached.

   Invariant (DeferJustified): a deferred step is PENDING and one of its dynamic inputs is unusable
   (detached, or not CONFIRMED / BUILT) -- the flag waits for an event that is still to come.

   The two ingredients of the repair are parameters of the events below (`u`: the trigger exists, `c`: the
   flag of the validation outcome is computed), so that every shape of the source can be named:
   (false, false) = repo d760e3e .. 3ce20a7, (true, false) = trigger only, (false, true) = computed flag only,
   (true, true) = the repair (repo 84081f2).  A third parameter `r` (dstepR) names the refinement of the trigger: it
   wakes only the consumers that have no unusable dynamic input left.  GenSched says which shape the repository has
   (trg_undefer_on_reattach, trg_undefer_strict, validate_unchanged_computed). *)
From Coq Require Import List NArith Bool Arith.
From SV Require Import lib.Bytes lib.SqlExpr gen.GenSched model.Sched.
Import ListNotations.
Open Scope N_scope.

Definition file_available (f : file) : bool := mem_N (f_state f) dyn_available_states.
(* file_usable, src_is, unusable_dyn (Step.has_unusable_dynamic_input): model/Sched.v *)
(* Step.has_unavailable_dynamic_input (mark_completed): the state only *)
Definition unavailable_dyn (g : graph) (k : N) : bool :=
  existsb (fun d => (d_snk d =? k) && d_dyn d && src_is (fun f => negb (file_available f)) g (d_src d)) (g_deps g).

Definition defer_justified_b (g : graph) : bool :=
  forallb (fun s => negb (s_deferred s) || ((s_state s =? ST_PENDING) && unusable_dyn g (s_key s))) (g_steps g).

(* a step that only the flag keeps waiting: PENDING, deferred, every dynamic input attached and available *)
Definition parked_for_nothing (g : graph) (s : step) : bool :=
  (s_state s =? ST_PENDING) && s_deferred s && negb (unusable_dyn g (s_key s)).

(* UPDATE node SET detached = b with both row triggers; `u`: step_node_undefer_reattached exists, `r`: in its
   refined form (only consumers without an unusable dynamic input are woken) *)
Definition set_detached_nodes_with (u r : bool) (g : graph) (ks : list N) (b : bool) : graph :=
  let g' := set_detached_nodes_core g ks b in
  if u && negb b then undefer_consumers_with r g' (reattached_nodes g ks) else g'.

(* Workflow.mark_step_pending: RUNNING and CHECKING steps are skipped *)
Definition wake_step (g : graph) (k : N) : graph :=
  match find_step g k with
  | Some s => if mem_N (s_state s) [ST_RUNNING; ST_CHECKING] then g else set_step_state g k ST_PENDING false
  | None => g
  end.
(* Workflow.mark_consuming_steps_pending *)
Definition wake_consumers (g : graph) (f : N) : graph := fold_left wake_step (consumers_of_node g f) g.

Definition drop_inputs (dynonly : bool) (g : graph) (k : N) : graph :=
  fold_left del_dep (filter (fun d => (d_snk d =? k) && (negb dynonly || d_dyn d)) (g_deps g)) g.

Inductive devent :=
| DSetState (k st : N)                 (* Step.set_state(st): dispatch, mark_step_pending, completion *)
| DValidateUnchanged (k : N)           (* validate_dynamic_job, digest unchanged *)
| DDefer (k : N) (within : bool)       (* mark_completed(None, wants_defer), within / beyond the cap *)
| DFileState (f st : N) (h : bool)     (* a file row changes state; when it becomes CONFIRMED / BUILT the
                                          consumers are marked pending in the same transaction
                                          (update_file_hashes / mark_completed) *)
| DSetDetached (ks : list N) (b : bool)  (* Node.detach / Node.reattach / Trellis.create: the detached flags *)
| DInsDep (d : dep)                    (* amend_step / define_step: a new edge *)
| DResetStep (k st : N) (dynonly : bool)  (* reset_for_rerun (+ del_all_sources) followed by set_state(st) *)
| DMeta.                               (* Scheduler._update_meta_* *)

Definition validate_flag (c : bool) (g : graph) (k : N) : bool :=
  if c then unusable_dyn g k else validate_unchanged_deferred.

Definition dstepR (u r c : bool) (g : graph) (e : devent) : graph :=
  match e with
  | DSetState k st => set_step_state g k st false
  | DValidateUnchanged k => set_step_state g k validate_unchanged_state (validate_flag c g k)
  | DDefer k within =>
      set_step_state (inc_defer g k) k (if within then defer_state_within else defer_state_beyond)
                     (within && unavailable_dyn g k)
  | DFileState f st h =>
      let g1 := set_file_state g f st h in
      if mem_N st dyn_available_states then wake_consumers g1 f else g1
  | DSetDetached ks b => set_detached_nodes_with u r g ks b
  | DInsDep d => ins_dep g d
  | DResetStep k st dynonly => set_step_state (drop_inputs dynonly g k) k st false
  | DMeta => match update_meta g with Some g' => g' | None => g end
  end.
Definition drunR (u r c : bool) (evs : list devent) (g : graph) : graph := fold_left (dstepR u r c) evs g.
(* the shapes with the unconditional trigger (repo 84081f2 and what came before) *)
Definition dstep (u c : bool) : graph -> devent -> graph := dstepR u false c.
Definition drun (u c : bool) : list devent -> graph -> graph := drunR u false c.

(* the shape of the repository *)
Definition dstep_repo := dstepR trg_undefer_on_reattach trg_undefer_strict validate_unchanged_computed.
Definition drun_repo := drunR trg_undefer_on_reattach trg_undefer_strict validate_unchanged_computed.

(* ---- the history of D39 (findings.d/C10-D39.json), as a snapshot and events ----
   keys: 0 root, 1 ./plan.py (SUCCEEDED), 2 q (child of plan, PENDING: its hash check failed, prod and
   a/x.txt already detached), 3 user (child of plan, PENDING with a stored hash), 4 prod (detached),
   10 a/x.txt (BUILT, detached, created by prod), 11 src/d.txt (CONFIRMED);
   edges 11 -> 3 (declared), 10 -> 3 (amended), 4 -> 10 (output). *)
Definition d39_step (k st need : N) (cr : option N) (det hash : bool) : step :=
  mkStep k st need false 0 0 det cr true true need true hash hash false false false 1 1 [].
Definition g_d39 : graph :=
  mkGraph [d39_step 1 ST_SUCCEEDED ND_PLAN (Some 0) false true;
           d39_step 2 ST_PENDING ND_PLAN (Some 1) false false;
           d39_step 3 ST_PENDING ND_DEFAULT (Some 1) false true;
           d39_step 4 ST_SUCCEEDED ND_DEFAULT None true true]
          [mkFile 10 [120] FS_BUILT true (Some 4) true; mkFile 11 [100] FS_CONFIRMED false (Some 1) true]
          [mkOnode 0 false None]
          [mkDep 11 3 false; mkDep 10 3 true; mkDep 4 10 false] [] [] [] ND_OPTIONAL.
(* user is dispatched (CHECKING), validated as unchanged; q runs and re-defines prod identically: prod
   and a/x.txt are re-attached; q SUCCEEDED; metadata update *)
Definition d39_sequential : list devent :=
  [DSetState 3 ST_CHECKING; DValidateUnchanged 3; DSetState 2 ST_RUNNING; DSetDetached [4; 10] false;
   DSetState 2 ST_SUCCEEDED; DMeta].
(* the validation job is in flight while q recycles prod; its outcome is committed afterwards *)
Definition d39_race : list devent :=
  [DSetState 3 ST_CHECKING; DSetState 2 ST_RUNNING; DSetDetached [4; 10] false; DValidateUnchanged 3;
   DSetState 2 ST_SUCCEEDED; DMeta].

(* ---- defer and re-attachment in either order (c02d's pair, D39-refine) ----
   S (3, RUNNING, child of plan 1) has amended f (10), an orphan: UNDECLARED and detached.  r1 = S is deferred
   (mark_completed(None, wants_defer)); r2 = another running step declares f (static: UNCONFIRMED; the node is
   re-attached, the file state changes in the same transaction). *)
Definition g_comm : graph :=
  mkGraph [d39_step 1 ST_RUNNING ND_PLAN (Some 0) false false;
           d39_step 3 ST_RUNNING ND_DEFAULT (Some 1) false false]
          [mkFile 10 [102] FS_UNDECLARED true None false] [mkOnode 0 false None]
          [mkDep 10 3 true] [] [] [] ND_OPTIONAL.
Definition comm_r1 : list devent := [DDefer 3 true].
Definition comm_r2 : list devent := [DSetDetached [10] false; DFileState 10 FS_UNCONFIRMED false].
Definition deferred_of (g : graph) (k : N) : bool :=
  match find_step g k with Some s => s_deferred s | None => false end.
