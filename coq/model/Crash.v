(* model/Crash.v -- C05: what a killed director leaves behind and what a restart does with it.
   Definitions only (proofs: proofs/CrashProofs.v).

   Built on model/Graph.v (every [op] is one committed transaction).  A crash is modelled as
     - the database file holds the result of a PREFIX of the transactions (SQLite WAL atomicity
       for a killed process is trusted, see design.d/C05.md);
     - the disk holds whatever the running commands had written so far (any subset / partial
       content of their outputs);
     - everything in memory is lost, in particular Workflow.to_be_deleted.

   Code modelled (re-read at /repo 5ab2cfe):
     trellis.py   Trellis.initialize (fresh / not fresh), Trellis._check_consistency
     workflow.py  Workflow._check_consistency (SUCCEEDED step with a non-BUILT/VOLATILE attached
                  output: ConsistencyError under STEPUP_DEBUG, else mark_step_pending)
     sqlite3.py   DBSession.apply_schema (autocommit, before the first transaction)
     startup.py   reset_interrupted_steps (= Graph.reset_interrupted), rescan_files for stray
                  UNCONFIRMED rows (cause CONFIRMED)
     finalize.py  revert_optional_steps (own transaction), remove_deletable_files (no transaction)
     builder.py   Builder.finalize: revert_optional_steps; async with db: delete_detached;
                  remove_deletable_files
     file.py      File.before_delete (what is queued in to_be_deleted) *)
From Coq Require Import List NArith Bool.
From SV Require Import lib.Bytes model.Graph model.GraphInv gen.GenCrash.
Import ListNotations.
Open Scope N_scope.

(* ------------------------------------------------------------------------------------------ *)
(* 1. Opening a database                                                                       *)
(* ------------------------------------------------------------------------------------------ *)

(* What the database file can hold.  [DbSchema]: apply_schema ran (autocommit) but the first
   transaction (creation of the root node) never committed: tables exist, node table empty. *)
Inductive dbfile := DbNone | DbSchema | DbSt (s : st).

(* per-row check of Trellis._check_consistency: the detached flag agrees with the creator *)
Definition cc_row_b (s : st) : bool :=
  forallb (fun n =>
             let cdet := match ncre n with
                         | None => true
                         | Some c => match find_node c s with Some cn => ndet cn | None => false end
                         end in
             Bool.eqb (ndet n) cdet) (nodes s).

(* CHECK_DETACHED_REACHABILITY: the set reachable from the root over creator -> product edges
   (root included); a node whose detached flag EQUALS its reachability is an error *)
Definition reach_down (s : st) : list key := rec_products_from (length (nodes s)) [root_key] s.
Definition cc_reach_b (s : st) : bool :=
  forallb (fun n => negb (Bool.eqb (ndet n) (mem_key (nk n) (reach_down s)))) (nodes s).

(* validate_row of every node: file nodes have a file row, step nodes a step row *)
Definition cc_valid_b (s : st) : bool :=
  forallb (fun n => match fst (nk n) with
                    | KFile => is_some (find_file (snd (nk n)) s)
                    | KStep => is_some (find_step (snd (nk n)) s)
                    | _ => true end) (nodes s).

Definition cc_trellis_b (s : st) : bool := cc_row_b s && cc_reach_b s && cc_valid_b s.

(* Workflow._check_consistency: SUCCEEDED steps with an attached sink file that is neither
   BUILT nor VOLATILE (each step once) *)
Definition succ_violation (r : srow) (s : st) : bool :=
  sstate_eqb (sst r) SSucceeded &&
  existsb (fun f => negb (is_detached (KFile, f) s) &&
                    match fstate_of f s with
                    | Some FBuilt | Some FVolatile => false
                    | Some _ => true
                    | None => false end) (file_sinks_of_step (sl r) s).
Definition succ_violations (s : st) : list str :=
  map sl (filter (fun r => succ_violation r s) (steps s)).

(* [strict] = STEPUP_DEBUG.  Internal 300: the root row is missing (self._root is None, the
   reachability query dereferences it: AttributeError).  301: ConsistencyError / ValueError of
   the trellis part.  302: ConsistencyError of the workflow part in strict mode. *)
Definition check_consistency (strict : bool) (s : st) : res st :=
  if negb (is_some (find_node root_key s)) then Internal 300
  else if negb (cc_trellis_b s) then Internal 301
  else match succ_violations s with
       | [] => Ok s
       | l => if strict then Internal 302
              else foldM (fun s x => mark_step_pending x s) l s
       end.

(* Trellis.initialize.  [repair_root] is read from the source by the translator
   (GenCrash.open_creates_missing_root): whether the not-fresh branch creates a missing root. *)
Definition open_db (repair_root strict : bool) (cap : N) (d : dbfile) : res st :=
  match d with
  | DbNone => Ok (init_st cap)
  | DbSchema => if repair_root then Ok (init_st cap) else Internal 300
  | DbSt s => check_consistency strict s
  end.
Definition open_db_now := open_db open_creates_missing_root.

(* The database file after a kill at commit point k of the life of a project directory:
   point 0 = before the first transaction ever committed. *)
Definition db_at (cap : N) (ops : list op) (k : nat) : dbfile :=
  match k with
  | O => DbSchema
  | S k' => DbSt (run_ops (firstn k' ops) (init_st cap))
  end.

(* ------------------------------------------------------------------------------------------ *)
(* 2. Interrupted steps                                                                        *)
(* ------------------------------------------------------------------------------------------ *)
Definition no_running_checking_b (s : st) : bool :=
  forallb (fun r => negb (sstate_eqb (sst r) SRunning) && negb (sstate_eqb (sst r) SChecking)) (steps s).

(* product files of a step that are BUILT: what reset_for_rerun degrades *)
Definition built_products (l : str) (s : st) : list str := file_products_in l is_built s.
(* sink files of a step (dependency edges) that are BUILT: what mark_step_pending degrades *)
Definition built_sinks (l : str) (s : st) : list str :=
  filter (fun f => match fstate_of f s with Some FBuilt => true | _ => false end) (file_sinks_of_step l s).

(* The protocol of one executed job, as the ghost part of a build trace: the set of steps
   whose command has started (reset_for_rerun committed) and not yet completed. *)
Definition started_after (o : op) (started : list str) : list str :=
  match o with
  | OpResetForRerun l => l :: started
  | OpExecEnd l _ _ _ _ _ => filter (fun x => negb (str_eqb x l)) started
  | _ => started
  end.

(* The hash lists of a completion only name outputs of the completing step (executor.py:
   _compute_full_step_hash hashes step.out_paths); the model op carries arbitrary lists, so the
   protocol condition is stated here. *)
Definition completes_own_outputs (o : op) (s : st) : bool :=
  match o with
  | OpExecEnd l _ _ hs _ _ => forallb (fun ph => mem_str (fst ph) (file_sinks_of_step l s)) hs
  | _ => true
  end.

(* invariant of started steps *)
Definition started_ok_b (started : list str) (s : st) : bool :=
  forallb (fun l => match sstate_of l s with Some SRunning => true | _ => false end
                    && negb (has_hash l s)
                    && match built_products l s with [] => true | _ => false end) started.

(* ------------------------------------------------------------------------------------------ *)
(* 3. Stray UNCONFIRMED files                                                                  *)
(* ------------------------------------------------------------------------------------------ *)
(* abstract disk: path -> content id (the hash id of the file models: a digest is its content) *)
Definition disk := list (str * N).
Definition disk_get (p : str) (d : disk) : option N :=
  match find (fun x => str_eqb (fst x) p) d with Some x => Some (snd x) | None => None end.
Definition disk_remove (p : str) (d : disk) : disk := filter (fun x => negb (str_eqb (fst x) p)) d.
Definition disk_paths (d : disk) : list str := map fst d.

Definition attached_unconfirmed (s : st) : list str :=
  map fl (filter (fun r => fstate_eqb (fstt r) FUnconfirmed && negb (is_detached (KFile, fl r) s)) (files s)).

(* the CONFIRMED part of startup.rescan_files: every attached UNCONFIRMED file is hashed and the
   results are applied with cause CONFIRMED (one transaction per hash job in the code; the
   order does not matter for the statement proved) *)
Definition rescan_unconfirmed (d : disk) (s : st) : res st :=
  foldM (fun s p => update_file_hashes CConfirmed [(p, disk_get p d)] s) (attached_unconfirmed s) s.

(* ------------------------------------------------------------------------------------------ *)
(* 4. Cleanup at the end of a build, with the in-memory queue                                  *)
(* ------------------------------------------------------------------------------------------ *)
(* one entry of Workflow.to_be_deleted: path, Some h = remove only if the file still has hash h,
   None = remove unconditionally (volatile) *)
Definition tbd := list (str * option N).

Definition queue_entry (r : frow) : option (str * option N) :=
  match fstt r with
  | FVolatile => Some (fl r, None)
  | FBuilt | FOutdated => match fh r with Some h => Some (fl r, Some h) | None => None end
  | _ => None
  end.
Fixpoint omap {A B} (f : A -> option B) (l : list A) : list B :=
  match l with [] => [] | x :: l' => match f x with Some y => y :: omap f l' | None => omap f l' end end.

(* revert_optional_steps.  [opt]: labels of the attached steps with _implied_need = OPTIONAL
   (computed by the scheduler model, an input here). *)
Definition optional_outputs (opt : list str) (s : st) : list frow :=
  filter (fun r => existsb (fun l => mem_str (fl r) (file_sinks_of_step l s)) opt) (files s).
Definition revert_optional (opt : list str) (s : st) : res (st * tbd) :=
  do s1 <- foldM (fun s l => match sstate_of l s with
                             | Some SPending | None => Ok s
                             | Some _ => set_sstate_raw l SPending s end) opt s;
  let q := omap queue_entry (optional_outputs opt s) in
  do s2 <- foldM (fun s r => match fstt r with
                             | FBuilt | FOutdated => set_fstate_hash (fl r) FPlanned (Some None) s
                             | _ => Ok s end) (optional_outputs opt s) s1;
  Ok (s2, q).

(* delete_detached with File.before_delete: the deleted file rows are queued with the state and
   hash they had (delete_node never changes the row of a node it does not delete) *)
Definition deleted_files (s s' : st) : list frow :=
  filter (fun r => negb (is_some (find_file (fl r) s'))) (files s).
Definition delete_detached_q (s : st) : res (st * tbd) :=
  do s' <- delete_detached s; Ok (s', omap queue_entry (deleted_files s s')).

(* remove_deletable_files on the abstract disk *)
Definition remove_one (d : disk) (e : str * option N) : disk :=
  match snd e with
  | None => disk_remove (fst e) d
  | Some h => match disk_get (fst e) d with
              | Some h' => if h =? h' then disk_remove (fst e) d else d
              | None => d end
  end.
Definition remove_deletable (q : tbd) (d : disk) : disk := fold_left remove_one q d.

(* The cleanup branch of Builder.finalize as a sequence of crash windows.
   W0: nothing committed; W1: revert_optional_steps committed; W2: delete_detached committed,
   files not yet removed; W3: files removed. *)
Inductive window := W0 | W1 | W2 | W3.

Record sys := mkSys { g : st; dk : disk }.

(* state of the world after a kill inside window w of the cleanup of (s, d); memory is lost *)
Definition cleanup_until (w : window) (opt : list str) (x : sys) : res sys :=
  match w with
  | W0 => Ok x
  | W1 => do r <- revert_optional opt (g x); Ok (mkSys (fst r) (dk x))
  | W2 => do r <- revert_optional opt (g x); do r2 <- delete_detached_q (fst r); Ok (mkSys (fst r2) (dk x))
  | W3 => do r <- revert_optional opt (g x); do r2 <- delete_detached_q (fst r);
          Ok (mkSys (fst r2) (remove_deletable (snd r ++ snd r2) (dk x)))
  end.
(* the uninterrupted cleanup *)
Definition cleanup (opt : list str) (x : sys) : res sys := cleanup_until W3 opt x.

(* a restart whose build phase has nothing to run (all required steps are up to date, which is
   the situation at the end of the interrupted build) followed by its own cleanup *)
Definition crash_then_restart (w : window) (opt : list str) (x : sys) : res sys :=
  do y <- cleanup_until w opt x; cleanup opt y.

Definition same_paths (a b : disk) : bool :=
  forallb (fun p => mem_str p (disk_paths b)) (disk_paths a) &&
  forallb (fun p => mem_str p (disk_paths a)) (disk_paths b).

(* "leaving behind no file that the uninterrupted build would have removed" *)
Definition no_orphans_at (w : window) (opt : list str) (x : sys) : Prop :=
  forall y z, cleanup opt x = Ok y -> crash_then_restart w opt x = Ok z ->
              same_paths (dk z) (dk y) = true.

(* ------------------------------------------------------------------------------------------ *)
(* 5. The D6 witness as a transaction history                                                  *)
(* ------------------------------------------------------------------------------------------ *)
Definition s_plan : str := [112;108;97;110].            (* "plan" *)
Definition s_mka : str := [109;107;32;97].              (* "mk a" *)
Definition s_atxt : str := [97;46;116;120;116].         (* "a.txt" *)

(* build 1: plan defines "mk a" -> a.txt; both run.  build 2: the plan no longer defines it. *)
Definition d6_history : list op :=
  [ OpDefineStep root_key s_plan [] [] [] [] NPlan;
    OpDispatch s_plan; OpResetForRerun s_plan;
    OpDefineStep (KStep, s_plan) s_mka [] [] [s_atxt] [] NDefault;
    OpExecEnd s_plan [] CSucceeded [] true false;
    OpDispatch s_mka; OpResetForRerun s_mka;
    OpExecEnd s_mka [] CSucceeded [(s_atxt, Some 7)] true false;
    (* restart: plan.py changed *)
    OpMarkStepPending s_plan; OpDispatch s_plan; OpResetToPending s_plan;
    OpDispatch s_plan; OpResetForRerun s_plan;
    OpExecEnd s_plan [] CSucceeded [] true false ].
Definition d6_state : st := run_ops d6_history (init_st 100).
Definition d6_sys : sys := mkSys d6_state [(s_atxt, 7)].

(* The same defect in the other window (D6b): an optional step whose consumer is dropped.
   build 1: plan defines optional "o" -> o.txt and its consumer "u" (o.txt -> u.txt); all run.
   build 2: the plan only defines "o": u is dropped, o is no longer needed and gets reverted. *)
Definition s_o : str := [111].                          (* "o" *)
Definition s_u : str := [117].                          (* "u" *)
Definition s_otxt : str := [111;46;116;120;116].        (* "o.txt" *)
Definition s_utxt : str := [117;46;116;120;116].        (* "u.txt" *)
Definition d6b_history : list op :=
  [ OpDefineStep root_key s_plan [] [] [] [] NPlan;
    OpDispatch s_plan; OpResetForRerun s_plan;
    OpDefineStep (KStep, s_plan) s_o [] [] [s_otxt] [] NOptional;
    OpDefineStep (KStep, s_plan) s_u [s_otxt] [] [s_utxt] [] NDefault;
    OpExecEnd s_plan [] CSucceeded [] true false;
    OpDispatch s_o; OpResetForRerun s_o;
    OpExecEnd s_o [] CSucceeded [(s_otxt, Some 5)] true false;
    OpDispatch s_u; OpResetForRerun s_u;
    OpExecEnd s_u [] CSucceeded [(s_utxt, Some 6)] true false;
    OpMarkStepPending s_plan; OpDispatch s_plan; OpResetToPending s_plan;
    OpDispatch s_plan; OpResetForRerun s_plan;
    OpDefineStep (KStep, s_plan) s_o [] [] [s_otxt] [] NOptional;
    OpExecEnd s_plan [] CSucceeded [] true false ].
Definition d6b_state : st := run_ops d6b_history (init_st 100).
Definition d6b_sys : sys := mkSys d6b_state [(s_otxt, 5); (s_utxt, 6)].

(* executable form of [no_orphans_at] *)
Definition no_orphans_b (w : window) (opt : list str) (x : sys) : bool :=
  match cleanup opt x, crash_then_restart w opt x with
  | Ok y, Ok z => same_paths (dk z) (dk y)
  | _, _ => true
  end.
