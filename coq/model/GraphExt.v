(* Transactions of stepup/core that write the stored workflow and are NOT in the alphabets op / op_t /
   op_c (found by the writer inventory, translator/gen_writers.py TRANSACTIONS).  Definitions only;
   the bodies of Graph.v / GraphTree.v / GraphCheck.v are untouched.

   op_x = OpC op_c
        | OpSkipOvertaken l       Executor.try_skip_job, "inputs overtaken" branch (a02f82b):
                                  step.set_state(PENDING): CHECKING -> PENDING, hash kept, not deferred
        | OpInvalidateSteps ls    Workflow.process_nglob_changes / startup.rescan_nglobs: for every
                                  registration whose matches changed persist_nglob_matches =
                                  delete_hash; (nglob.data: frame); mark_step_pending -- one transaction
        | OpMarkStepsPending ls   one transaction with several mark_step_pending: the second
                                  transaction of startup.reset_interrupted_steps (attached FAILED
                                  steps), startup.rescan_env_vars, DirectorHandler.start_build_phase
        | OpRevertOptional ls     finalize.revert_optional_steps; ls = the attached steps whose
                                  _implied_need (a scheduling cache outside this model) is OPTIONAL,
                                  as selected by the implementation: the theorems quantify over ALL ls
        | OpResetInterruptedRaw   the FIRST transaction of startup.reset_interrupted_steps (two raw
                                  UPDATEs); the model op OpResetInterrupted of Graph.v is the
                                  composition of both transactions (reset_interrupted_split)
        | OpInitBoot h            Workflow.initialize_boot (one transaction): no-op when plan.py and
                                  the boot step are attached and plan.py is CONFIRMED; otherwise
                                  detach every product of the root, declare plan.py static, apply
                                  the CONFIRMED hash result h, define the boot step
        | OpFrame                 a transaction that executes only `frame` writers of the inventory
                                  (register_nglob, set_outcome, env_var.value, scheduler metadata,
                                  reconcile_targets): the model state does not change *)
From Coq Require Import List NArith Bool.
From SV Require Import lib.Bytes lib.Closure model.Graph model.GraphDump model.GraphInv model.GraphTree
  model.GraphTreeInv model.GraphCheck gen.GenGraph.
Import ListNotations.
Open Scope N_scope.

Definition plan_py : str := [112; 108; 97; 110; 46; 112; 121].            (* "plan.py" *)
Definition boot_label : str := [46; 47; 112; 108; 97; 110; 46; 112; 121].  (* "./plan.py" *)

Definition skip_overtaken (l : str) (s : st) : res st := set_sstate l SPending false s.

Definition invalidate_step (l : str) (s : st) : res st := mark_step_pending l (delete_hash l s).
Definition invalidate_steps (ls : list str) (s : st) : res st := foldM (fun s l => invalidate_step l s) ls s.

Definition mark_steps_pending (ls : list str) (s : st) : res st := foldM (fun s l => mark_step_pending l s) ls s.

(* UPDATE step SET state = FAILED WHERE state = RUNNING; UPDATE step SET state = PENDING WHERE state = CHECKING *)
Definition reset_interrupted_raw (s : st) : res st :=
  do s1 <- foldM (fun s r => match sst r with SRunning => set_sstate_raw (sl r) SFailed s | _ => Ok s end) (steps s) s;
  foldM (fun s r => match sst r with SChecking => set_sstate_raw (sl r) SPending s | _ => Ok s end) (steps s1) s1.

(* the second transaction as the code computes it: workflow.steps(FAILED) = attached FAILED steps *)
Definition attached_failed (s : st) : list str :=
  map sl (filter (fun r => sstate_eqb (sst r) SFailed && negb (is_detached (KStep, sl r) s)) (steps s)).

(* finalize.revert_optional_steps *)
Definition revertible_output (s : st) (f : str) : bool :=
  match fstate_of f s with Some FVolatile | Some FBuilt | Some FOutdated => true | _ => false end.

Definition revert_optional (ls : list str) (s : st) : res st :=
  (* optional_step: attached steps among the selected ones *)
  let sel := filter (fun l => is_some (find_step l s) && negb (is_detached (KStep, l) s)) ls in
  (* optional_to_be_deleted: computed before the updates *)
  let outs := flat_map (fun l => filter (revertible_output s) (file_sinks_of_step l s)) sel in
  (* UPDATE_OPTIONAL_STEPS: raw UPDATE of the state column where state != PENDING *)
  do s1 <- foldM (fun s l => match sstate_of l s with
                             | Some SPending => Ok s
                             | _ => set_sstate_raw l SPending s end) sel s;
  (* UPDATE_OPTIONAL_TO_BE_DELETED: state = PLANNED, hash = NULL where state != VOLATILE *)
  foldM (fun s f => match fstate_of f s with
                    | Some FVolatile | None => Ok s
                    | Some _ => set_fstate_hash f FPlanned (Some None) s end) outs s1.

(* Workflow.initialize_boot *)
Definition boot_present (s : st) : bool :=
  negb (is_detached (KFile, plan_py) s) && is_some (find_node (KFile, plan_py) s) &&
  negb (is_detached (KStep, boot_label) s) && is_some (find_node (KStep, boot_label) s) &&
  match fstate_of plan_py s with Some FConfirmed => true | _ => false end.

Definition init_boot (h : option N) (s : st) : res st :=
  if boot_present s then Ok s
  else
  do s1 <- foldM (fun s k => node_detach k s) (products root_key s) s;
  do s2 <- declare_static_files_t root_key [plan_py] s1;
  (* to_check = the paths that are UNCONFIRMED after the declaration *)
  do s3 <- match fstate_of plan_py s2 with
           | Some FUnconfirmed => update_file_hashes CConfirmed [(plan_py, h)] s2
           | _ => Ok s2
           end;
  define_step_t root_key boot_label [plan_py] [] [] [] NPlan s3.

Inductive op_x :=
| OpC (o : op_c)
| OpSkipOvertaken (l : str)
| OpInvalidateSteps (ls : list str)
| OpMarkStepsPending (ls : list str)
| OpRevertOptional (ls : list str)
| OpResetInterruptedRaw
| OpInitBoot (h : option N)
| OpFrame.

(* ---- 84081f2 (fix of D39), on top of the older layers whose bodies stay as they are ---------------
   (a) trigger step_node_undefer_reattached: AFTER UPDATE OF detached ON node WHEN OLD.detached AND NOT
       NEW.detached: the steps that consume the node lose the deferred flag.  Modelled as a pass at
       the end of the transaction over the nodes that were detached before it and are attached after
       it (no transaction of the alphabet re-attaches a node and detaches it again, and the edges
       file -> step of a re-attached file are not touched after its re-attachment except for the step
       that is being re-created, whose row is reset anyway).
   (b) Executor.validate_dynamic_job: deferred = Step.has_unusable_dynamic_input() (a dynamic input
       that is detached or not CONFIRMED / BUILT), no longer always TRUE. *)
Definition reattached_keys (s s' : st) : list key :=
  map nk (filter (fun n => negb (ndet n) &&
                           match find_node (nk n) s with Some m => ndet m | None => false end) (nodes s')).
Definition undefer_row (r : srow) : srow := mkS (sl r) (sst r) (sneed r) false (sdc r) (shold r).

(* (a') the refinement of the trigger (findings.d/C10-D39-refine.patch; selected by the generated flag
   GenGraph.gen_undefer_refined, the translator recognises both bodies): ... AND NOT EXISTS
   (unusable_dynamic_input_sql(step.node)): the flag is only cleared when the step has no dynamic input
   left that is detached or not CONFIRMED / BUILT.  The trigger is a ROW trigger: it sees the tables at
   the moment the node row is updated.  Two kinds of re-attachment exist:
   - RECURSIVELY_SET_DETACHED / Node.reattach (full recycle): no file state changes in that statement;
     the firing for the LAST re-attached source of a step sees the final flags of all its sources;
   - Trellis.create on a detached node (partial recycle of a file): the trigger fires BEFORE
     File.initialize_row gives the row its new state (UNCONFIRMED / PLANNED / VOLATILE, or OUTDATED
     through mark_file_outdated, which wakes the consumers anyway): it sees the OLD state of that
     file.  A file that was usable and is re-created always changes its state, which is how the pass
     recognises it (`recreated`).  With two re-created dynamic inputs of the same step, at either
     firing the other one is still detached or already re-initialised: the flag stays.
   So: evaluated on (state before, state after) of the transaction, a dynamic input counts as usable
   when it is attached afterwards and its state -- the OLD one when it was re-created, else the new
   one -- is CONFIRMED or BUILT, and at most one dynamic input was re-created. *)
Definition usable_state (f : fstate) : bool := match f with FConfirmed | FBuilt => true | _ => false end.
Definition ofstate_eqb (a b : option fstate) : bool :=
  match a, b with Some x, Some y => fstate_eqb x y | None, None => true | _, _ => false end.
Definition dyn_inputs (step : str) (s' : st) : list key :=
  map dsrc (filter (fun d => key_eqb (dsnk d) (KStep, step) && ddyn d && is_some (find_node (dsrc d) s') &&
                             is_some (find_file (snd (dsrc d)) s')) (deps s')).
Definition recreated (s s' : st) (k : key) : bool :=
  mem_key k (reattached_keys s s') && negb (ofstate_eqb (fstate_of (snd k) s) (fstate_of (snd k) s')).
Definition nothing_left_to_wait_for (s s' : st) (step : str) : bool :=
  let dyn := dyn_inputs step s' in
  Nat.leb (length (filter (recreated s s') dyn)) 1 &&
  forallb (fun d => negb (is_detached d s') &&
                    match (if recreated s s' d then fstate_of (snd d) s else fstate_of (snd d) s') with
                    | Some f => usable_state f
                    | None => false end) dyn.

Definition undefer_labels_with (refined : bool) (s s' : st) : list str :=
  map sl (filter (fun r => sdef r && existsb (fun k => has_dep k (KStep, sl r) s') (reattached_keys s s') &&
                           (negb refined || nothing_left_to_wait_for s s' (sl r)))
                 (steps s')).
Definition undefer_post_with (refined : bool) (s s' : st) : st :=
  fold_left (fun a l => upd_step l undefer_row a) (undefer_labels_with refined s s') s'.
(* the form of the trigger that the source has today *)
Definition undefer_labels : st -> st -> list str := undefer_labels_with gen_undefer_refined.
Definition undefer_post : st -> st -> st := undefer_post_with gen_undefer_refined.

Definition has_unusable_dynamic_input (step : str) (s : st) : bool :=
  existsb (fun d => key_eqb (dsnk d) (KStep, step) && ddyn d && is_some (find_node (dsrc d) s) &&
                    match find_file (snd (dsrc d)) s with
                    | Some r => is_detached (dsrc d) s ||
                                negb (match fstt r with FConfirmed | FBuilt => true | _ => false end)
                    | None => false end) (deps s).

Definition step_op_x0 (o : op_x) (s : st) : res st :=
  match o with
  | OpC o => step_op_c o s
  | OpSkipOvertaken l => skip_overtaken l s
  | OpInvalidateSteps ls => invalidate_steps ls s
  | OpMarkStepsPending ls => mark_steps_pending ls s
  | OpRevertOptional ls => revert_optional ls s
  | OpResetInterruptedRaw => reset_interrupted_raw s
  | OpInitBoot h => init_boot h s
  | OpFrame => Ok s
  end.
Definition step_op_x (o : op_x) (s : st) : res st :=
  match o with
  | OpC (OpT (OpBase (OpValidatePending l))) => set_sstate l SPending (has_unusable_dynamic_input l s) s
  | _ => match step_op_x0 o s with
         | Ok s' => Ok (undefer_post s s')
         | Usage t => Usage t
         | Internal t => Internal t
         end
  end.
Definition apply_op_x (s : st) (o : op_x) : st := match step_op_x o s with Ok s' => s' | _ => s end.
Definition run_ops_x (ops : list op_x) (s : st) : st := fold_left apply_op_x ops s.

Definition protocol_hold_x_b (s : st) (o : op_x) : bool :=
  match o with OpC o => protocol_hold_c_b s o | _ => true end.
Fixpoint protocol_run_x_b (s : st) (ops : list op_x) : bool :=
  match ops with [] => true | o :: ops' => protocol_hold_x_b s o && protocol_run_x_b (apply_op_x s o) ops' end.

(* build-loop protocol for op_x (I4, I5c): that of the older layers; the new operations need none *)
Definition protocol_ok_x (s : st) (o : op_x) : bool :=
  match o with OpC o => protocol_ok_c s o | _ => true end.
Fixpoint protocol_ok_run_x (s : st) (ops : list op_x) : bool :=
  match ops with [] => true | o :: ops' => protocol_ok_x s o && protocol_ok_run_x (apply_op_x s o) ops' end.

(* trace checker of the E2 correspondence for this alphabet *)
Fixpoint first_bad_x (i : nat) (s : st) (tr : list (op_x * outcome * dump)) : option nat :=
  match tr with
  | [] => None
  | (o, oc, d) :: tr' =>
    let r := step_op_x o s in
    let s' := match r with Ok x => x | _ => s end in
    if outcome_eqb (outcome_of r) oc && dump_eqb (dump_of s') d then first_bad_x (S i) s' tr'
    else Some i
  end.
Definition check_trace_x (cap : N) (tr : list (op_x * outcome * dump)) : bool :=
  match first_bad_x 0 (init_st cap) tr with None => true | Some _ => false end.
Fixpoint all_prefixes_ok_x (p : st -> bool) (s : st) (ops : list op_x) : bool :=
  p s && match ops with [] => true | o :: ops' => all_prefixes_ok_x p (apply_op_x s o) ops' end.

(* I4 right after every startup check (as repaired_after_check of GraphCheck.v, for op_x) *)
Fixpoint repaired_after_check_x (s : st) (ops : list op_x) : bool :=
  match ops with
  | [] => true
  | o :: ops' =>
    let s' := apply_op_x s o in
    (match o, step_op_x o s with
     | OpC OpCheckConsistency, Ok _ => inv_succeeded_b s'
     | _, _ => true end) && repaired_after_check_x s' ops'
  end.

(* the code's own consistency check, as a predicate: what Trellis._check_consistency and the strict
   Workflow._check_consistency accept *)
Definition code_check_accepts_b (s : st) : bool :=
  trellis_consistent_b s && match succeeded_with_bad_output s with [] => true | _ => false end.
