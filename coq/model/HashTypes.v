(* C13: data types shared by the generated file gen/GenHash.v and the model model/Hash.v.
   Definitions only.

   Strings are UTF-8 byte strings (list N); Python sorts str keys by code point, UTF-8 preserves
   that order (assumption, exercised by the correspondence with non-ASCII names). *)
From Coq Require Import List NArith Bool.
From SV Require Import lib.Bytes.
Import ListNotations.
Open Scope N_scope.

(* What HashWords.update accepts: bytes, str (hashed as UTF-8) or None. *)
Inductive word := WBytes (bs : str) | WStr (s : str) | WNone.

Definition word_eqb (a b : word) : bool :=
  match a, b with
  | WBytes x, WBytes y => str_eqb x y
  | WStr x, WStr y => str_eqb x y
  | WNone, WNone => true
  | _, _ => false
  end.

(* The part of a FileHash that takes part in equality (attrs eq) and in the step digests:
   digest, mode, size.  mtime and inode are eq=False and are never hashed. *)
Record fsig := mk_fsig { fs_digest : str; fs_mode : N; fs_size : N }.

(* A full FileHash, as used by FileHash.refreshed.  mtime is the float's bit pattern. *)
Record fhash := mk_fhash { fh_digest : str; fh_mode : N; fh_mtime : N; fh_size : N; fh_inode : N }.
Definition fh_sig (h : fhash) : fsig := mk_fsig (fh_digest h) (fh_mode h) (fh_size h).

(* The fields of os.stat_result that refreshed reads. *)
Record fstat := mk_fstat { st_mode : N; st_mtime : N; st_size : N; st_ino : N }.

(* A step configuration = the arguments of StepHash.from_inp. The association lists are the
   dict items in the order in which the caller supplied (inserted) them. The label contains the
   command and the working directory (Step.adjust_label appends "  # wd=<dir>"). *)
Record cfg := mk_cfg {
  cfg_label : str;
  cfg_shell : bool;
  cfg_inps : list (str * fsig);
  cfg_envs : list (str * option str);   (* None: the variable is not defined *)
  cfg_ovrs : list (str * str)
}.

Definition opt_word (v : option str) : word := match v with Some s => WStr s | None => WNone end.

Definition nonempty {A : Type} (l : list A) : bool := match l with [] => false | _ :: _ => true end.
