(* C01, graph level: the invariant K (NoStaleSuccess) as an executable boolean on model/Graph.v,
   a quiescence predicate, and the operation sequences of the two known defects (D4, D9).
   Definitions only; proofs are in proofs/NoStaleProofs.v. *)
From Coq Require Import List NArith Bool.
From SV Require Import lib.Bytes model.Graph.
Import ListNotations.
Open Scope N_scope.

(* an input edge file -> step is usable: the file is ATTACHED and BUILT or CONFIRMED *)
Definition input_ok (f : key) (s : st) : bool :=
  negb (is_detached f s) &&
  match fstate_of (snd f) s with Some FBuilt | Some FConfirmed => true | _ => false end.

Definition file_inputs_of_step (l : str) (s : st) : list key :=
  filter (fun k => kind_eqb (fst k) KFile) (sources_of (KStep, l) s).

(* an attached output is BUILT (regular) or VOLATILE *)
Definition output_ok (f : str) (s : st) : bool :=
  is_detached (KFile, f) s ||
  match fstate_of f s with Some FBuilt | Some FVolatile => true | _ => false end.

(* K for one step row: an attached SUCCEEDED step has a stored hash, only usable inputs and only
   built outputs *)
Definition K_step_b (s : st) (r : srow) : bool :=
  negb (sstate_eqb (sst r) SSucceeded) || is_detached (KStep, sl r) s ||
  (has_hash (sl r) s &&
   forallb (fun f => input_ok f s) (file_inputs_of_step (sl r) s) &&
   forallb (fun f => output_ok f s) (file_sinks_of_step (sl r) s)).

Definition K_b (s : st) : bool := forallb (K_step_b s) (steps s).

(* the steps that violate K (diagnostics and witnesses) *)
Definition K_violators (s : st) : list str := map sl (filter (fun r => negb (K_step_b s r)) (steps s)).

(* nothing is executing *)
Definition quiescent_b (s : st) : bool :=
  forallb (fun r => match sst r with SRunning | SChecking => false | _ => true end) (steps s).

(* an attached PENDING step all of whose inputs are usable could still be dispatched *)
Definition runnable_b (s : st) (r : srow) : bool :=
  sstate_eqb (sst r) SPending && negb (is_detached (KStep, sl r) s) && negb (sdef r) &&
  forallb (fun f => input_ok f s) (file_inputs_of_step (sl r) s).
Definition finished_b (s : st) : bool :=
  quiescent_b s && forallb (fun r => negb (runnable_b s r)) (steps s).

(* ------------------------------------------------------------------------------------------ *)
(* Defect D4 as a history of transactions (the alphabet of Graph.v)                            *)
(* ------------------------------------------------------------------------------------------ *)
Definition s_plan_py : str := [112;108;97;110;46;112;121].          (* "plan.py"   *)
Definition s_plan : str := [46;47;112;108;97;110;46;112;121].       (* "./plan.py" *)
Definition s_x : str := [120;46;116;120;116].                       (* "x.txt"     *)
Definition s_y : str := [121;46;116;120;116].                       (* "y.txt"     *)
Definition s_cat : str := [99;97;116].                              (* "cat"       *)
Definition s_S : str := [83].                                       (* "S"         *)
Definition s_VA : str := [86;65].
Definition s_VB : str := [86;66].
Definition k_plan : key := (KStep, s_plan).

(* boot: plan.py static + confirmed, boot step defined, dispatched and started *)
Definition boot_ops : list op :=
  [ OpDeclareStatic root_key [s_plan_py];
    OpUpdateHashes CConfirmed [(s_plan_py, Some 1)];
    OpDefineStep root_key s_plan [s_plan_py] [] [] [] NPlan;
    OpDispatch s_plan;
    OpResetForRerun s_plan ].

(* build 1: the plan declares static x.txt and step cat: x.txt -> y.txt; everything succeeds *)
Definition d4_build1 : list op :=
  boot_ops ++
  [ OpDeclareStatic k_plan [s_x];
    OpUpdateHashes CConfirmed [(s_x, Some 2)];
    OpDefineStep k_plan s_cat [s_x] [] [s_y] [] NDefault;
    OpExecEnd s_plan [] CSucceeded [] true false;
    OpDispatch s_cat;
    OpResetForRerun s_cat;
    OpExecEnd s_cat [] CSucceeded [(s_y, Some 3)] true false;
    OpDeleteDetached ].

(* edit: plan.py changes (it no longer declares x.txt); restart: the plan is found changed, its
   stored hash no longer matches, it runs again and re-defines cat exactly as before *)
Definition d4_build2 : list op :=
  [ OpUpdateHashes CExternal [(s_plan_py, Some 4)];
    OpDispatch s_plan;                       (* has a hash: CHECKING *)
    OpResetToPending s_plan;                 (* try_skip_job: input digest differs *)
    OpDispatch s_plan;                       (* RUNNING *)
    OpResetForRerun s_plan;                  (* detaches static x.txt and step cat *)
    OpDefineStep k_plan s_cat [s_x] [] [s_y] [] NDefault;   (* full recycle: SUCCEEDED kept *)
    OpExecEnd s_plan [] CSucceeded [] true false;
    OpDeleteDetached ].

Definition d4_ops : list op := d4_build1 ++ d4_build2.

(* the same final plan from scratch: cat is defined on an input nobody declares *)
Definition d4_scratch : list op :=
  boot_ops ++
  [ OpDefineStep k_plan s_cat [s_x] [] [s_y] [] NDefault;
    OpExecEnd s_plan [] CSucceeded [] true false;
    OpDeleteDetached ].

(* ------------------------------------------------------------------------------------------ *)
(* Defect D9: a step redefined with fewer env vars keeps the old env_var rows                  *)
(* ------------------------------------------------------------------------------------------ *)
Definition d9_build1 : list op :=
  boot_ops ++
  [ OpDefineStep k_plan s_S [] [s_VA; s_VB] [] [] NDefault;
    OpExecEnd s_plan [] CSucceeded [] true false;
    OpDispatch s_S; OpResetForRerun s_S; OpExecEnd s_S [] CSucceeded [] true false;
    OpDeleteDetached ].
Definition d9_build2 : list op :=
  [ OpUpdateHashes CExternal [(s_plan_py, Some 4)];
    OpDispatch s_plan; OpResetToPending s_plan; OpDispatch s_plan; OpResetForRerun s_plan;
    OpDefineStep k_plan s_S [] [s_VA] [] [] NDefault;        (* partial recycle *)
    OpExecEnd s_plan [] CSucceeded [] true false;
    OpDispatch s_S; OpResetForRerun s_S; OpExecEnd s_S [] CSucceeded [] true false;
    OpDeleteDetached ].
Definition d9_ops : list op := d9_build1 ++ d9_build2.
Definition d9_scratch : list op :=
  boot_ops ++
  [ OpDefineStep k_plan s_S [] [s_VA] [] [] NDefault;
    OpExecEnd s_plan [] CSucceeded [] true false;
    OpDispatch s_S; OpResetForRerun s_S; OpExecEnd s_S [] CSucceeded [] true false;
    OpDeleteDetached ].

Definition env_names_of (l : str) (s : st) : list str :=
  map ename (filter (fun e => str_eqb (estep e) l) (envs s)).

(* every operation of a list is accepted (Ok) from the given state *)
Fixpoint all_ok (ops : list op) (s : st) : bool :=
  match ops with
  | [] => true
  | o :: ops' => match step_op o s with Ok s' => all_ok ops' s' | _ => false end
  end.

(* K after every transaction of a history (for the E2 tie: compared with K computed from every
   real database dump of the trace) *)
Fixpoint K_violators_trace_gen {O : Type} (ap : st -> O -> st) (ops : list O) (s : st)
  : list (list str) :=
  match ops with
  | [] => []
  | o :: rest => let s' := ap s o in K_violators s' :: K_violators_trace_gen ap rest s'
  end.
Definition K_violators_trace (ops : list op) (s : st) : list (list str) :=
  K_violators_trace_gen apply_op ops s.
Definition strs_set_eqb (a b : list str) : bool :=
  Nat.eqb (length a) (length b) && forallb (fun x => existsb (str_eqb x) b) a &&
  forallb (fun x => existsb (str_eqb x) a) b.
Fixpoint vtrace_eqb (a b : list (list str)) : bool :=
  match a, b with
  | [], [] => true
  | x :: a', y :: b' => strs_set_eqb x y && vtrace_eqb a' b'
  | _, _ => false
  end.
