(* C14 model, part (d): the WHOLE reaction up to the moment steps are dispatched.

   watch side   (director.py DirectorHandler.start_build_phase + watcher.py Watcher.run_once):
       record_change for every queued item, on the database as the finished build phase left it
         (items queued while that build was still running carry it_build = true);
       start_build_phase, first transaction: every attached FAILED step -> mark_step_pending;
       end_watching -> the commit of run_once (EXTERNAL re-hash of updated|deleted, pruning,
         process_nglob_changes) -- model/Watch.v watch_commit;
       builder.resume: the build phase.
   restart side (startup.py resume_from_db, called by director.serve before the first build phase):
       reset_interrupted_steps (RUNNING -> FAILED, CHECKING -> PENDING, FAILED -> mark_step_pending);
       watch_known_dirs (no effect on the graph: only dir_queue, see model/WatchSet.v);
       rescan_env_vars (steps whose recorded variable differs from os.getenv -> mark_step_pending,
         value updated) -- ONLY on this side;
       rescan_files + rescan_nglobs -- model/Watch.v startup_rescan;
       the build phase.
   The build phase is ONE function `build` of the persistent state on both sides: that it does not
   depend on the schedule is C02; that the in-memory scheduler of a director that stayed alive behaves
   like a fresh one is not modelled (compared end to end by the E3 oracle, harness/c14_sys.py).
   Executable definitions only. *)
From Coq Require Import List NArith Bool.
From SV Require Import lib.Bytes gen.GenWatch model.Watch.
Import ListNotations.
Open Scope N_scope.

Definition ostr_eqb (a b : option str) : bool :=
  match a, b with Some x, Some y => str_eqb x y | None, None => true | _, _ => false end.

(* one row of env_var joined with its step node *)
Record erow : Set := mk_erow { e_step : str; e_attached : bool; e_name : str; e_value : option str }.

Section Rebuild.
  Variable R : Type.                       (* dependency edges, stored step hashes, ... *)
  (* the `rest` of model/Watch.v's gstate: step rows, env_var rows, R *)
  Definition below : Type := (list srow * (list erow * R))%type.
  Definition G : Type := gstate below.
  (* the view mark_step_pending works on: step rows first (model/Watch.v FailedSteps) *)
  Definition SR : Type := (list srow * (list fnode * (list erow * R)))%type.

  Variable on_action : action -> path -> list fnode * below -> list fnode * below.
  Variable on_nglob_change : str -> list fnode * below -> list fnode * below.
  (* Workflow.mark_step_pending: step row, OUTDATED cascade over the file rows, consumers ... *)
  Variable mark_step_pending : str -> SR -> SR.
  Variable hash_fs : path -> option fh.
  Variable exists_fs : path -> bool.
  Variable matches : N -> path -> bool.
  Variable universe : list path.
  Variable getenv : str -> option str.     (* os.getenv in the restarted director *)
  Variable outcome : Type.                 (* outputs, graph and return code after the build phase *)
  Variable build : G -> outcome.

  Definition to_sr (g : G) : SR := (fst (g_rest g), (g_files g, snd (g_rest g))).
  Definition of_sr (ng : list ngrow) (x : SR) : G := mk_g (fst (snd x)) ng (fst x, snd (snd x)).

  (* start_build_phase, first transaction *)
  Definition fail_watch (g : G) : G :=
    of_sr (g_nglobs g) (start_build_pre _ mark_step_pending (to_sr g)).
  (* startup.reset_interrupted_steps *)
  Definition fail_restart (g : G) : G :=
    of_sr (g_nglobs g) (resume_reset _ mark_step_pending (to_sr g)).

  (* startup.rescan_env_vars *)
  Definition env_changed (e : erow) : bool :=
    e_attached e && negb (ostr_eqb (getenv (e_name e)) (e_value e)).
  Definition g_envs (g : G) : list erow := fst (snd (g_rest g)).
  Definition set_envs (g : G) (envs : list erow) : G :=
    mk_g (g_files g) (g_nglobs g) (fst (g_rest g), (envs, snd (snd (g_rest g)))).
  Definition rescan_env (g : G) : G :=
    match filter env_changed (g_envs g) with
    | [] => g
    | changed =>
        let g1 := of_sr (g_nglobs g)
                    (fold_left (fun acc l => mark_step_pending l acc) (dedup (map e_step changed) []) (to_sr g)) in
        set_envs g1 (map (fun e => if env_changed e
                                   then mk_erow (e_step e) (e_attached e) (e_name e) (getenv (e_name e))
                                   else e) (g_envs g1))
    end.

  (* graph state right before steps are dispatched; None = the director died with a ConsistencyError *)
  Definition watch_rebuild_pre_with (commit : G -> list path -> list path -> option G)
                                    (g : G) (items : list item) : option G :=
    let w := fold_changes (change_is_relevant below matches g) (relevant_paths_under below g) items ws_empty in
    commit (fail_watch g) (ws_updated w) (ws_deleted w).
  (* the commit is the generated statement list of run_once (model/Watch.v run_commit commit_program) *)
  Definition watch_rebuild_pre : G -> list item -> option G :=
    watch_rebuild_pre_with (watch_commit below on_action on_nglob_change hash_fs matches universe).

  Definition restart_pre (g : G) : option G :=
    startup_rescan below on_action on_nglob_change hash_fs exists_fs matches universe
                   (rescan_env (fail_restart g)).

  Definition watch_rebuild (g : G) (items : list item) : option outcome :=
    option_map build (watch_rebuild_pre g items).
  Definition restart (g : G) : option outcome := option_map build (restart_pre g).
End Rebuild.
