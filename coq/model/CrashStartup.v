(* model/CrashStartup.v -- C05: the startup sequence of a restarted director, transaction by
   transaction, and what a kill between two of its commits leaves behind.
   Definitions only (proofs: proofs/CrashStartupGen.v, proofs/CrashStartupProofs.v).

   Code modelled (re-read at /repo d760e3e), startup.resume_from_db on a database that already
   holds the boot step (Workflow.initialize_boot returns False and writes nothing):

     reset_interrupted_steps   txn R1: UPDATE RUNNING -> FAILED; UPDATE CHECKING -> PENDING;
                                       read workflow.steps(FAILED)
                               txn R2: mark_step_pending for every attached FAILED step
     watch_known_dirs          read only
     rescan_env_vars           a list of `async with workflow.db` blocks of statements
                                 1 = SELECT the env_var rows of attached steps
                                 2 = mark_step_pending for every step with a changed variable
                                 3 = UPDATE env_var SET value = <value seen now> for the changed rows
                               The block structure is GENERATED from the source
                               (GenCrash.rescan_env_vars_blocks); what the rows read are compared
                               with (os.getenv) is computed in memory between the blocks.
     rescan_files              read; then one hash job per file; a job whose result differs from
                               the stored hash (or whose row is UNCONFIRMED) commits ONE
                               transaction: Workflow.update_file_hashes {path: new} with cause
                               EXTERNAL (CONFIRMED for a stray UNCONFIRMED row), which stores the
                               new hash and marks the affected steps in the same transaction
     rescan_nglobs             read; then ONE transaction: for every registration whose fresh scan
                               differs from the stored matches: Step.delete_hash, UPDATE nglob SET
                               data, mark_step_pending (Workflow.persist_nglob_matches)

   The *evidence* of a change is what the database still remembers of the world as it was at the
   last build: step states RUNNING / CHECKING / FAILED, env_var.value, file.hash (+ UNCONFIRMED),
   nglob.data.  The *world* (environment, disk, fresh glob scans) does not change during startup.
   Everything the director holds in memory between two transactions is lost by a kill. *)
From Coq Require Import List NArith Bool.
From SV Require Import lib.Bytes model.Graph model.GraphInv model.GraphDump model.Crash.
Import ListNotations.
Open Scope N_scope.

(* ------------------------------------------------------------------------------------------ *)
(* 1. Durable state and world                                                                  *)
(* ------------------------------------------------------------------------------------------ *)
(* env_var row: (step label, variable name, stored value id; None = the variable was unset) *)
Record erow := mkEV { ev_step : str; ev_name : str; ev_val : option N }.
(* nglob row: (row id, registering step, id of the stored match set) *)
Record nrow := mkNG { ng_id : N; ng_step : str; ng_data : N }.

(* Graph.st does not carry the value column of env_var nor the nglob table: they are added here *)
Record xst := mkX { xg : st; xenv : list erow; xng : list nrow }.
Definition set_xg (x : xst) (g' : st) : xst := mkX g' (xenv x) (xng x).
Definition set_xenv (x : xst) (e : list erow) : xst := mkX (xg x) e (xng x).
Definition set_xng (x : xst) (n : list nrow) : xst := mkX (xg x) (xenv x) n.

(* what the restarted director observes outside the database *)
Record world := mkW {
  w_env : list (str * N);        (* os.environ: name -> value id *)
  w_disk : disk;                 (* path -> content id (Crash.disk) *)
  w_glob : list (N * N) }.       (* nglob row id -> id of the freshly scanned match set *)

Definition getenv (w : world) (name : str) : option N :=
  match find (fun p => str_eqb (fst p) name) (w_env w) with Some p => Some (snd p) | None => None end.
Definition scan_glob (w : world) (i : N) : option N :=
  match find (fun p => fst p =? i) (w_glob w) with Some p => Some (snd p) | None => None end.
Definition oN_eqb (a b : option N) : bool :=
  match a, b with Some x, Some y => x =? y | None, None => true | _, _ => false end.

(* a transaction on the durable state: the graph part through a Graph.v function *)
Definition lift (f : st -> res st) (x : xst) : res xst := do g' <- f (xg x); Ok (set_xg x g').

(* A phase of the startup sequence: from the durable state at its start it computes (reads, then
   in-memory work) the list of transactions it is going to commit, in order.  A transaction is a
   function on the durable state; the memory it depends on is closed over. *)
Definition txn := xst -> res xst.
Definition phase := xst -> list txn.

Definition run_items (items : list txn) (x : xst) : res xst := foldM (fun x t => t x) items x.
Definition run_phase (ph : phase) (x : xst) : res xst := run_items (ph x) x.
Definition run_phases (phs : list phase) (x : xst) : res xst := foldM (fun x ph => run_phase ph x) phs x.

(* The durable state after a kill right after the k-th commit of the sequence (k = 0: before the
   first): the committed prefix.  Memory is lost: a restart recomputes every phase from the
   durable state it finds.  A k beyond the last commit is the complete sequence. *)
Fixpoint crash_at (phs : list phase) (k : nat) (x : xst) : res xst :=
  match phs with
  | [] => Ok x
  | ph :: rest =>
    let items := ph x in
    if Nat.leb k (length items) then run_items (firstn k items) x
    else do x' <- run_items items x; crash_at rest (k - length items) x'
  end.

(* ------------------------------------------------------------------------------------------ *)
(* 2. reset_interrupted_steps: two transactions                                                *)
(* ------------------------------------------------------------------------------------------ *)
(* the two UPDATE statements (exactly the first two folds of Graph.reset_interrupted) *)
Definition reset_txn1 (g : st) : res st :=
  do s1 <- foldM (fun s r => match sst r with SRunning => set_sstate_raw (sl r) SFailed s | _ => Ok s end) (steps g) g;
  foldM (fun s r => match sst r with SChecking => set_sstate_raw (sl r) SPending s | _ => Ok s end) (steps s1) s1.
(* the FAILED loop (exactly the third fold of Graph.reset_interrupted) *)
Definition reset_txn2 (g : st) : res st :=
  foldM (fun s r => match sstate_of (sl r) s with
                    | Some SFailed => if is_detached (KStep, sl r) s then Ok s else mark_step_pending (sl r) s
                    | _ => Ok s end) (steps g) g.
Definition phase_reset : phase := fun _ => [lift reset_txn1; lift reset_txn2].

(* ------------------------------------------------------------------------------------------ *)
(* 3. rescan_env_vars: interpreter of the generated block structure                            *)
(* ------------------------------------------------------------------------------------------ *)
Definition env_uses (x : xst) : list erow :=
  filter (fun r => negb (is_detached (KStep, ev_step r) (xg x))) (xenv x).
Definition env_row_changed (w : world) (r : erow) : bool := negb (oN_eqb (getenv w (ev_name r)) (ev_val r)).
Definition env_changed (w : world) (rows : list erow) : list erow := filter (env_row_changed w) rows.

(* dict keyed by step: first appearance order *)
Fixpoint dedup_strs (l : list str) : list str :=
  match l with [] => [] | x :: l' => x :: filter (fun y => negb (str_eqb y x)) (dedup_strs l') end.

(* UPDATE env_var SET value = ? WHERE node = ? AND name = ?  for every changed row *)
Definition env_store (w : world) (changed : list erow) (tbl : list erow) : list erow :=
  map (fun r => if existsb (fun c => str_eqb (ev_step c) (ev_step r) && str_eqb (ev_name c) (ev_name r)) changed
                then mkEV (ev_step r) (ev_name r) (getenv w (ev_name r)) else r) tbl.

(* memory of rescan_env_vars between its transactions: the rows read (None: nothing read yet) *)
Definition emem := option (list erow).

Definition env_stmt (w : world) (code : N) (m : emem) (x : xst) : res (emem * xst) :=
  match code with
  | 1 => Ok (Some (env_uses x), x)
  | 2 => match m with
         | None => Internal 310                      (* NameError: rows used before being read *)
         | Some rows =>
           do g' <- foldM (fun g l => mark_step_pending l g) (dedup_strs (map ev_step (env_changed w rows))) (xg x);
           Ok (m, set_xg x g')
         end
  | 3 => match m with
         | None => Internal 310
         | Some rows => Ok (m, set_xenv x (env_store w (env_changed w rows) (xenv x)))
         end
  | _ => Internal 311
  end.

Fixpoint env_block (w : world) (b : list N) (m : emem) (x : xst) : res (emem * xst) :=
  match b with
  | [] => Ok (m, x)
  | c :: b' => do r <- env_stmt w c m x; env_block w b' (fst r) (snd r)
  end.

(* the transactions of the phase, each closed over the memory it starts with *)
Fixpoint env_items (w : world) (bs : list (list N)) (m : emem) (x : xst) : list txn :=
  match bs with
  | [] => []
  | b :: bs' =>
    (fun y => do r <- env_block w b m y; Ok (snd r)) ::
    match env_block w b m x with
    | Ok r => env_items w bs' (fst r) (snd r)
    | _ => []
    end
  end.
Definition phase_env (blocks : list (list N)) (w : world) : phase := fun x => env_items w blocks None x.

(* ------------------------------------------------------------------------------------------ *)
(* 4. rescan_files: one transaction per hash job with something to apply                       *)
(* ------------------------------------------------------------------------------------------ *)
Definition rescanned (f : fstate) : bool := match f with FPlanned | FVolatile => false | _ => true end.

(* Executor._run_hash_job inside its transaction, with _is_stale_confirmation *)
Definition hash_job_txn (c : cause) (p : str) (h : option N) (g : st) : res st :=
  let stale := match c with
               | CConfirmed => match fstate_of p g with
                               | Some FUnconfirmed | Some FConfirmed | Some FMissing => false
                               | _ => true end
               | _ => false end in
  if stale then Ok g else update_file_hashes c [(p, h)] g.

(* the job of one file row: None when the result is not applied (unchanged EXTERNAL result) *)
Definition file_job (w : world) (g : st) (r : frow) : option (cause * str * option N) :=
  if rescanned (fstt r) && negb (is_detached (KFile, fl r) g) then
    let new := disk_get (fl r) (w_disk w) in
    if fstate_eqb (fstt r) FUnconfirmed then Some (CConfirmed, fl r, new)
    else if oN_eqb (fh r) new then None else Some (CExternal, fl r, new)
  else None.
Definition file_jobs (w : world) (g : st) : list (cause * str * option N) := omap (file_job w g) (files g).
Definition job_txn (j : cause * str * option N) : txn := lift (hash_job_txn (fst (fst j)) (snd (fst j)) (snd j)).
Definition phase_files (w : world) : phase := fun x => map job_txn (file_jobs w (xg x)).

(* ------------------------------------------------------------------------------------------ *)
(* 5. rescan_nglobs: one transaction for all changed registrations                             *)
(* ------------------------------------------------------------------------------------------ *)
Definition ng_uses (x : xst) : list nrow :=
  filter (fun r => negb (is_detached (KStep, ng_step r) (xg x))) (xng x).
Definition ng_row_changed (w : world) (r : nrow) : bool :=
  match scan_glob w (ng_id r) with Some d => negb (d =? ng_data r) | None => false end.
Definition ng_store (w : world) (i : N) (tbl : list nrow) : list nrow :=
  map (fun r => if ng_id r =? i
                then mkNG (ng_id r) (ng_step r) (match scan_glob w i with Some d => d | None => ng_data r end)
                else r) tbl.
(* Workflow.persist_nglob_matches: delete_hash, UPDATE nglob SET data, mark_step_pending *)
Definition persist_nglob (w : world) (x : xst) (r : nrow) : res xst :=
  let g1 := delete_hash (ng_step r) (xg x) in
  let n1 := ng_store w (ng_id r) (xng x) in
  do g2 <- mark_step_pending (ng_step r) g1; Ok (mkX g2 (xenv x) n1).
Definition nglob_txn (w : world) (changed : list nrow) : txn := fun x => foldM (persist_nglob w) changed x.
Definition phase_nglobs (w : world) : phase := fun x =>
  match filter (ng_row_changed w) (ng_uses x) with
  | [] => []
  | ch => [nglob_txn w ch]
  end.

(* ------------------------------------------------------------------------------------------ *)
(* 6. The sequence                                                                             *)
(* ------------------------------------------------------------------------------------------ *)
Definition startup_phases (env_blocks : list (list N)) (w : world) : list phase :=
  [phase_reset; phase_env env_blocks w; phase_files w; phase_nglobs w].
Definition startup (env_blocks : list (list N)) (w : world) (x : xst) : res xst :=
  run_phases (startup_phases env_blocks w) x.

(* the block structure the theorems are proved for: [SELECT] [mark; UPDATE] *)
Definition env_blocks_expected : list (list N) := [[1]; [2; 3]].
(* the structure with the UPDATE moved into the reading transaction *)
Definition env_blocks_store_early : list (list N) := [[1; 3]; [2]].

Definition pending_steps (x : xst) : list str :=
  map sl (filter (fun r => sstate_eqb (sst r) SPending) (steps (xg x))).

(* well-formedness used by the theorems: labels are unique (part of inv_rows_b of C09) *)
Definition labels_unique (x : xst) : bool :=
  nodup_by str_eqb (map sl (steps (xg x))) && nodup_by str_eqb (map fl (files (xg x))).

(* ------------------------------------------------------------------------------------------ *)
(* 7. A witness state: one step that tracks a variable, built with the old value               *)
(* ------------------------------------------------------------------------------------------ *)
Definition s_e1 : str := [101;49].                       (* "e1" *)
Definition s_var : str := [67;48;53;65].                 (* "C05A" *)
Definition s_in : str := [105;110].                      (* "in" *)
Definition s_out : str := [111;117;116].                 (* "out" *)
Definition envw_history : list op :=
  [ OpDefineStep root_key s_plan [] [] [] [] NPlan;
    OpDispatch s_plan; OpResetForRerun s_plan;
    OpDefineStep (KStep, s_plan) s_e1 [] [s_var] [s_out] [] NDefault;
    OpExecEnd s_plan [] CSucceeded [] true false;
    OpDispatch s_e1; OpResetForRerun s_e1;
    OpExecEnd s_e1 [] CSucceeded [(s_out, Some 7)] true false ].
Definition envw_state : xst :=
  mkX (run_ops envw_history (init_st 100)) [mkEV s_e1 s_var (Some 1)] [].
(* the variable has another value now; the output is as it was built *)
Definition envw_world : world := mkW [(s_var, 2)] [(s_out, 7)] [].

(* ------------------------------------------------------------------------------------------ *)
(* 8. Comparison with the tables the real director left (harness/p_c05.py)                     *)
(* ------------------------------------------------------------------------------------------ *)
Definition erow_eqb (a b : erow) : bool :=
  str_eqb (ev_step a) (ev_step b) && str_eqb (ev_name a) (ev_name b) && oN_eqb (ev_val a) (ev_val b).
Definition nrow_eqb (a b : nrow) : bool :=
  (ng_id a =? ng_id b) && str_eqb (ng_step a) (ng_step b) && (ng_data a =? ng_data b).
Definition xst_eqb (a b : xst) : bool :=
  dump_eqb (dump_of (xg a)) (dump_of (xg b)) && set_eqb erow_eqb (xenv a) (xenv b) && set_eqb nrow_eqb (xng a) (xng b).

(* what the restarted director does before its job loop starts: Workflow.initialize (not strict),
   initialize_boot (finds the boot step: no write), resume_from_db *)
Definition open_and_startup (env_blocks : list (list N)) (w : world) (x : xst) : res xst :=
  do g1 <- check_consistency false (xg x); startup env_blocks w (set_xg x g1).
Definition startup_agrees (env_blocks : list (list N)) (w : world) (x after : xst) : bool :=
  match open_and_startup env_blocks w x with Ok y => xst_eqb y after | _ => false end.
