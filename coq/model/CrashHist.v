(* model/CrashHist.v -- C05: transaction histories WITH kills.  Definitions only
   (proofs: proofs/CrashHistProofs.v).

   An event is a committed transaction of a director ([HT o], model/Graph.v) or a kill of the
   director and of the commands it runs followed by the start of the next director up to the
   end of startup.reset_interrupted_steps ([HKill]).  A kill may come after ANY transaction:
   every position of the list is a commit point.  Beside the stored workflow the history carries
   the steps whose command runs ([started]: reset_for_rerun committed, completion not yet; a kill
   ends them all). *)
From Coq Require Import List NArith Bool.
From SV Require Import lib.Bytes model.Graph model.Crash.
Import ListNotations.
Open Scope N_scope.

Inductive hev := HT (o : op) | HKill.

(* a rejected or failed transaction is rolled back; a restart whose reset_interrupted_steps
   raises leaves the file as it is (no command runs any more) *)
Fixpoint run_hist (evs : list hev) (s : st) (started : list str) : st * list str :=
  match evs with
  | [] => (s, started)
  | HT o :: evs' => match step_op o s with
                    | Ok s' => run_hist evs' s' (started_after o started)
                    | _ => run_hist evs' s started
                    end
  | HKill :: evs' => match reset_interrupted s with
                     | Ok s' => run_hist evs' s' []
                     | _ => run_hist evs' s []
                     end
  end.

(* the steps whose command was running at some kill of the history, with the state the restarted
   director had after reset_interrupted_steps *)
Fixpoint kills (evs : list hev) (s : st) (started : list str) : list (list str * res st) :=
  match evs with
  | [] => []
  | HT o :: evs' => match step_op o s with
                    | Ok s' => kills evs' s' (started_after o started)
                    | _ => kills evs' s started
                    end
  | HKill :: evs' => (started, reset_interrupted s) ::
                     match reset_interrupted s with
                     | Ok s' => kills evs' s' []
                     | _ => kills evs' s []
                     end
  end.

(* crash point k of a crash-free history: the first k transactions, then the kill *)
Definition kill_at (ops : list op) (k : nat) : list hev := map HT (firstn k ops) ++ [HKill].
