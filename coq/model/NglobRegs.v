(* C17: Workflow.process_nglob_changes over a LIST of registrations, each identified by a key
   (step, pattern, substitutions), and the variant that memoises NamedGlob.will_change per batch
   under a key of the registration.  Definitions only.

   [process_memo] is the shape
       cache = {}
       for i, ng, step in self.nglob_registrations():
           if key(ng) not in cache: cache[key(ng)] = ng.will_change(deleted, updated)
           evolved = cache[key(ng)]
           if evolved is not None: self.persist_nglob_matches(i, step, evolved)
   persist_nglob_matches stores the WHOLE evolved object (pattern, subs, regex, results), so a row
   that receives another registration's answer also receives that registration's matcher. *)
From Coq Require Import List NArith Bool.
From SV Require Import lib.Bytes.
From SV Require Import lib.Regex.
From SV Require Import model.Nglob.
From SV Require Import model.NglobBatch.
Import ListNotations.
Open Scope N_scope.

Section Regs.
  Variable K : Type.
  Variable keqb : K -> K -> bool.
  Variable P : Type.                       (* what the cache is keyed by *)
  Variable peqb : P -> P -> bool.

  Definition kreg := (P * reg K)%type.

  Fixpoint cache_get (k : P) (c : list (P * option (reg K))) : option (option (reg K)) :=
    match c with
    | [] => None
    | (k', v) :: r => if peqb k k' then Some v else cache_get k r
    end.

  (* ng.will_change(deleted, updated): the evolved OBJECT (same matcher, new results) or None *)
  Definition evolve (deleted updated : list str) (r : reg K) : option (reg K) :=
    option_map (fun e => (fst r, e)) (will_change keqb (fst r) (snd r) deleted updated).

  Fixpoint memo_loop (deleted updated : list str) (regs : list kreg) (c : list (P * option (reg K)))
    : list (reg K * bool) :=
    match regs with
    | [] => []
    | (k, r) :: rest =>
      let '(ev, c') := match cache_get k c with
                       | Some v => (v, c)
                       | None => let v := evolve deleted updated r in (v, (k, v) :: c)
                       end in
      (match ev with Some e => (e, true) | None => (r, false) end) :: memo_loop deleted updated rest c'
    end.

  Definition process_memo (regs : list kreg) (deleted updated : list str) : option (list (reg K * bool)) :=
    if overlap deleted updated then None else Some (memo_loop deleted updated regs []).
End Regs.

Arguments kreg : clear implicits.
Arguments evolve {K}.
Arguments memo_loop {K} keqb {P}.
Arguments process_memo {K} keqb {P}.
