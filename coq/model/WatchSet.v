(* C14 model, part (e): the watch-set bookkeeping of AsyncInotifyWrapper as a state machine.

   Directories have an identity (inode) and a current path; the kernel watches INODES and reports events
   under the path the Watch object was created with (asyncinotify: event.path = watch.path / name), so a
   directory that is renamed keeps its watch and keeps reporting under its old label.  The inotify queue is
   explicit: file-system operations append events, the wrapper pops one event per step (change_loop,
   model/Watch.v process_event), and `Inotify.rm_watch` makes the kernel append IGNORED at the TAIL of the
   queue, i.e. behind everything that was queued before change_loop got to the MOVED_FROM|ISDIR event.
   Only directories are tracked (files do not change the watch set).  Kernel rows as documented in
   model/Watch.v (measured on this kernel, compared with real inotify by harness/p_c14.py `watchset`).
   Executable definitions only. *)
From Coq Require Import List NArith Bool.
From SV Require Import lib.Bytes gen.GenWatch model.Watch.
Import ListNotations.
Open Scope N_scope.

Definition DOT : path := [46].

(* everything up to the last separator; "." when there is none *)
Fixpoint from_slash (r : path) : path :=
  match r with [] => [] | c :: r' => if c =? SLASH then r else from_slash r' end.
Definition parent (p : path) : path :=
  match from_slash (rev p) with [] => DOT | _ :: r => rev r end.
Fixpoint until_slash (r : path) : path :=
  match r with [] => [] | c :: r' => if c =? SLASH then [] else c :: until_slash r' end.
Definition basename (p : path) : path := rev (until_slash (rev p)).
(* watch.path / name *)
Definition join (label name : path) : path := if str_eqb label DOT then name else label ++ [SLASH] ++ name.

Definition at_or_below (d q : path) : bool := str_eqb d q || is_prefix (d ++ [SLASH]) q.

Record sys : Set := mk_sys {
  s_dirs : list (N * path);      (* existing directories besides the root: inode, current path *)
  s_next : N;                    (* next inode number *)
  s_kw : list (N * path);        (* kernel watches: watched inode (0 = project root), label of the Watch object *)
  s_queue : list event;          (* the inotify queue, head first *)
  s_w : watches;                 (* AsyncInotifyWrapper.watches *)
  s_items : list item            (* change_queue *)
}.

Definition ino_of (s : sys) (p : path) : option N :=
  if str_eqb p DOT then Some 0
  else match filter (fun e => str_eqb (snd e) p) (s_dirs s) with [] => None | e :: _ => Some (fst e) end.

Definition label_of (s : sys) (i : N) : option path :=
  match filter (fun e => fst e =? i) (s_kw s) with [] => None | e :: _ => Some (snd e) end.

Definition watch_label (s : sys) (p : path) : option path :=
  match ino_of s p with None => None | Some i => label_of s i end.

(* events a parent reports about an entry `p` *)
Definition from_parent (s : sys) (mask : N) (p : path) : list event :=
  match watch_label s (parent p) with
  | Some l => [mk_event (mask + M_ISDIR) (join l (basename p))]
  | None => []
  end.

Inductive dop : Set := OMkdir (p : path) | ORmdir (p : path) | OMove (p q : path).

Definition has_subdir (s : sys) (p : path) : bool :=
  existsb (fun e => is_prefix (p ++ [SLASH]) (snd e)) (s_dirs s).

(* one file-system operation: the tree changes, the kernel appends its events; None = not applicable *)
Definition apply_dop (s : sys) (o : dop) : option sys :=
  match o with
  | OMkdir p =>
      match ino_of s p, ino_of s (parent p) with
      | None, Some _ =>
          Some (mk_sys ((s_next s, p) :: s_dirs s) (s_next s + 1) (s_kw s)
                       (s_queue s ++ from_parent s M_CREATE p) (s_w s) (s_items s))
      | _, _ => None
      end
  | ORmdir p =>
      match ino_of s p with
      | Some i =>
          if has_subdir s p || (i =? 0) then None
          else
            let self := match label_of s i with
                        | Some l => [mk_event M_DELETE_SELF l; mk_event M_IGNORED l]
                        | None => []
                        end in
            Some (mk_sys (filter (fun e => negb (fst e =? i)) (s_dirs s)) (s_next s)
                         (filter (fun e => negb (fst e =? i)) (s_kw s))
                         (s_queue s ++ self ++ from_parent s M_DELETE p) (s_w s) (s_items s))
      | None => None
      end
  | OMove p q =>
      match ino_of s p, ino_of s q, ino_of s (parent q) with
      | Some i, None, Some _ =>
          if (i =? 0) || at_or_below p q then None
          else
            let self := match label_of s i with Some l => [mk_event M_MOVE_SELF l] | None => [] end in
            let dirs' := map (fun e => if at_or_below p (snd e) then (fst e, q ++ skipn (length p) (snd e)) else e)
                             (s_dirs s) in
            let s' := mk_sys dirs' (s_next s) (s_kw s) [] (s_w s) (s_items s) in
            Some (mk_sys dirs' (s_next s) (s_kw s)
                         (s_queue s ++ from_parent s M_MOVED_FROM p ++ from_parent s' M_MOVED_TO q ++ self)
                         (s_w s) (s_items s))
      | _, _, _ => None
      end
  end.

Definition tree_of (s : sys) : tree := map (fun e => (snd e, true)) (s_dirs s).

Definition installed (w : watches) (p : path) : bool :=
  match w_get w p with Some true => true | _ => false end.

(* Inotify.add_watch(path): a watch on the inode at `path` with label = path; when the inode already has
   a watch, asyncinotify hands back the EXISTING Watch object (old label) *)
Definition kernel_add (s : sys) (kw : list (N * path)) (p : path) : list (N * path) :=
  match ino_of s p with
  | Some i => if existsb (fun e => fst e =? i) kw then kw else (i, p) :: kw
  | None => kw
  end.

(* one iteration of change_loop on the head of the queue *)
Definition step (s : sys) : sys :=
  match s_queue s with
  | [] => s
  | ev :: rest =>
      let r := process_event (tree_of s) (s_w s) ev in
      let p := ev_path ev in
      let m := ev_mask ev in
      (* Inotify.rm_watch(self.watches[path]) in the ISDIR + DELETED branch *)
      let rm := negb (has_bit m M_IGNORED) && has_bit m M_ISDIR && is_deleted_mask m && installed (s_w s) p in
      let had := existsb (fun e => str_eqb (snd e) p) (s_kw s) in
      let kw1 := if rm then filter (fun e => negb (str_eqb (snd e) p)) (s_kw s) else s_kw s in
      let tail := if rm && had then [mk_event M_IGNORED p] else [] in
      (* _install_watch for every entry the rescan turned from pending to installed *)
      let news := map fst (filter (fun e => snd e && negb (installed (s_w s) (fst e))) (fst r)) in
      let kw2 := fold_left (kernel_add s) news kw1 in
      mk_sys (s_dirs s) (s_next s) kw2 (rest ++ tail) (fst r) (s_items s ++ snd r)
  end.

Fixpoint settle (fuel : nat) (s : sys) : sys :=
  match fuel with
  | O => s
  | S f => match s_queue s with [] => s | _ => settle f (step s) end
  end.

(* operations applied without letting the wrapper run in between (one shell command line) *)
Fixpoint apply_batch (s : sys) (ops : list dop) : sys :=
  match ops with
  | [] => s
  | o :: rest => apply_batch (match apply_dop s o with Some s' => s' | None => s end) rest
  end.

(* a history: batches, the wrapper drains its queue after each batch *)
Definition run_batches (s : sys) (bs : list (list dop)) : sys :=
  fold_left (fun acc b => settle 200 (apply_batch acc b)) bs s.

(* the dictionary agrees with the kernel: a directory is recorded as installed under its current path iff
   the kernel watches it under that label; nothing is recorded as installed that does not exist *)
Definition dir_agrees (s : sys) (e : N * path) : bool :=
  Bool.eqb (installed (s_w s) (snd e)) (existsb (fun k => (fst k =? fst e) && str_eqb (snd k) (snd e)) (s_kw s)).
Definition agree (s : sys) : bool :=
  forallb (dir_agrees s) ((0, DOT) :: s_dirs s)
  && forallb (fun e => negb (snd e) || match ino_of s (fst e) with Some _ => true | None => false end) (s_w s).

(* "every existing directory that can contain a relevant path is watched" *)
Definition needed_watched (needed : path -> bool) (s : sys) : bool :=
  forallb (fun e => negb (needed (snd e)) || (installed (s_w s) (snd e) && dir_agrees s e)) (s_dirs s).

(* ------------------------------------------------------------------------------------------ *)
(* AsyncInotifyWrapper.dir_loop: one requested directory                                       *)
(* ------------------------------------------------------------------------------------------ *)

(* The translator (gen_watch.py _dir_loop_program) reads the body of dir_loop's `async for` statement by
   statement into gen/GenWatch.v dir_loop_program : list dstmt:
     DClimb record     while not (path.is_dir() or ... or path in ("", ".")):
                           [self.watches.setdefault(path, None)]      <- present iff record
                           path = path.parent
     DPendRequested    if path != requested: self.watches.setdefault(requested, None)
     DInstallUp        while ...: if self.watches.get(path) is not None: break; self._install_watch(path);
                           if path == ".": break; path = path.parent
   Paths are normalised and inside the project root (the ".." exits of the loops are not modelled). *)
Definition w_setdefault (w : watches) (p : path) (v : bool) : watches :=
  match w_get w p with Some _ => w | None => w_set w p v end.

Definition stops_climb (s : sys) (p : path) : bool :=
  match ino_of s p with Some _ => true | None => false end.     (* ino_of s "." = Some 0 *)

Fixpoint climb (fuel : nat) (record : bool) (s : sys) (w : watches) (p : path) : watches * path :=
  match fuel with
  | O => (w, p)
  | S f => if stops_climb s p then (w, p)
           else climb f record s (if record then w_setdefault w p false else w) (parent p)
  end.

(* the levels the climb visits: the requested directory and its missing ancestors, bottom up *)
Fixpoint climbed (fuel : nat) (s : sys) (p : path) : list path :=
  match fuel with
  | O => []
  | S f => if stops_climb s p then [] else p :: climbed f s (parent p)
  end.
Definition climb_fuel (p : path) : nat := S (length p).
Definition missing_levels (s : sys) (p : path) : list path := climbed (climb_fuel p) s p.

Fixpoint install_up (fuel : nat) (s : sys) (kw : list (N * path)) (w : watches) (p : path)
  : list (N * path) * watches :=
  match fuel with
  | O => (kw, w)
  | S f => if installed w p then (kw, w)
           else let w1 := w_set w p true in
                let kw1 := kernel_add s kw p in
                if str_eqb p DOT then (kw1, w1) else install_up f s kw1 w1 (parent p)
  end.

Record dl : Set := mk_dl { dl_s : sys; dl_path : path; dl_req : path }.

Definition with_w (s : sys) (kw : list (N * path)) (w : watches) : sys :=
  mk_sys (s_dirs s) (s_next s) kw (s_queue s) w (s_items s).

Definition exec_dstmt (st : dstmt) (x : dl) : dl :=
  let s := dl_s x in
  match st with
  | DClimb record =>
      let r := climb (climb_fuel (dl_path x)) record s (s_w s) (dl_path x) in
      mk_dl (with_w s (s_kw s) (fst r)) (snd r) (dl_req x)
  | DPendRequested =>
      if str_eqb (dl_path x) (dl_req x) then x
      else mk_dl (with_w s (s_kw s) (w_setdefault (s_w s) (dl_req x) false)) (dl_path x) (dl_req x)
  | DInstallUp =>
      let r := install_up (climb_fuel (dl_path x)) s (s_kw s) (s_w s) (dl_path x) in
      mk_dl (with_w s (fst r) (snd r)) (dl_path x) (dl_req x)
  end.

Fixpoint exec_dprog (prog : list dstmt) (x : dl) : dl :=
  match prog with [] => x | st :: more => exec_dprog more (exec_dstmt st x) end.

Definition dir_request_gen (prog : list dstmt) (s : sys) (p : path) : sys :=
  dl_s (exec_dprog prog (mk_dl s p p)).
(* the shape the coverage theorem is about, and the code as translated *)
Definition base_dir_program : list dstmt := [DClimb true; DInstallUp].
Definition dir_request : sys -> path -> sys := dir_request_gen dir_loop_program.
(* several requests (Workflow: the base directories of patterns, the parents of static files) *)
Definition dir_requests (s : sys) (ps : list path) : sys := fold_left dir_request ps s.

(* change_loop calls Inotify.rm_watch for an entry recorded as installed although the kernel no longer holds a watch
   with that label (it dropped it when the directory was removed): inotify_rm_watch fails with EINVAL, the OSError is
   not caught, the change_loop task ends (finding C14-rmwatch).  `step` above models the call as a no-op on the kernel
   side; this predicate says whether the head event makes the real code raise. *)
Definition rm_on_dropped (s : sys) : bool :=
  match s_queue s with
  | [] => false
  | ev :: _ =>
      let p := ev_path ev in
      let m := ev_mask ev in
      negb (has_bit m M_IGNORED) && has_bit m M_ISDIR && is_deleted_mask m && installed (s_w s) p
      && negb (existsb (fun e => str_eqb (snd e) p) (s_kw s))
  end.
Fixpoint dies_settling (fuel : nat) (s : sys) : bool :=
  match fuel with
  | O => false
  | S f => match s_queue s with [] => false | _ => rm_on_dropped s || dies_settling f (step s) end
  end.
