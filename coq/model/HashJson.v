(* C13, stored hashes: which FileHash / StepHash values the round trip is stated for, and the part
   of a stored StepHash that the skip decision reads.  Definitions only; the converters themselves
   are generated (gen/GenHashJson.v). *)
From Coq Require Import List NArith Bool.
From SV Require Import lib.Bytes lib.KeySort lib.Base85 model.HashTypes gen.GenHash model.HashJsonTypes
  gen.GenHashJson model.HashSkipTypes.
Import ListNotations.
Open Scope N_scope.

(* a digest is a byte string (every element below 256); any length: SHA-256 values, the placeholder
   b"u" of FileHash.unknown(), and whatever else a bytes field may hold *)
Definition digest_json_ok (d : str) : bool := is_bytes d.

Definition fhash_eqb_all (a b : fhash) : bool :=
  str_eqb (fh_digest a) (fh_digest b) && (fh_mode a =? fh_mode b) && (fh_mtime a =? fh_mtime b)
  && (fh_size a =? fh_size b) && (fh_inode a =? fh_inode b).

(* FileHash.to_json writes NULL for an unknown hash and from_json reads NULL as FileHash.unknown():
   an unknown hash with other fields than unknown() (never built by hash.py) would lose them *)
Definition fh_canonical (h : fhash) : bool := negb (fh_is_unknown h) || fhash_eqb_all h fh_unknown.

Definition fh_json_ok (h : fhash) : bool := digest_json_ok (fh_digest h).
Definition files_json_ok (m : list (str * fhash)) : bool := forallb (fun e => fh_json_ok (snd e)) m.

Definition sx_json_ok (x : stephash) : bool :=
  digest_json_ok (sx_inp x)
  && match sx_info x with Some i => files_json_ok (ii_inps i) | None => true end
  && match sx_out x with Some d => digest_json_ok d | None => true end
  && match sx_outinfo x with Some o => files_json_ok (oi_outs o) | None => true end.

(* what try_skip_job / validate_dynamic_job read from the stored hash *)
Definition shash_of (x : stephash) : shash := mk_shash (sx_inp x) (sx_out x).
