(* Invariant conjuncts and protocol predicates for the alphabet with static trees.  Definitions only. *)
From Coq Require Import List NArith Bool.
From SV Require Import lib.Bytes lib.Closure model.Graph model.GraphDump model.GraphInv model.GraphTree.
Import ListNotations.
Open Scope N_scope.

(* T1: a file whose creator is a tree lies under it and is in a STATIC state *)
Definition inv_treefile_b (s : st) : bool :=
  forallb (fun n => match nk n, ncre n with
                    | (KFile, f), Some (KTree, t) => is_prefix t f && is_static_fstate f s
                    | _, _ => true end) (nodes s).

(* T2: attached trees are pairwise non-nested (in particular their labels are distinct) *)
Definition attached_trees (s : st) : list str :=
  map (fun n => snd (nk n)) (filter (fun n => kind_eqb (fst (nk n)) KTree && negb (ndet n)) (nodes s)).
Definition inv_trees_nonnested_b (s : st) : bool :=
  forallb (fun t1 => forallb (fun t2 => str_eqb t1 t2 || negb (is_prefix t1 t2)) (attached_trees s)) (attached_trees s).

(* T3: an attached file under an attached tree is a STATIC file created by that tree *)
Definition inv_tree_owns_b (s : st) : bool :=
  forallb (fun n => match nk n with
                    | (KFile, f) =>
                      ndet n ||
                      forallb (fun t => negb (is_prefix t f) ||
                                        (is_static_fstate f s && okey_eqb (ncre n) (Some (KTree, t))))
                              (attached_trees s)
                    | _ => true end) (nodes s).

Definition inv_tree_b (s : st) : bool := inv_treefile_b s && inv_trees_nonnested_b s && inv_tree_owns_b s.
Definition inv_t_b (s : st) : bool := inv_b s && inv_tree_b s.

Definition protocol_ok_t (s : st) (o : op_t) : bool :=
  match o with OpBase o => protocol_ok s o | OpRegisterTree _ _ => true end.
Fixpoint protocol_ok_run_t (s : st) (ops : list op_t) : bool :=
  match ops with
  | [] => true
  | o :: ops' => protocol_ok_t s o && protocol_ok_run_t (apply_op_t s o) ops'
  end.

(* the hold protocol of inv_b for the alphabet with trees *)
Definition protocol_hold_t_b (s : st) (o : op_t) : bool :=
  match o with OpBase o => protocol_hold_b s o | OpRegisterTree _ _ => true end.
Fixpoint protocol_run_t_b (s : st) (ops : list op_t) : bool :=
  match ops with
  | [] => true
  | o :: ops' => protocol_hold_t_b s o && protocol_run_t_b (apply_op_t s o) ops'
  end.

(* domain of the tree conjunct T1: declare_static_files is requested by the root or a step, never
   with a static tree as the creator (the API passes the requesting step) *)
Definition static_requester_b (o : op_t) : bool :=
  match o with
  | OpBase (OpDeclareStatic c _) => negb (kind_eqb (fst c) KTree)
  | _ => true
  end.

(* T3': every file node with a creator (attached or not) that lies under an attached tree is a file
   of that tree; with T1 this gives T3 and, unlike T3, it is inductive *)
Definition inv_tree_claims_b (s : st) : bool :=
  forallb (fun n => match nk n, ncre n with
                    | (KFile, f), Some c =>
                      forallb (fun t => negb (is_prefix t f) || key_eqb c (KTree, t)) (attached_trees s)
                    | _, _ => true end) (nodes s).
Definition inv_tree_strong_b (s : st) : bool :=
  inv_treefile_b s && inv_trees_nonnested_b s && inv_tree_claims_b s.

(* the hypothesis of the partial tree theorems: a define_step transaction re-attaches no static
   tree (a full recycle revives the recursive products of the step without the checks of
   register_static_tree: finding D33) *)
Definition no_tree_reattached_b (s : st) (o : op_t) : bool :=
  match o with
  | OpBase (OpDefineStep _ _ _ _ _ _ _) =>
    forallb (fun t => negb (is_detached (KTree, t) s)) (attached_trees (apply_op_t s o))
  | _ => true
  end.

(* the hypotheses of the partial tree theorems along a history *)
Fixpoint tree_hyps_run (s : st) (ops : list op_t) : bool :=
  match ops with
  | [] => true
  | o :: ops' => static_requester_b o && no_tree_reattached_b s o && tree_hyps_run (apply_op_t s o) ops'
  end.

(* documented step state transitions: a step row that exists before and after a transaction keeps
   its state, is made PENDING from SUCCEEDED / FAILED by the state propagation (mark_step_pending),
   or is the subject of the operation and receives the state the operation assigns *)
Definition pm_b (a b : sstate) : bool :=
  sstate_eqb a b || (sstate_eqb b SPending && (sstate_eqb a SSucceeded || sstate_eqb a SFailed)).
Definition step_move_b (o : op_t) (l : str) (a b : sstate) : bool :=
  pm_b a b ||
  match o with
  | OpBase (OpDispatch l') => str_eqb l l' && (sstate_eqb b SRunning || sstate_eqb b SChecking)
  | OpBase (OpExecEnd l' _ _ _ _ _) =>
    str_eqb l l' && (sstate_eqb b SSucceeded || sstate_eqb b SFailed || sstate_eqb b SPending)
  | OpBase (OpResetToPending l') | OpBase (OpValidatePending l') => str_eqb l l' && sstate_eqb b SPending
  | OpBase (OpDefineStep _ l' _ _ _ _ _) => str_eqb l l' && sstate_eqb b SPending
  | OpBase OpResetInterrupted =>
    (sstate_eqb a SRunning && (sstate_eqb b SFailed || sstate_eqb b SPending)) ||
    (sstate_eqb a SChecking && sstate_eqb b SPending)
  | _ => false
  end.
