(* C04: "rebuilding with nothing changed does nothing; edits rerun only their cone".
   Executable definitions on model/Graph.v (definitions only; proofs in proofs/NoopProofs.v):

   - required / ready / dispatch_guard : the part of the dispatch predicate of scheduler.py
     (STEP_DISPATCH_WHERE + "attached") that can be stated on Graph.st.  The real predicate has
     further conjuncts (_safe, resources, the target threshold), so it selects a subset.
   - revert_optional : finalize.revert_optional_steps (database part).
   - quiescent_success_b : the shape of the stored workflow after a successful finalize.
   - startup_ops / watch_ops : the transactions that startup.resume_from_db and a watch-phase
     commit + start_build_phase apply for given re-hash results (unchanged EXTERNAL results are
     dropped before they reach update_file_hashes, as executor._run_hash_job does).
   - cone : steps downstream of a set of edited files. *)
From Coq Require Import List NArith Bool.
From SV Require Import lib.Bytes lib.Closure model.Graph model.GraphDump.
(* the deferred-column layer of /repo 84081f2 (owner C09; Required, not Imported: GraphExt.v has its own
   revert_optional / check_trace_x) *)
From SV Require model.GraphExt.
Import ListNotations.
Open Scope N_scope.

Definition attached (k : key) (s : st) : bool := negb (is_detached k s).

(* ------------------------------------------------------------------------------------------ *)
(* Dispatch guard                                                                              *)
(* ------------------------------------------------------------------------------------------ *)

(* _implied_need > OPTIONAL without targets (scheduler.UPDATE_CHECK_AFTER at its fixpoint):
   a step is required when its declared need is above OPTIONAL, or when an attached step two
   dependency hops downstream (step -> output file -> consuming step) is required.  The file in
   the middle may be in any state, attached or not.
   Stated as a reachability closure (lib/Closure.v, whose closure_spec makes it fuel free):
   req_edges are the pairs (c, l) "the attached step c consumes an output of l"; the seeds are the
   steps whose declared need is above OPTIONAL; a step with a row is required when it is reachable
   from a seed. *)
Definition req_edges (s : st) : list (str * str) :=
  flat_map (fun d =>
              match dsrc d, dsnk d with
              | (KStep, l), (KFile, f) =>
                map (fun c => (c, l))
                    (filter (fun c => attached (KStep, c) s && is_some (find_step c s))
                            (step_sinks_of_file f s))
              | _, _ => []
              end) (deps s).
Definition need_seeds (s : st) : list str :=
  filter (fun l => match find_step l s with
                   | Some r => negb (need_eqb (sneed r) NOptional)
                   | None => false end) (map sl (steps s)).
Definition required_set (s : st) : list str :=
  closure_from str_eqb (req_edges s) (length (req_edges s)) (need_seeds s).
Definition required (l : str) (s : st) : bool :=
  is_some (find_step l s) && mem_str l (required_set s).

(* step.UNAVAILABLE_INPUT_WHERE for one dependency row whose source is a file *)
Definition unavailable_input (d : dep) (s : st) : bool :=
  match fstate_of (snd (dsrc d)) s with
  | None => false
  | Some f =>
    match f with
    | FVolatile => true
    | _ =>
      if ddyn d then
        attached (dsrc d) s && match f with FPlanned | FOutdated => true | _ => false end
      else
        is_detached (dsrc d) s || match f with FBuilt | FConfirmed => false | _ => true end
    end
  end.
Definition ready (l : str) (s : st) : bool :=
  negb (existsb (fun d => key_eqb (dsnk d) (KStep, l) && kind_eqb (fst (dsrc d)) KFile
                          && unavailable_input d s) (deps s)).

Definition dispatch_guard (l : str) (s : st) : bool :=
  match find_step l s with
  | Some r => attached (KStep, l) s && sstate_eqb (sst r) SPending && negb (sdef r)
              && required l s && ready l s
  | None => false
  end.
Definition dispatchable (s : st) : list str :=
  filter (fun l => dispatch_guard l s) (map sl (steps s)).

(* ------------------------------------------------------------------------------------------ *)
(* finalize.revert_optional_steps (the rows it writes; Workflow.to_be_deleted is memory only)   *)
(* ------------------------------------------------------------------------------------------ *)
Definition revertible_output (f : str) (s : st) : bool :=
  match fstate_of f s with Some FBuilt | Some FOutdated => true | _ => false end.
Definition optional_steps (s : st) : list srow :=
  filter (fun r => attached (KStep, sl r) s && negb (required (sl r) s)) (steps s).
Definition optional_outputs (s : st) : list str :=
  flat_map (fun r => filter (fun f => revertible_output f s) (file_sinks_of_step (sl r) s))
           (optional_steps s).

Definition revert_optional (s : st) : res st :=
  do s1 <- foldM (fun s r => if sstate_eqb (sst r) SPending then Ok s
                             else set_sstate_raw (sl r) SPending s) (optional_steps s) s;
  foldM (fun s f => set_fstate_hash f FPlanned (Some None) s) (optional_outputs s) s1.

(* ------------------------------------------------------------------------------------------ *)
(* The state a successful finalize leaves behind                                               *)
(* ------------------------------------------------------------------------------------------ *)
Definition q_no_job_b (s : st) : bool :=
  forallb (fun r => negb (sstate_eqb (sst r) SRunning) && negb (sstate_eqb (sst r) SChecking))
          (steps s).
(* an attached step is SUCCEEDED when required, and reverted (PENDING, no BUILT/OUTDATED
   output row) when not *)
Definition q_steps_b (s : st) : bool :=
  forallb (fun r => is_detached (KStep, sl r) s ||
                    (if required (sl r) s then sstate_eqb (sst r) SSucceeded
                     else sstate_eqb (sst r) SPending &&
                          forallb (fun f => negb (revertible_output f s))
                                  (file_sinks_of_step (sl r) s))) (steps s).
Definition q_no_deletable_b (s : st) : bool := forallb (fun n => negb (deletable n s)) (nodes s).
Definition q_no_unconfirmed_b (s : st) : bool :=
  forallb (fun r => is_detached (KFile, fl r) s || negb (fstate_eqb (fstt r) FUnconfirmed))
          (files s).
Definition quiescent_success_b (s : st) : bool :=
  q_no_job_b s && q_steps_b s && q_no_deletable_b s && q_no_unconfirmed_b s.

(* The state at the end of a successful build phase, before finalize (what runner/report_unbuilt
   look at): no job in flight, every declared static file confirmed, no attached step FAILED, no
   attached required step PENDING (the pending universe is empty; in particular nothing satisfies
   the dispatch guard). *)
Definition eop_steps_b (s : st) : bool :=
  forallb (fun r => is_detached (KStep, sl r) s ||
                    (negb (sstate_eqb (sst r) SFailed) &&
                     negb (sstate_eqb (sst r) SPending && required (sl r) s))) (steps s).
Definition end_of_phase_b (s : st) : bool :=
  q_no_job_b s && q_no_unconfirmed_b s && eop_steps_b s.

(* ------------------------------------------------------------------------------------------ *)
(* Startup and watch-phase transactions for given re-hash results                              *)
(* ------------------------------------------------------------------------------------------ *)
(* files that startup.rescan_files re-hashes *)
Definition rescan_paths (s : st) : list str :=
  map fl (filter (fun r => attached (KFile, fl r) s &&
                           match fstt r with FPlanned | FVolatile => false | _ => true end)
                 (files s)).

(* one executor._run_hash_job: the result is applied in its own transaction when it differs
   from the hash read before, or when the cause is CONFIRMED *)
Definition hash_job_ops (s : st) (confirm_unconfirmed : bool) (ph : str * option N) : list op :=
  match find_file (fst ph) s with
  | None => []
  | Some r =>
    if confirm_unconfirmed && fstate_eqb (fstt r) FUnconfirmed then [OpUpdateHashes CConfirmed [ph]]
    else if on_eqb (fh r) (snd ph) then []
    else [OpUpdateHashes CExternal [ph]]
  end.

(* startup.resume_from_db: reset_interrupted_steps, rescan_env_vars (one transaction marking the
   steps whose recorded variables changed), rescan_files.  (rescan_nglobs: glob registrations are
   not part of Graph.st.) *)
Definition startup_ops (s : st) (env_changed : list str) (rehash : list (str * option N)) : list op :=
  [OpResetInterrupted] ++ map OpMarkStepPending env_changed
  ++ flat_map (hash_job_ops s true) rehash.

(* ---- tracked environment variables (startup.rescan_env_vars) --------------------------------
   Graph.st records which (step, variable) pairs exist; the recorded VALUES live here, next to it:
   one row per env_var row, (step label, variable name, recorded value; None = unset).
   [cur] is the environment of the starting director.  A row counts as changed when its step is
   attached and the current value differs from the recorded one; every step with a changed row is
   marked PENDING once (first occurrence order), and - when [stores] - the same transaction
   records the value that was seen. *)
Definition envval := (str * str * option N)%type.
Definition ev_step (r : envval) : str := fst (fst r).
Definition ev_name (r : envval) : str := snd (fst r).
Definition ev_value (r : envval) : option N := snd r.
Definition env_row_changed (cur : str -> option N) (s : st) (r : envval) : bool :=
  attached (KStep, ev_step r) s && negb (on_eqb (cur (ev_name r)) (ev_value r)).
Fixpoint nodup_strs (l : list str) : list str :=
  match l with
  | [] => []
  | x :: l' => x :: filter (fun y => negb (str_eqb y x)) (nodup_strs l')
  end.
Definition rescan_env_steps (vals : list envval) (cur : str -> option N) (s : st) : list str :=
  nodup_strs (map ev_step (filter (env_row_changed cur s) vals)).
Definition rescan_env_store (stores : bool) (vals : list envval) (cur : str -> option N) (s : st)
  : list envval :=
  if stores then
    map (fun r => if env_row_changed cur s r then (ev_step r, ev_name r, cur (ev_name r)) else r) vals
  else vals.
Definition env_unchanged_b (vals : list envval) (cur : str -> option N) (s : st) : bool :=
  forallb (fun r => negb (env_row_changed cur s r)) vals.
Definition startup_ops_env (s : st) (vals : list envval) (cur : str -> option N)
           (rehash : list (str * option N)) : list op :=
  startup_ops s (rescan_env_steps vals cur s) rehash.

(* ---- the values of tracked variables in the input digest -------------------------------------
   A step's command runs in Executor.base_env = os.environ overlaid with the director's infra_env
   (SOURCE_DATE_EPOCH with --fix-epoch, STEPUP_ROOT, STEPUP_BUILD_LOG_LEVEL, ...), then the step's
   overrides and the reserved names.  The input digest records, for every tracked variable, the value
   taken from a source: 1 = base_env, 2 = os.environ.  The digest of the skip / validate check
   (gen_digest_env_source_check) and the digest stored after a run (gen_digest_env_source_stored)
   must read the same source, or a step that tracks an injected variable never passes its check. *)
Definition env_lookup (src : N) (os_env infra : str -> option N) (name : str) : option N :=
  match src with
  | 1 => match infra name with Some v => Some v | None => os_env name end
  | _ => os_env name
  end.
Definition digest_env (src : N) (os_env infra : str -> option N) (names : list str) : list (str * option N) :=
  map (fun n => (n, env_lookup src os_env infra n)) names.

(* DirectorHandler.start_build_phase + the commit of Watcher.run_once *)
Definition failed_attached (s : st) : list str :=
  map sl (filter (fun r => sstate_eqb (sst r) SFailed && attached (KStep, sl r) s) (steps s)).
Definition watch_ops (s : st) (rehash : list (str * option N)) : list op :=
  map OpMarkStepPending (failed_attached s) ++ flat_map (hash_job_ops s false) rehash.

(* the file system did not change: every re-hash result equals the recorded hash *)
Definition unchanged_b (s : st) (rehash : list (str * option N)) : bool :=
  forallb (fun ph => match find_file (fst ph) s with
                     | Some r => attached (KFile, fst ph) s && on_eqb (fh r) (snd ph)
                     | None => false end) rehash.

(* watch flavour: the watcher only re-hashes the changed paths that have a file node (attached or
   not); a path without node contributes nothing *)
Definition unchanged_watch_b (s : st) (rehash : list (str * option N)) : bool :=
  forallb (fun ph => match find_file (fst ph) s with
                     | Some r => on_eqb (fh r) (snd ph)
                     | None => true end) rehash.

(* ------------------------------------------------------------------------------------------ *)
(* Cone of a set of edited files                                                             *)
(* ------------------------------------------------------------------------------------------ *)
(* Keys reachable from the edited files and from the steps in G (owners of a glob registration
   whose match set changes: glob registrations are not part of Graph.st) along dependency edges
   (file -> consuming step, step -> output file) and creator links (a step in the cone -> the
   steps and files it declared).  An over-approximation of the three clauses of the property:
   it is closed under "consumes an output / was declared by a step IN THE CONE", whether or not
   that step is eventually executed. *)
Inductive down (s : st) (E : list str) (G : list str) : key -> Prop :=
| down_edited f : In f E -> down s E G (KFile, f)
| down_glob l : In l G -> down s E G (KStep, l)
| down_dep a b : down s E G a -> has_dep a b s = true -> down s E G b
| down_created a b : down s E G (KStep, a) -> In b (products (KStep, a) s) -> down s E G b.
Definition in_cone (s : st) (E G : list str) (l : str) : Prop := down s E G (KStep, l).

(* the files named by hs are source files: declared static and confirmed (present or missing) *)
Definition static_sources_b (s : st) (hs : list (str * option N)) : bool :=
  forallb (fun ph => match fstate_of (fst ph) s with
                     | Some FConfirmed | Some FMissing => true | _ => false end) hs.

(* The transactions of a rebuild that cone_invariant_partial covers.  q is the quiescent state the
   cone is computed on, s the state in which the transaction is applied.
   - the EXTERNAL re-hash results of edited source files (startup or watch commit);
   - a step of the cone marked PENDING (environment change, persist_nglob_matches);
   - pop_next_job for a step that satisfies the dispatch predicate;
   - validate_dynamic_job putting a cone step back to PENDING;
   - the successful completion (or skip) of a cone step whose new output hashes belong to
     output files of that step.
   NOT covered (they change nodes or dependency rows, so the cone itself moves): define_step,
   amend_step, declare_static, reset_for_rerun (execute_job's first transaction),
   _reset_step_to_pending, failed completions, delete_detached, hold/release. *)
Inductive cone_op (q : st) (E G : list str) (s : st) : op -> Prop :=
| co_external hs : (forall ph, In ph hs -> In (fst ph) E) ->
                   cone_op q E G s (OpUpdateHashes CExternal hs)
| co_mark l : in_cone q E G l -> cone_op q E G s (OpMarkStepPending l)
| co_dispatch l : dispatch_guard l s = true -> cone_op q E G s (OpDispatch l)
| co_validate l : in_cone q E G l -> cone_op q E G s (OpValidatePending l)
| co_exec_ok l hs : in_cone q E G l ->
                    (forall ph, In ph hs -> has_dep (KStep, l) (KFile, fst ph) q = true) ->
                    cone_op q E G s (OpExecEnd l [] CSucceeded hs true false).
Fixpoint cone_ops (q : st) (E G : list str) (s : st) (ops : list op) : Prop :=
  match ops with
  | [] => True
  | o :: ops' => cone_op q E G s o /\ cone_ops q E G (apply_op s o) ops'
  end.

(* commands are executed for the steps that are dispatched without a stored hash (RUNNING);
   a dispatch with a stored hash is a hash check (CHECKING) that executes nothing *)
Fixpoint executed (ops : list op) (s : st) : list str :=
  match ops with
  | [] => []
  | o :: ops' =>
    match o with
    | OpDispatch l => if has_hash l s then [] else [l]
    | _ => []
    end ++ executed ops' (apply_op s o)
  end.

(* ------------------------------------------------------------------------------------------ *)
(* The cone relative to the EVOLVING graph (rebuilds that change nodes and edges)               *)
(* ------------------------------------------------------------------------------------------ *)
(* h: the states visited by the rebuild so far, each with the transaction applied in it.  The cone
   is the least set of keys that contains the edited files and the steps in G, and is closed under
   - a dependency row that existed in some visited state (file -> consuming step, step -> output);
   - a creator link that existed in some visited state (a node declared by a cone node);
   - the declarations made during the rebuild by a cone step: the step it defines, the outputs
     of that step, the static files it declares, the outputs it amends.
   As before this is closed under cone MEMBERSHIP (an over-approximation of "executed"). *)
Inductive tcone (E G : list str) (h : list (st * op)) : key -> Prop :=
| tc_edited f : In f E -> tcone E G h (KFile, f)
| tc_glob l : In l G -> tcone E G h (KStep, l)
| tc_dep s o a b : In (s, o) h -> tcone E G h a -> has_dep a b s = true -> tcone E G h b
| tc_created s o a n : In (s, o) h -> tcone E G h a -> In n (nodes s) -> ncre n = Some a -> tcone E G h (nk n)
| tc_defined s c l i e o v nd : In (s, OpDefineStep c l i e o v nd) h -> tcone E G h c -> tcone E G h (KStep, l)
| tc_outputs s c l i e o v nd f : In (s, OpDefineStep c l i e o v nd) h -> tcone E G h c ->
                                  In f (o ++ v) -> tcone E G h (KFile, f)
| tc_static s c ps f : In (s, OpDeclareStatic c ps) h -> tcone E G h c -> In f ps -> tcone E G h (KFile, f)
| tc_amended s l i e o v f : In (s, OpAmendStep l i e o v) h -> tcone E G h (KStep, l) ->
                             In f (o ++ v) -> tcone E G h (KFile, f).

Definition in_flight (l : str) (s : st) : Prop :=
  sstate_of l s = Some SRunning \/ sstate_of l s = Some SChecking.
Definition is_running (l : str) (s : st) : Prop := sstate_of l s = Some SRunning.
(* an attached step that the finalize of the previous build left PENDING: not required then *)
Definition idle_optional_b (q : st) (l : str) : bool :=
  attached (KStep, l) q && match sstate_of l q with Some SPending => true | _ => false end.

(* a path of a hash update: in the cone, and so is the step that created it *)
Definition path_in_cone (E G : list str) (h : list (st * op)) (s : st) (p : str) : Prop :=
  tcone E G h (KFile, p) /\ forall cr, step_creator_of_file p s = Some cr -> tcone E G h (KStep, cr).
(* an input of a declaration: an orphaned (creator-less) node whose old row is BUILT is re-created
   by _resolve_supply_file and File.initialize_row marks its consumers PENDING; such a path has to
   be in the cone *)
Definition input_in_cone (E G : list str) (h : list (st * op)) (s : st) (l : str) : Prop :=
  creator_of (KFile, l) s <> None \/ fstate_of l s <> Some FBuilt \/ tcone E G h (KFile, l).

(* The transactions of a rebuild covered by cone_invariant_partial2, with the protocol facts the
   executor / director guarantee for them (q: the quiescent state the rebuild starts from; h
   already contains the pair (s, o) of the transaction itself).
   NOT covered: delete_detached and revert_optional (finalize, after the rebuild),
   reset_interrupted in any other state than q. *)
Inductive cone_op2 (q : st) (E G : list str) (h : list (st * op)) (s : st) : op -> Prop :=
| c2_startup : s = q -> cone_op2 q E G h s OpResetInterrupted
| c2_external hs : (forall ph, In ph hs -> In (fst ph) E) -> static_sources_b s hs = true ->
                   cone_op2 q E G h s (OpUpdateHashes CExternal hs)
| c2_confirm hs : (forall ph, In ph hs -> path_in_cone E G h s (fst ph)) ->
                  cone_op2 q E G h s (OpUpdateHashes CConfirmed hs)
| c2_mark l : tcone E G h (KStep, l) -> cone_op2 q E G h s (OpMarkStepPending l)
| c2_dispatch l : dispatch_guard l s = true ->
                  idle_optional_b q l = false \/ tcone E G h (KStep, l) ->
                  cone_op2 q E G h s (OpDispatch l)
| c2_validate l : in_flight l s -> cone_op2 q E G h s (OpValidatePending l)
| c2_rerun l : in_flight l s -> cone_op2 q E G h s (OpResetForRerun l)
| c2_reset_pending l : in_flight l s -> cone_op2 q E G h s (OpResetToPending l)
| c2_exec_end l pre c hs ok wd :
    in_flight l s -> (forall ph, In ph (pre ++ hs) -> path_in_cone E G h s (fst ph)) ->
    cone_op2 q E G h s (OpExecEnd l pre c hs ok wd)
| c2_define c l i e o v nd :
    is_running c s -> (forall f, In f i -> input_in_cone E G h s f) ->
    cone_op2 q E G h s (OpDefineStep (KStep, c) l i e o v nd)
| c2_static c ps : is_running c s -> cone_op2 q E G h s (OpDeclareStatic (KStep, c) ps)
| c2_amend l i e o v :
    is_running l s -> (forall f, In f i -> input_in_cone E G h s f) ->
    cone_op2 q E G h s (OpAmendStep l i e o v)
| c2_hold l : cone_op2 q E G h s (OpHold l)
| c2_release l : cone_op2 q E G h s (OpRelease l).

Fixpoint cone_ops2 (q : st) (E G : list str) (h : list (st * op)) (s : st) (ops : list op) : Prop :=
  match ops with
  | [] => True
  | o :: ops' => cone_op2 q E G ((s, o) :: h) s o /\ cone_ops2 q E G ((s, o) :: h) (apply_op s o) ops'
  end.
Fixpoint rebuild_hist (h : list (st * op)) (s : st) (ops : list op) : list (st * op) :=
  match ops with
  | [] => h
  | o :: ops' => rebuild_hist ((s, o) :: h) (apply_op s o) ops'
  end.
(* every label that pop_next_job hands out (a command or only a hash check) *)
Fixpoint dispatched (ops : list op) : list str :=
  match ops with
  | [] => []
  | OpDispatch l :: ops' => l :: dispatched ops'
  | _ :: ops' => dispatched ops'
  end.

(* ---- executable versions (evaluated on real rebuild traces by the E2 correspondence) --------- *)
Definition decl_edges (o : op) : list (key * key) :=
  match o with
  | OpDefineStep c l _ _ ou v _ => (c, (KStep, l)) :: map (fun f => (c, (KFile, f))) (ou ++ v)
  | OpDeclareStatic c ps => map (fun f => (c, (KFile, f))) ps
  | OpAmendStep l _ _ ou v => map (fun f => ((KStep, l), (KFile, f))) (ou ++ v)
  | _ => []
  end.
Definition link_edges (s : st) : list (key * key) :=
  flat_map (fun n => match ncre n with Some a => [(a, nk n)] | None => [] end) (nodes s).
Definition step_edges (s : st) (o : op) : list (key * key) := dep_edges s ++ link_edges s ++ decl_edges o.
Definition cone_edges (h : list (st * op)) : list (key * key) :=
  flat_map (fun so => step_edges (fst so) (snd so)) h.
Definition cone_seeds (E G : list str) : list key :=
  map (fun f => (KFile, f)) E ++ map (fun l => (KStep, l)) G.
Definition tcone_keys_e (E G : list str) (edges : list (key * key)) : list key :=
  closure_from key_eqb edges (length edges) (cone_seeds E G).
Definition tcone_keys (E G : list str) (h : list (st * op)) : list key := tcone_keys_e E G (cone_edges h).
Definition tcone_b (E G : list str) (h : list (st * op)) (k : key) : bool := mem_key k (tcone_keys E G h).
(* the edges of the states visited so far, without repetitions (consecutive states share most rows) *)
Definition edge_eqb (a b : key * key) : bool := key_eqb (fst a) (fst b) && key_eqb (snd a) (snd b).
Definition add_edges (new acc : list (key * key)) : list (key * key) :=
  fold_left (fun acc e => if existsb (edge_eqb e) acc then acc else e :: acc) new acc.

Definition in_flight_b (l : str) (s : st) : bool :=
  match sstate_of l s with Some SRunning | Some SChecking => true | _ => false end.
Definition is_running_b (l : str) (s : st) : bool :=
  match sstate_of l s with Some SRunning => true | _ => false end.
Definition path_in_cone_b (cone : list key) (s : st) (p : str) : bool :=
  mem_key (KFile, p) cone &&
  match step_creator_of_file p s with Some cr => mem_key (KStep, cr) cone | None => true end.
Definition input_in_cone_b (cone : list key) (s : st) (l : str) : bool :=
  is_some (creator_of (KFile, l) s)
  || negb (match fstate_of l s with Some FBuilt => true | _ => false end)
  || mem_key (KFile, l) cone.

(* 0 = the transaction satisfies cone_op2; otherwise the clause that fails:
   1 transaction outside the covered alphabet, 2 EXTERNAL paths not edited static sources,
   3 a hash-update path (or its creator) outside the cone, 4 a step outside the cone marked PENDING,
   5 dispatch guard false, 6 an idle optional step outside the cone is dispatched,
   7 the job is not in flight, 8 the requesting step is not RUNNING,
   9 an orphaned BUILT input outside the cone is adopted *)
Definition cone_op2_why (q : st) (E : list str) (cone : list key) (s : st) (o : op) : N :=
  match o with
  | OpUpdateHashes CExternal hs =>
    if forallb (fun ph => mem_str (fst ph) E) hs && static_sources_b s hs then 0 else 2
  | OpUpdateHashes CConfirmed hs =>
    if forallb (fun ph => path_in_cone_b cone s (fst ph)) hs then 0 else 3
  | OpMarkStepPending l => if mem_key (KStep, l) cone then 0 else 4
  | OpDispatch l =>
    if negb (dispatch_guard l s) then 5
    else if negb (idle_optional_b q l) || mem_key (KStep, l) cone then 0 else 6
  | OpValidatePending l | OpResetForRerun l | OpResetToPending l => if in_flight_b l s then 0 else 7
  | OpExecEnd l pre c hs ok wd =>
    if negb (in_flight_b l s) then 7
    else if forallb (fun ph => path_in_cone_b cone s (fst ph)) (pre ++ hs) then 0 else 3
  | OpDefineStep (KStep, c) l i e ou v nd =>
    if negb (is_running_b c s) then 8 else if forallb (input_in_cone_b cone s) i then 0 else 9
  | OpDeclareStatic (KStep, c) ps => if is_running_b c s then 0 else 8
  | OpAmendStep l i e ou v =>
    if negb (is_running_b l s) then 8 else if forallb (input_in_cone_b cone s) i then 0 else 9
  | OpHold _ | OpRelease _ => 0
  | _ => 1
  end.
(* index and reason of the first transaction that does not satisfy cone_op2 (edges: the edges of
   the history so far) *)
Fixpoint cone_ops2_first_bad (q : st) (E G : list str) (i : nat) (edges : list (key * key)) (s : st)
         (ops : list op) : option (nat * N) :=
  match ops with
  | [] => None
  | o :: ops' =>
    let edges' := add_edges (step_edges s o) edges in
    match cone_op2_why q E (tcone_keys_e E G edges') s o with
    | 0 => cone_ops2_first_bad q E G (S i) edges' (apply_op s o) ops'
    | c => Some (i, c)
    end
  end.
Definition cone_ops2_b (q : st) (E G : list str) (s : st) (ops : list op) : bool :=
  match cone_ops2_first_bad q E G 0 [] s ops with None => true | Some _ => false end.

(* ------------------------------------------------------------------------------------------ *)
(* Extended trace checker (Graph.op + revert_optional) for the E2 correspondence               *)
(* ------------------------------------------------------------------------------------------ *)
Inductive xop := XOp (o : op) | XRevert.
Definition step_xop (x : xop) (s : st) : res st :=
  match x with XOp o => step_op o s | XRevert => revert_optional s end.
Fixpoint first_bad_x (i : nat) (s : st) (tr : list (xop * outcome * dump)) : option nat :=
  match tr with
  | [] => None
  | (o, oc, d) :: tr' =>
    let r := step_xop o s in
    let s' := match r with Ok x => x | _ => s end in
    if outcome_eqb (outcome_of r) oc && dump_eqb (dump_of s') d then first_bad_x (S i) s' tr'
    else Some i
  end.
Definition run_xops (ops : list xop) (s : st) : st :=
  fold_left (fun s x => match step_xop x s with Ok s' => s' | _ => s end) ops s.
Definition check_trace_x (cap : N) (tr : list (xop * outcome * dump)) : bool :=
  match first_bad_x 0 (init_st cap) tr with None => true | Some _ => false end.

(* ------------------------------------------------------------------------------------------ *)
(* The transactions SINCE /repo 84081f2 (fix of D39)                                              *)
(* ------------------------------------------------------------------------------------------ *)
(* Graph.step_op (body untouched by its owner) + the layer of model/GraphExt.v on the plain alphabet:
   - validate_dynamic_job with unchanged inputs: PENDING, deferred iff a dynamic input of the step is
     still unusable (Step.has_unusable_dynamic_input, decided in the recording transaction), no longer
     unconditionally;
   - trigger step_node_undefer_reattached: at the end of every other transaction the steps that consume
     a node that was detached before it and is attached after it lose the deferred flag.
   Only the deferred column of step rows differs from Graph.step_op.  This is the semantics the E2
   correspondence runs (check_trace_x2, run_xops2, cone_ops2_first_bad2); which theorems are proved over
   it and which over Graph.step_op: design.d/C04.md. *)
Definition step_op2 (o : op) (s : st) : res st :=
  match o with
  | OpValidatePending l => set_sstate l SPending (GraphExt.has_unusable_dynamic_input l s) s
  | _ => match step_op o s with
         | Ok s' => Ok (GraphExt.undefer_post s s')
         | Usage t => Usage t
         | Internal t => Internal t
         end
  end.
Definition apply_op2 (s : st) (o : op) : st := match step_op2 o s with Ok s' => s' | _ => s end.
Definition run_ops2 (ops : list op) (s : st) : st := fold_left apply_op2 ops s.
(* revert_optional_steps: raw updates of state columns, no node is re-attached: the trigger does not fire *)
Definition step_xop2 (x : xop) (s : st) : res st :=
  match x with XOp o => step_op2 o s | XRevert => revert_optional s end.
Fixpoint first_bad_x2 (i : nat) (s : st) (tr : list (xop * outcome * dump)) : option nat :=
  match tr with
  | [] => None
  | (o, oc, d) :: tr' =>
    let r := step_xop2 o s in
    let s' := match r with Ok x => x | _ => s end in
    if outcome_eqb (outcome_of r) oc && dump_eqb (dump_of s') d then first_bad_x2 (S i) s' tr'
    else Some i
  end.
Definition run_xops2 (ops : list xop) (s : st) : st :=
  fold_left (fun s x => match step_xop2 x s with Ok s' => s' | _ => s end) ops s.
Definition check_trace_x2 (cap : N) (tr : list (xop * outcome * dump)) : bool :=
  match first_bad_x2 0 (init_st cap) tr with None => true | Some _ => false end.
(* the clauses of cone_op2 along a rebuild that is stepped with the transactions since 84081f2 *)
Fixpoint cone_ops2_first_bad2 (q : st) (E G : list str) (i : nat) (edges : list (key * key)) (s : st)
         (ops : list op) : option (nat * N) :=
  match ops with
  | [] => None
  | o :: ops' =>
    let edges' := add_edges (step_edges s o) edges in
    match cone_op2_why q E (tcone_keys_e E G edges') s o with
    | 0 => cone_ops2_first_bad2 q E G (S i) edges' (apply_op2 s o) ops'
    | c => Some (i, c)
    end
  end.
(* the hypotheses and the objects of the cone theorem along a rebuild stepped with the transactions since
   84081f2 (cone_op2, the clause of one transaction, is unchanged) *)
Fixpoint cone_ops2x (q : st) (E G : list str) (h : list (st * op)) (s : st) (ops : list op) : Prop :=
  match ops with
  | [] => True
  | o :: ops' => cone_op2 q E G ((s, o) :: h) s o /\ cone_ops2x q E G ((s, o) :: h) (apply_op2 s o) ops'
  end.
Fixpoint rebuild_hist2 (h : list (st * op)) (s : st) (ops : list op) : list (st * op) :=
  match ops with
  | [] => h
  | o :: ops' => rebuild_hist2 ((s, o) :: h) (apply_op2 s o) ops'
  end.
Fixpoint executed2 (ops : list op) (s : st) : list str :=
  match ops with
  | [] => []
  | o :: ops' =>
    match o with
    | OpDispatch l => if has_hash l s then [] else [l]
    | _ => []
    end ++ executed2 ops' (apply_op2 s o)
  end.
Definition cone_ops2x_b (q : st) (E G : list str) (s : st) (ops : list op) : bool :=
  match cone_ops2_first_bad2 q E G 0 [] s ops with None => true | Some _ => false end.

Definition successful_history2 (cap : N) (hist : list xop) : Prop :=
  exists pre, hist = pre ++ [XRevert; XOp OpDeleteDetached] /\
              end_of_phase_b (run_xops2 pre (init_st cap)) = true.

(* A history (transactions of Graph.v plus revert_optional_steps) that ends in a successful build:
   the build phase ended successfully (end_of_phase_b), then finalize ran: revert_optional_steps,
   delete_detached. *)
Definition successful_history (cap : N) (hist : list xop) : Prop :=
  exists pre, hist = pre ++ [XRevert; XOp OpDeleteDetached] /\
              end_of_phase_b (run_xops pre (init_st cap)) = true.

(* ------------------------------------------------------------------------------------------ *)
(* The full sentence of the property, on histories of transactions of the stored workflow      *)
(* ------------------------------------------------------------------------------------------ *)
(* a build issues OpDispatch only for steps that satisfy the dispatch predicate *)
Fixpoint dispatch_enabled (ops : list op) (s : st) : Prop :=
  match ops with
  | [] => True
  | o :: ops' =>
    match o with OpDispatch l => dispatch_guard l s = true | _ => True end /\
    dispatch_enabled ops' (apply_op s o)
  end.
Definition consumes (s : st) (l f : str) : Prop := has_dep (KFile, f) (KStep, l) s = true.
Definition produces (s : st) (l f : str) : Prop := has_dep (KStep, l) (KFile, f) s = true.

Definition C04_full : Prop :=
  forall (cap : N) (hist : list xop),
    successful_history cap hist ->
    let q := run_xops hist (init_st cap) in
    (* rebuilding with nothing changed: restart flavour, watch flavour *)
    (forall rehash, unchanged_b q rehash = true ->
       run_ops (startup_ops q [] rehash) q = q /\ dispatchable q = [] /\
       revert_optional q = Ok q /\ delete_detached q = Ok q) /\
    (forall rehash, unchanged_watch_b q rehash = true ->
       run_ops (watch_ops q rehash) q = q /\ dispatchable q = [] /\
       revert_optional q = Ok q /\ delete_detached q = Ok q) /\
    (* after editing source files E (G: steps owning a glob pattern that matches an edited
       path): every executed command is justified *)
    (forall (E : list (str * option N)) (G : list str) (build : list op),
       forallb (fun ph => match fstate_of (fst ph) q with
                          | Some FConfirmed | Some FMissing => true | _ => false end) E = true ->
       let q1 := run_ops (map (fun ph => OpUpdateHashes CExternal [ph]) E ++ map OpMarkStepPending G) q in
       dispatch_enabled build q1 ->
       let s' := run_ops build q1 in
       forall l, In l (executed build q1) ->
         (exists f, In f (map fst E) /\ consumes q l f) \/ In l G \/
         (exists l' f, In l' (executed build q1) /\ l' <> l /\
                       (produces q l' f \/ produces s' l' f) /\ (consumes q l f \/ consumes s' l f)) \/
         (exists l', In l' (executed build q1) /\
                     (creator_of (KStep, l) q = Some (KStep, l') \/ creator_of (KStep, l) s' = Some (KStep, l')))).
