(* C14 model: the watcher (stepup/core/watcher.py), the watch-phase commit and the startup rescan
   (stepup/core/startup.py) over an abstract graph state.  Executable definitions only.

   (a) change_loop: delivered inotify events -> change items, with the `watches` dictionary;
       plus a small DOCUMENTED model of which events the kernel delivers for file operations
       (an assumption, exercised against real inotify by harness/p_c14.py).
   (b) Watcher.record_change: the fold of change items into (updated, deleted).
   (c) watch_commit (Watcher.run_once after end_watching) and startup_rescan
       (startup.rescan_files + rescan_nglobs), start_build_phase / reset_interrupted_steps. *)
From Coq Require Import List NArith Bool.
From SV Require Import lib.Bytes gen.GenWatch.
Import ListNotations.
Open Scope N_scope.

Definition path := str.
Definition SLASH : N := 47.

Definition pmem (p : path) (l : list path) : bool := existsb (str_eqb p) l.
Definition premove (p : path) (l : list path) : list path := filter (fun q => negb (str_eqb p q)) l.

(* ------------------------------------------------------------------------------------------ *)
(* (b) Watcher.record_change                                                                   *)
(* ------------------------------------------------------------------------------------------ *)

Inductive change : Set := Updated | Deleted | DeletedParent.

(* it_build: recorded with during_build=True (items queued while the build phase was running) *)
Record item : Set := mk_item { it_change : change; it_path : path; it_build : bool }.

Record wsets : Set := mk_ws { ws_updated : list path; ws_deleted : list path }.
Definition ws_empty : wsets := mk_ws [] [].

Section Fold.
  (* Workflow.change_is_relevant(path, during_build) and Workflow.relevant_paths_under(dir,
     during_build); the database does not change while changes are recorded. *)
  Variable relevant : bool -> path -> bool.
  Variable under : bool -> path -> list path.

  Definition add_deleted (w : wsets) (p : path) : wsets :=
    if pmem p (ws_deleted w) then w
    else mk_ws (premove p (ws_updated w)) (p :: ws_deleted w).

  Definition add_updated (w : wsets) (p : path) : wsets :=
    if pmem p (ws_updated w) then w
    else mk_ws (p :: ws_updated w) (premove p (ws_deleted w)).

  Definition record (w : wsets) (it : item) : wsets :=
    match it_change it with
    | Deleted =>
        if pmem (it_path it) (ws_deleted w) then w
        else if relevant (it_build it) (it_path it) then add_deleted w (it_path it) else w
    | Updated =>
        if pmem (it_path it) (ws_updated w) then w
        else if relevant (it_build it) (it_path it) then add_updated w (it_path it) else w
    | DeletedParent => fold_left add_deleted (under (it_build it) (it_path it)) w
    end.

  Definition fold_changes (items : list item) (w : wsets) : wsets := fold_left record items w.

  (* What one item means for one path: Some true = update, Some false = deletion, None = nothing. *)
  Definition effect (it : item) (p : path) : option bool :=
    match it_change it with
    | Updated => if str_eqb (it_path it) p && relevant (it_build it) p then Some true else None
    | Deleted => if str_eqb (it_path it) p && relevant (it_build it) p then Some false else None
    | DeletedParent => if pmem p (under (it_build it) (it_path it)) then Some false else None
    end.

  (* The last item of the sequence that means something for p (items are in arrival order). *)
  Fixpoint last_effect (items : list item) (p : path) : option bool :=
    match items with
    | [] => None
    | it :: rest => match last_effect rest p with Some b => Some b | None => effect it p end
    end.
End Fold.

(* ------------------------------------------------------------------------------------------ *)
(* (a) AsyncInotifyWrapper.change_loop                                                         *)
(* ------------------------------------------------------------------------------------------ *)

Record event : Set := mk_event { ev_mask : N; ev_path : path }.

Definition has_bit (m b : N) : bool := negb (N.land m b =? 0).
Definition is_deleted_mask (m : N) : bool := existsb (has_bit m) deleted_mask_bits.

(* AsyncInotifyWrapper.watches: key present with true = watch installed, with false = pending
   (the None entries), absent = no interest. *)
Definition watches := list (path * bool).

Fixpoint w_get (w : watches) (p : path) : option bool :=
  match w with
  | [] => None
  | (q, v) :: r => if str_eqb q p then Some v else w_get r p
  end.

Fixpoint w_set (w : watches) (p : path) (v : bool) : watches :=
  match w with
  | [] => [(p, v)]
  | (q, u) :: r => if str_eqb q p then (q, v) :: r else (q, u) :: w_set r p v
  end.

(* The directory tree as iterdir / is_file / is_dir see it when the event is handled:
   (path, is_dir), paths relative to the project root without trailing separator. *)
Definition tree := list (path * bool).
Definition t_is_dir (t : tree) (p : path) : bool := existsb (fun e => str_eqb (fst e) p && snd e) t.
Definition t_is_file (t : tree) (p : path) : bool := existsb (fun e => str_eqb (fst e) p && negb (snd e)) t.
Definition is_child (d q : path) : bool :=
  is_prefix (d ++ [SLASH]) q
  && negb (existsb (N.eqb SLASH) (skipn (length d + 1) q))
  && negb (Nat.eqb (length q) (length d + 1)).
Definition t_children (t : tree) (d : path) : list path :=
  map fst (filter (fun e => is_child d (fst e)) t).

Definition dir_label (p : path) : path := p ++ [SLASH].   (* path / "" *)

(* The ISDIR branch for a created / moved-in directory: breadth-first over `paths`. *)
Fixpoint rescan (fuel : nat) (self : bool) (t : tree) (w : watches) (todo : list path)
  : watches * list item :=
  match fuel with
  | O => (w, [])
  | S f =>
      match todo with
      | [] => (w, [])
      | d :: rest =>
          let self_item := if self then [mk_item Updated (dir_label d) false] else [] in
          match w_get w d with
          | None => let r := rescan f self t w rest in (fst r, self_item ++ snd r)
          | Some inst =>
              let w1 := if inst then w else w_set w d true in
              let kids := t_children t d in
              let files := filter (t_is_file t) kids in
              let dirs := filter (t_is_dir t) kids in
              let r := rescan f self t w1 (rest ++ dirs) in
              (fst r, self_item ++ map (fun q => mk_item Updated q false) files ++ snd r)
          end
      end
  end.

(* One iteration of change_loop.  `self` is the generated flag isdir_emits_self. *)
Definition process_event_gen (self : bool) (t : tree) (w : watches) (ev : event) : watches * list item :=
  let p := ev_path ev in
  let m := ev_mask ev in
  if has_bit m M_IGNORED then (w_set w p false, [])
  else
    let del := is_deleted_mask m in
    if has_bit m M_ISDIR then
      if del then
        let self_item := if self then [mk_item Deleted (dir_label p) false] else [] in
        match w_get w p with
        | Some true => (w_set w p false, mk_item DeletedParent p false :: self_item)
        | _ => (w, self_item)
        end
      else rescan (S (length t + length t)) self t w [p]
    else (w, [mk_item (if del then Deleted else Updated) p false]).

Definition process_event := process_event_gen isdir_emits_self.

(* Kernel model, file fragment (ASSUMPTION, trusted base; checked against real inotify):
   a regular file operation in a directory with an installed watch produces
     create:            CREATE, MODIFY, CLOSE_WRITE      (all classified UPDATED)
     overwrite:         MODIFY, CLOSE_WRITE
     unlink:            DELETE
     rename p -> q:     MOVED_FROM p (if p's directory is watched), MOVED_TO q (if q's is)
   and nothing when the directory has no watch.  Directory operations:
     mkdir d:           CREATE|ISDIR d            (parent watched)
     rmdir d:           DELETE_SELF d, IGNORED d  (d watched)  then DELETE|ISDIR d (parent watched)
     rename dir d -> e: MOVED_FROM|ISDIR d, MOVED_TO|ISDIR e, MOVE_SELF d (d watched)
   The directory rows are exercised by the harness only; the theorem below uses the file rows. *)
Definition ffs := path -> option N.            (* regular files: content id *)
Definition fupd (f : ffs) (p : path) (v : option N) : ffs := fun q => if str_eqb p q then v else f q.

Inductive fop : Set := FWrite (p : path) (c : N) | FRemove (p : path) | FMove (p q : path).

Definition fop_apply (f : ffs) (o : fop) : ffs :=
  match o with
  | FWrite p c => fupd f p (Some c)
  | FRemove p => fupd f p None
  | FMove p q =>
      match f p with
      | None => f
      | Some c => if str_eqb p q then f else fupd (fupd f p None) q (Some c)
      end
  end.

Section Kernel.
  Variable watched : path -> bool.   (* the directory that contains the path has an installed watch *)

  Definition kernel_events (f : ffs) (o : fop) : list event :=
    match o with
    | FWrite p c =>
        if watched p then
          match f p with
          | None => [mk_event M_CREATE p; mk_event M_MODIFY p; mk_event M_CLOSE_WRITE p]
          | Some _ => [mk_event M_MODIFY p; mk_event M_CLOSE_WRITE p]
          end
        else []
    | FRemove p =>
        match f p with
        | Some _ => if watched p then [mk_event M_DELETE p] else []
        | None => []
        end
    | FMove p q =>
        match f p with
        | None => []
        | Some _ =>
            if str_eqb p q then []
            else (if watched p then [mk_event M_MOVED_FROM p] else [])
                 ++ (if watched q then [mk_event M_MOVED_TO q] else [])
        end
    end.

  (* The items change_loop queues for a sequence of file operations (non-directory events do not
     touch `watches` and do not look at the tree). *)
  Fixpoint emitted (f : ffs) (ops : list fop) : list item :=
    match ops with
    | [] => []
    | o :: rest =>
        flat_map (fun ev => snd (process_event [] [] ev)) (kernel_events f o)
        ++ emitted (fop_apply f o) rest
    end.

  Fixpoint run_ops (f : ffs) (ops : list fop) : ffs :=
    match ops with [] => f | o :: rest => run_ops (fop_apply f o) rest end.
End Kernel.

(* ------------------------------------------------------------------------------------------ *)
(* (c) abstract graph state, watch-phase commit, startup rescan                                *)
(* ------------------------------------------------------------------------------------------ *)

Definition fh := N.   (* (digest, mode, size) as one value; None = unknown hash (file absent) *)
Definition ofh_eqb (a b : option fh) : bool :=
  match a, b with Some x, Some y => x =? y | None, None => true | _, _ => false end.

Record fnode : Set := mk_fnode { f_path : path; f_attached : bool; f_state : fstate; f_hash : option fh }.

(* one row of the nglob table: pattern id, registering step, is that step attached, recorded matches *)
Record ngrow : Set := mk_ng { ng_pat : N; ng_step : str; ng_attached : bool; ng_matches : list path }.

Inductive sstate : Set := SPending | SRunning | SChecking | SSucceeded | SFailed.
Record srow : Set := mk_srow { s_label : str; s_attached : bool; s_state : sstate }.

Definition mem_fstate (s : fstate) (l : list fstate) : bool := existsb (fstate_eqb s) l.

Fixpoint lookup_transition (k : cause * fstate * bool)
  (l : list ((cause * fstate * bool) * (fstate * option action))) : option (fstate * option action) :=
  match l with
  | [] => None
  | ((c, s, b), v) :: r =>
      let '(c0, s0, b0) := k in
      if cause_eqb c c0 && fstate_eqb s s0 && Bool.eqb b b0 then Some v else lookup_transition k r
  end.

(* FILE_SCHEMA trigger file_clear_hash *)
Definition clears_hash (old new : fstate) : bool :=
  match new with
  | FS_MISSING | FS_PLANNED | FS_VOLATILE => true
  | FS_UNCONFIRMED => match old with FS_BUILT | FS_OUTDATED => true | _ => false end
  | _ => false
  end.

Section Commit.
  (* Everything below the file table: step rows, dependency edges, stored step hashes ... *)
  Variable rest : Type.
  (* handle_updated_file / handle_deleted_file / mark_consuming_steps_pending on the file at `path`
     (its row already updated): may change file states (BUILT -> OUTDATED cascades) and the rest. *)
  Variable on_action : action -> path -> list fnode * rest -> list fnode * rest.
  (* persist_nglob_matches minus the data column: delete the step's hash, mark_step_pending *)
  Variable on_nglob_change : str -> list fnode * rest -> list fnode * rest.
  (* FileHash.refreshed on the file system at commit / restart time (C13: a function of the file) *)
  Variable hash_fs : path -> option fh.
  (* does the path exist (file, or directory for labels with a trailing separator) *)
  Variable exists_fs : path -> bool.
  (* the compiled regex of pattern id (C17: glob scan = regex filter of the tree) *)
  Variable matches : N -> path -> bool.
  (* every path that occurs anywhere, duplicate free, in the canonical (sorted) order *)
  Variable universe : list path.

  Record gstate : Type := mk_g { g_files : list fnode; g_nglobs : list ngrow; g_rest : rest }.

  Fixpoint set_file (l : list fnode) (p : path) (s : fstate) (h : option fh) : list fnode :=
    match l with
    | [] => []
    | f :: r =>
        if str_eqb (f_path f) p
        then mk_fnode (f_path f) (f_attached f) s (if clears_hash (f_state f) s then None else h) :: r
        else f :: set_file r p s h
    end.

  Fixpoint find_file (l : list fnode) (p : path) : option fnode :=
    match l with
    | [] => None
    | f :: r => if str_eqb (f_path f) p then Some f else find_file r p
    end.

  (* Workflow.update_file_hashes({path: new}, cause); None = ConsistencyError *)
  Definition apply_hash (g : gstate) (p : path) (c : cause) (new : option fh) : option gstate :=
    match find_file (g_files g) p with
    | None => None
    | Some f =>
        match lookup_transition (c, f_state f, match new with Some _ => true | None => false end) hash_transitions with
        | None => None
        | Some (s', act) =>
            let files' := set_file (g_files g) p s' new in
            let fr := match act with
                      | Some a => on_action a p (files', g_rest g)
                      | None => (files', g_rest g)
                      end in
            Some (mk_g (fst fr) (g_nglobs g) (snd fr))
        end
    end.

  (* one hash job: (path, old hash read up front, cause) -- Executor._run_hash_job *)
  Definition job := (path * option fh * cause)%type.
  Definition job_effective (j : job) : bool :=
    let '(p, old, c) := j in negb (ofh_eqb (hash_fs p) old) || cause_eqb c HC_CONFIRMED.
  (* Executor._is_stale_confirmation, evaluated inside the applying transaction (on the current state) *)
  Definition stale_confirmation (g : gstate) (p : path) (c : cause) : bool :=
    stale_confirmation_guard && cause_eqb c HC_CONFIRMED &&
    match find_file (g_files g) p with
    | None => true
    | Some f => negb (mem_fstate (f_state f) confirmation_states)
    end.
  Definition run_job (og : option gstate) (j : job) : option gstate :=
    match og with
    | None => None
    | Some g => let '(p, old, c) := j in
                if job_effective j
                then (if stale_confirmation g p c then Some g else apply_hash g p c (hash_fs p))
                else Some g
    end.
  Definition run_jobs (jobs : list job) (g : gstate) : option gstate := fold_left run_job jobs (Some g).

  (* Watcher.run_once: get_file_hashes(updated | deleted) (every node at such a path, detached ones
     included unless the generated flag says otherwise), cause EXTERNAL, in label order *)
  Definition watch_jobs_gen (attached_only : bool) (g : gstate) (U D : list path) : list job :=
    map (fun f => (f_path f, f_hash f, HC_EXTERNAL))
        (filter (fun f => pmem (f_path f) (U ++ D) && (negb attached_only || f_attached f)) (g_files g)).
  Definition watch_jobs := watch_jobs_gen commit_attached_only.

  (* startup.rescan_files *)
  Definition rescan_selected (f : fnode) : bool :=
    f_attached f && negb (mem_fstate (f_state f) rescan_excluded_states).
  Definition rescan_jobs (g : gstate) : list job :=
    map (fun f => (f_path f, f_hash f,
                   if fstate_eqb (f_state f) FS_UNCONFIRMED then HC_CONFIRMED else HC_EXTERNAL))
        (filter rescan_selected (g_files g)).

  (* pruning of unchanged re-hashes from `updated` (old hashes are those read before the jobs) *)
  Definition pruned (files0 : list fnode) (attached_only : bool) (p : path) : bool :=
    match find_file files0 p with
    | Some f => (negb attached_only || f_attached f) && ofh_eqb (hash_fs p) (f_hash f)
    | None => false
    end.

  Definition canon (sel : path -> bool) : list path := filter sel universe.
  Fixpoint paths_eqb (a b : list path) : bool :=
    match a, b with
    | [], [] => true
    | x :: a', y :: b' => str_eqb x y && paths_eqb a' b'
    | _, _ => false
    end.

  (* NamedGlob.will_change: extend(updated) then reduce(deleted) *)
  Definition evolved (r : ngrow) (U D : list path) : list path :=
    canon (fun p => (pmem p (ng_matches r) || (pmem p U && matches (ng_pat r) p))
                    && negb (pmem p D && matches (ng_pat r) p)).
  (* a fresh NamedGlob(pattern).glob() *)
  Definition rescanned (r : ngrow) : list path :=
    canon (fun p => exists_fs p && matches (ng_pat r) p).

  Fixpoint update_nglobs (new : ngrow -> list path) (rows : list ngrow) (fr : list fnode * rest)
    : list ngrow * (list fnode * rest) :=
    match rows with
    | [] => ([], fr)
    | r :: more =>
        if ng_attached r && negb (paths_eqb (new r) (ng_matches r))
        then let out := update_nglobs new more (on_nglob_change (ng_step r) fr) in
             (mk_ng (ng_pat r) (ng_step r) (ng_attached r) (new r) :: fst out, snd out)
        else let out := update_nglobs new more fr in (r :: fst out, snd out)
    end.

  Definition apply_nglobs (new : ngrow -> list path) (g : gstate) : gstate :=
    let out := update_nglobs new (g_nglobs g) (g_files g, g_rest g) in
    mk_g (fst (snd out)) (fst out) (snd (snd out)).

  Definition overlap (a b : list path) : bool := existsb (fun p => pmem p b) a.

  (* the part of Watcher.run_once after end_watching *)
  Definition watch_commit_gen (attached_only : bool) (g : gstate) (U D : list path) : option gstate :=
    match run_jobs (watch_jobs_gen attached_only g U D) g with
    | None => None
    | Some g1 =>
        let U' := filter (fun p => negb (pruned (g_files g) attached_only p)) U in
        if overlap D U' then None       (* process_nglob_changes: ConsistencyError *)
        else Some (apply_nglobs (fun r => evolved r U' D) g1)
    end.

  (* The same part of run_once as the translator reads it, statement by statement (gen.GenWatch
     commit_program).  The state: the graph, self.updated, self.deleted, and what `old_hashes` was read
     from (the file table at that moment, the attached-only filter, the (path, old hash, EXTERNAL) jobs
     for its items) plus whether `new_hashes` exists.  new_hashes[p] = hash_fs p (C13); the keys of both
     dictionaries are the nodes at a path of updated|deleted at the time of the read, and the two sets
     only shrink afterwards, so `pruned files0 ao p` is `new_hashes[p] == old_hashes[p]` for every p
     that is still in one of the sets.  None = the coroutine raised. *)
  Record cstate : Type := mk_cs {
    cs_g : gstate; cs_U : list path; cs_D : list path;
    cs_old : option (list fnode * bool * list job); cs_new : bool }.
  Definition cs_set (s : cstate) (x : wset) : list path := match x with SetU => cs_U s | SetD => cs_D s end.
  Definition exec_stmt (st : cstmt) (s : cstate) : option cstate :=
    match st with
    | CReadOld ao =>
        Some (mk_cs (cs_g s) (cs_U s) (cs_D s)
                    (Some (g_files (cs_g s), ao, watch_jobs_gen ao (cs_g s) (cs_U s) (cs_D s))) false)
    | CRehash =>
        match cs_old s with
        | None => None
        | Some (_, _, jobs) =>
            match run_jobs jobs (cs_g s) with
            | None => None
            | Some g1 => Some (mk_cs g1 (cs_U s) (cs_D s) (cs_old s) true)
            end
        end
    | CPrune pu pd =>
        match cs_old s with
        | Some (files0, ao, _) =>
            if cs_new s then
              let keep := fun p => negb (pruned files0 ao p) in
              Some (mk_cs (cs_g s) (if pu then filter keep (cs_U s) else cs_U s)
                          (if pd then filter keep (cs_D s) else cs_D s) (cs_old s) true)
            else None
        | None => None
        end
    | CNglob d u =>
        let Dv := cs_set s d in
        let Uv := cs_set s u in
        if overlap Dv Uv then None       (* process_nglob_changes: ConsistencyError *)
        else Some (mk_cs (apply_nglobs (fun r => evolved r Uv Dv) (cs_g s)) (cs_U s) (cs_D s) (cs_old s) (cs_new s))
    | CClear => Some (mk_cs (cs_g s) [] [] (cs_old s) (cs_new s))
    end.
  Fixpoint exec_prog (prog : list cstmt) (s : cstate) : option cstate :=
    match prog with
    | [] => Some s
    | st :: more => match exec_stmt st s with None => None | Some s1 => exec_prog more s1 end
    end.
  Definition run_commit (prog : list cstmt) (g : gstate) (U D : list path) : option gstate :=
    match exec_prog prog (mk_cs g U D None false) with None => None | Some s => Some (cs_g s) end.
  (* the shape the hand-written watch_commit_gen describes *)
  Definition base_program (ao : bool) : list cstmt :=
    [CReadOld ao; CRehash; CPrune true false; CNglob SetD SetU; CClear].
  Definition watch_commit := run_commit commit_program.

  (* startup.rescan_files; rescan_nglobs *)
  Definition startup_rescan (g : gstate) : option gstate :=
    match run_jobs (rescan_jobs g) g with
    | None => None
    | Some g1 => Some (apply_nglobs rescanned g1)
    end.

  (* Workflow.change_is_relevant on the state (during_build selects the stricter set) *)
  Definition find_attached (l : list fnode) (p : path) : option fnode :=
    find_file (filter f_attached l) p.
  Definition matches_any_glob (g : gstate) (p : path) : bool :=
    existsb (fun r => ng_attached r && matches (ng_pat r) p) (g_nglobs g).
  Definition change_is_relevant (g : gstate) (during_build : bool) (p : path) : bool :=
    match find_attached (g_files g) p with
    | Some f => mem_fstate (f_state f) (if during_build then relevant_states_during_build else relevant_states)
    | None => matches_any_glob g p
    end.
  (* Workflow.relevant_paths_under: attached nodes in a relevant state under dir/, then recorded
     matches of attached registrations under dir/, without duplicates *)
  Fixpoint dedup (l seen : list path) : list path :=
    match l with
    | [] => []
    | p :: r => if pmem p seen then dedup r seen else p :: dedup r (p :: seen)
    end.
  Definition relevant_paths_under (g : gstate) (during_build : bool) (d : path) : list path :=
    let pre := if str_eqb (skipn (length d - 1) d) [SLASH] then d else d ++ [SLASH] in
    let nodes := map f_path (filter (fun f => f_attached f
                   && mem_fstate (f_state f) (if during_build then relevant_states_during_build else relevant_states)
                   && is_prefix pre (f_path f)) (g_files g)) in
    let globs := flat_map (fun r => if ng_attached r then filter (is_prefix pre) (ng_matches r) else [])
                          (g_nglobs g) in
    dedup (nodes ++ globs) [].

  (* Decidable forms of the hypotheses of C14_watch_commit_equals_rescan (proofs/WatchProofs.v WellFormed,
     Covers, detached_unmatched; soundness: wf_b_sound, covers_b_sound, du_b_sound): the search for a
     counterexample of a translated commit_program evaluates them on generated instances. *)
  Fixpoint nodup_b (l : list path) : bool :=
    match l with [] => true | p :: r => negb (pmem p r) && nodup_b r end.
  Definition wf_b (g : gstate) : bool :=
    nodup_b (map f_path (g_files g))
    && forallb (fun f => negb (f_attached f && fstate_eqb (f_state f) FS_UNCONFIRMED)) (g_files g)
    && forallb (fun r => negb (ng_attached r) || forallb (fun p => matches (ng_pat r) p) (ng_matches r))
               (g_nglobs g).
  Definition du_b (g : gstate) : bool :=
    forallb (fun f => f_attached f || negb (matches_any_glob g (f_path f))) (g_files g).
  Definition covers_b (ao : bool) (g : gstate) (U D : list path) : bool :=
    forallb (change_is_relevant g false) U
    && forallb (change_is_relevant g false) D
    && negb (overlap U D)
    && forallb (fun f => negb (rescan_selected f) || pmem (f_path f) (U ++ D)
                         || ofh_eqb (hash_fs (f_path f)) (f_hash f)) (g_files g)
    && forallb (fun r => negb (ng_attached r)
                 || forallb (fun p => negb (matches (ng_pat r) p)
                               || Bool.eqb (exists_fs p)
                                    (if pmem p D then false
                                     else if pmem p U && negb (pruned (g_files g) ao p) then true
                                     else pmem p (ng_matches r))) universe) (g_nglobs g).
End Commit.
Arguments g_files {rest} _.
Arguments g_nglobs {rest} _.
Arguments g_rest {rest} _.
Arguments mk_g {rest} _ _ _.

(* start_build_phase (first transaction) versus startup.reset_interrupted_steps *)
Section FailedSteps.
  Variable rest : Type.
  (* Workflow.mark_step_pending on one step *)
  Variable mark_step_pending : str -> list srow * rest -> list srow * rest.

  Definition failed_attached (steps : list srow) : list str :=
    map s_label (filter (fun s => s_attached s && match s_state s with SFailed => true | _ => false end) steps).

  Definition mark_failed_pending (sr : list srow * rest) : list srow * rest :=
    fold_left (fun acc l => mark_step_pending l acc) (failed_attached (fst sr)) sr.

  (* DirectorHandler.start_build_phase, first transaction *)
  Definition start_build_pre := mark_failed_pending.

  (* raw UPDATEs of reset_interrupted_steps: RUNNING -> FAILED, CHECKING -> PENDING *)
  Definition raw_reset (steps : list srow) : list srow :=
    map (fun s => match s_state s with
                  | SRunning => mk_srow (s_label s) (s_attached s) SFailed
                  | SChecking => mk_srow (s_label s) (s_attached s) SPending
                  | _ => s
                  end) steps.
  Definition resume_reset (sr : list srow * rest) : list srow * rest :=
    mark_failed_pending (raw_reset (fst sr), snd sr).
End FailedSteps.
