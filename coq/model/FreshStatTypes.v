(* C03, "has this file changed since it was recorded": the data FileHash.refreshed works on.
   Definitions only.  gen/GenFreshStat.v (generated from hash.py) is written in these terms.

   A digest is a code: 0 stands for the placeholder b"u" of FileHash.unknown(); the SHA-256 value of
   a file's bytes is a code <> 0 (32 bytes never equal b"u"; equal codes = equal bytes is C13's
   collision assumption).  mtime is the float's value as a code (the comparison is ==). *)
From Coq Require Import List NArith Bool.
Import ListNotations.
Open Scope N_scope.

(* the attributes of hash.FileHash *)
Inductive hfield := HF_digest | HF_mode | HF_mtime | HF_size | HF_ino.
(* the fields of os.stat_result that hash.py reads *)
Inductive sfield := SF_mode | SF_mtime | SF_size | SF_ino.

(* a FileHash object *)
Record fhash := mkFH { fh_digest : N; fh_mode : N; fh_mtime : N; fh_size : N; fh_ino : N }.
(* what is under a path: the digest compute_file_digest would return, and os.stat *)
Record cfile := mkCF { cf_digest : N; cf_mode : N; cf_mtime : N; cf_size : N; cf_ino : N }.

Definition hf_get (f : hfield) (h : fhash) : N :=
  match f with HF_digest => fh_digest h | HF_mode => fh_mode h | HF_mtime => fh_mtime h
             | HF_size => fh_size h | HF_ino => fh_ino h end.
Definition sf_get (s : sfield) (c : cfile) : N :=
  match s with SF_mode => cf_mode c | SF_mtime => cf_mtime c | SF_size => cf_size c | SF_ino => cf_ino c end.

Definition hfield_eqb (a b : hfield) : bool :=
  match a, b with HF_digest, HF_digest | HF_mode, HF_mode | HF_mtime, HF_mtime | HF_size, HF_size
                | HF_ino, HF_ino => true | _, _ => false end.
Definition sfield_eqb (a b : sfield) : bool :=
  match a, b with SF_mode, SF_mode | SF_mtime, SF_mtime | SF_size, SF_size | SF_ino, SF_ino => true
                | _, _ => false end.
