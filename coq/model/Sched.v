(* Executable snapshot model of StepUp's scheduler metadata (C10, C11).  Definitions only.

   A graph is a snapshot of the tables that scheduling reads: step rows (with the node columns
   creator/detached folded in), file rows, other nodes (root, static trees), dependency edges with
   their dynamic flag, the target tables, the available resources and the need threshold.
   Keys are the node ids of the snapshot (any injective naming works; nothing depends on order).

   Specifications:  safe_spec / ready_spec / need_spec / eligible_spec.
   Algorithms:      update_meta_safe (FILL_SAFE_UPDATE + APPLY), update_meta_after (the Jacobi-style
                    UPDATE_CHECK_AFTER / PROPAGATE_CHECK_AFTER loop), update_meta_ready
                    (RECOMPUTE_READY), dispatch_set (SELECT_NEXT_STEP without ORDER BY/LIMIT),
                    complete_defer (Step.mark_completed defer logic), revert_optional
                    (finalize.revert_optional_steps), job_loop_may_end (Builder.job_loop),
                    and the primitive mutations with the trigger bodies taken from GenSched. *)
From Coq Require Import List NArith Bool Arith.
From SV Require Import lib.Bytes lib.SqlExpr gen.GenSched.
Import ListNotations.
Open Scope N_scope.

(* ------------------------------------------------------------------------------------------ *)
(* Data                                                                                       *)
(* ------------------------------------------------------------------------------------------ *)

Record step := mkStep {
  s_key : N; s_state : N; s_need : N; s_deferred : bool; s_defer_count : N; s_holding : N;
  s_detached : bool; s_creator : option N;
  s_safe : bool; s_safe_nh : bool; s_ineed : N; s_ready : bool;
  s_has_hash : bool;      (* the cached column _has_hash *)
  s_hash_stored : bool;   (* whether a step_hash row exists *)
  s_chk_safe : bool; s_chk_after : bool; s_chk_ready : bool;
  s_duration : N; s_tail : N;
  s_res : list (str * N) }.

Record file := mkFile {
  f_key : N; f_label : str; f_state : N; f_detached : bool; f_creator : option N; f_hash : bool }.

(* root and static-tree nodes: only their place in the creator forest matters *)
Record onode := mkOnode { o_key : N; o_detached : bool; o_creator : option N }.

Record dep := mkDep { d_src : N; d_snk : N; d_dyn : bool }.

Record graph := mkGraph {
  g_steps : list step; g_files : list file; g_others : list onode; g_deps : list dep;
  g_targets : list str; g_tdirs : list (str * str); g_avail : list (str * N);
  g_threshold : N }.

Definition with_steps (g : graph) (l : list step) : graph :=
  mkGraph l (g_files g) (g_others g) (g_deps g) (g_targets g) (g_tdirs g) (g_avail g) (g_threshold g).
Definition with_files (g : graph) (l : list file) : graph :=
  mkGraph (g_steps g) l (g_others g) (g_deps g) (g_targets g) (g_tdirs g) (g_avail g) (g_threshold g).
Definition with_others (g : graph) (l : list onode) : graph :=
  mkGraph (g_steps g) (g_files g) l (g_deps g) (g_targets g) (g_tdirs g) (g_avail g) (g_threshold g).
Definition with_deps (g : graph) (l : list dep) : graph :=
  mkGraph (g_steps g) (g_files g) (g_others g) l (g_targets g) (g_tdirs g) (g_avail g) (g_threshold g).

(* field setters *)
Definition set_safe (s : step) (a b : bool) : step :=
  mkStep (s_key s) (s_state s) (s_need s) (s_deferred s) (s_defer_count s) (s_holding s) (s_detached s)
    (s_creator s) a b (s_ineed s) (s_ready s) (s_has_hash s) (s_hash_stored s)
    (s_chk_safe s) (s_chk_after s) (s_chk_ready s) (s_duration s) (s_tail s) (s_res s).
Definition set_chk_safe (s : step) (c : bool) : step :=
  mkStep (s_key s) (s_state s) (s_need s) (s_deferred s) (s_defer_count s) (s_holding s) (s_detached s)
    (s_creator s) (s_safe s) (s_safe_nh s) (s_ineed s) (s_ready s) (s_has_hash s) (s_hash_stored s)
    c (s_chk_after s) (s_chk_ready s) (s_duration s) (s_tail s) (s_res s).
Definition set_after (s : step) (n t : N) : step :=
  mkStep (s_key s) (s_state s) (s_need s) (s_deferred s) (s_defer_count s) (s_holding s) (s_detached s)
    (s_creator s) (s_safe s) (s_safe_nh s) n (s_ready s) (s_has_hash s) (s_hash_stored s)
    (s_chk_safe s) (s_chk_after s) (s_chk_ready s) (s_duration s) t (s_res s).
Definition set_chk_after (s : step) (c : bool) : step :=
  mkStep (s_key s) (s_state s) (s_need s) (s_deferred s) (s_defer_count s) (s_holding s) (s_detached s)
    (s_creator s) (s_safe s) (s_safe_nh s) (s_ineed s) (s_ready s) (s_has_hash s) (s_hash_stored s)
    (s_chk_safe s) c (s_chk_ready s) (s_duration s) (s_tail s) (s_res s).
Definition set_ready (s : step) (r c : bool) : step :=
  mkStep (s_key s) (s_state s) (s_need s) (s_deferred s) (s_defer_count s) (s_holding s) (s_detached s)
    (s_creator s) (s_safe s) (s_safe_nh s) (s_ineed s) r (s_has_hash s) (s_hash_stored s)
    (s_chk_safe s) (s_chk_after s) c (s_duration s) (s_tail s) (s_res s).
Definition set_chk_ready (s : step) (c : bool) : step := set_ready s (s_ready s) c.
Definition set_life (s : step) (st : N) (df : bool) (dc h : N) : step :=
  mkStep (s_key s) st (s_need s) df dc h (s_detached s)
    (s_creator s) (s_safe s) (s_safe_nh s) (s_ineed s) (s_ready s) (s_has_hash s) (s_hash_stored s)
    (s_chk_safe s) (s_chk_after s) (s_chk_ready s) (s_duration s) (s_tail s) (s_res s).
Definition set_place (s : step) (det : bool) (cr : option N) : step :=
  mkStep (s_key s) (s_state s) (s_need s) (s_deferred s) (s_defer_count s) (s_holding s) det
    cr (s_safe s) (s_safe_nh s) (s_ineed s) (s_ready s) (s_has_hash s) (s_hash_stored s)
    (s_chk_safe s) (s_chk_after s) (s_chk_ready s) (s_duration s) (s_tail s) (s_res s).
Definition set_hash (s : step) (b : bool) : step :=
  mkStep (s_key s) (s_state s) (s_need s) (s_deferred s) (s_defer_count s) (s_holding s) (s_detached s)
    (s_creator s) (s_safe s) (s_safe_nh s) (s_ineed s) (s_ready s) b b
    (s_chk_safe s) (s_chk_after s) (s_chk_ready s) (s_duration s) (s_tail s) (s_res s).

Definition set_fstate (f : file) (st : N) (h : bool) : file :=
  mkFile (f_key f) (f_label f) st (f_detached f) (f_creator f) h.
Definition set_fplace (f : file) (det : bool) (cr : option N) : file :=
  mkFile (f_key f) (f_label f) (f_state f) det cr (f_hash f).
Definition set_oplace (o : onode) (det : bool) (cr : option N) : onode := mkOnode (o_key o) det cr.

Definition ocreator_is_key (o : option N) (k : N) : bool := match o with Some c => c =? k | None => false end.
Definition find_step (g : graph) (k : N) : option step := find (fun s => s_key s =? k) (g_steps g).
Definition find_file (g : graph) (k : N) : option file := find (fun f => f_key f =? k) (g_files g).

Definition maxl (d : N) (l : list N) : N := fold_right N.max d l.

(* ------------------------------------------------------------------------------------------ *)
(* _safe / _safe_ignoring_hold                                                                *)
(* ------------------------------------------------------------------------------------------ *)

Definition ok_nh (s : step) : bool := mem_N (s_state s) safe_ok_states.
Definition ok_h (s : step) : bool := ok_nh s && (s_holding s =? 0).

Definition creator_step (g : graph) (s : step) : option step :=
  match s_creator s with None => None | Some c => find_step g c end.

(* Specification: every step ancestor is RUNNING or SUCCEEDED (and, for the first component, not
   holding).  A creator without step row (root, or no creator at all) is trivially safe. *)
Fixpoint safe_fuel (n : nat) (g : graph) (s : step) : bool * bool :=
  match n with
  | O => (true, true)
  | S n' => match creator_step g s with
            | None => (true, true)
            | Some c => let v := safe_fuel n' g c in (fst v && ok_h c, snd v && ok_nh c)
            end
  end.
Definition safe_spec (g : graph) (s : step) : bool * bool := safe_fuel (length (g_steps g)) g s.

(* Whether s or one of its step ancestors carries the _check_safe flag. *)
Fixpoint aflag (n : nat) (g : graph) (s : step) : bool :=
  match n with
  | O => false
  | S n' => s_chk_safe s || match creator_step g s with None => false | Some c => aflag n' g c end
  end.

(* FILL_SAFE_UPDATE.  Seed row of a flagged step: from the creator's *cached* values. *)
Definition seed_val (g : graph) (s : step) : bool * bool :=
  match creator_step g s with
  | None => (true, true)
  | Some c => (s_safe c && ok_h c, s_safe_nh c && ok_nh c)
  end.

(* All rows of the recursive CTE `trace` for node s: one per flagged ancestor-or-self, in order of
   increasing depth below the flagged node (own seed first, the topmost flagged ancestor last). *)
Fixpoint trace_vals (n : nat) (g : graph) (s : step) : list (bool * bool) :=
  match n with
  | O => []
  | S n' =>
      (if s_chk_safe s then [seed_val g s] else []) ++
      match creator_step g s with
      | None => []
      | Some c => map (fun v => (fst v && ok_h c, snd v && ok_nh c)) (trace_vals n' g c)
      end
  end.

Definition merge_vals (pol : merge_policy) (l : list (bool * bool)) : option (bool * bool) :=
  match l with
  | [] => None
  | _ => Some (match pol with
               | MergeMin => (forallb fst l, forallb snd l)
               | MergeDeepest => last l (true, true)
               end)
  end.

Definition safe_fuel_of (g : graph) : nat := S (length (g_steps g)).

Definition update_meta_safe_with (pol : merge_policy) (g : graph) : graph :=
  with_steps g
    (map (fun s => match merge_vals pol (trace_vals (safe_fuel_of g) g s) with
                   | None => set_chk_safe s false
                   | Some v => set_chk_safe (set_safe s (fst v) (snd v)) false
                   end) (g_steps g)).
Definition update_meta_safe (g : graph) : graph := update_meta_safe_with safe_merge g.

(* ------------------------------------------------------------------------------------------ *)
(* _implied_need (and _tail_time, which shares the propagation)                               *)
(* ------------------------------------------------------------------------------------------ *)

Definition oenv (f : file) (c : ocol) : option N :=
  match c with OC_node_detached => Some (b2n (f_detached f)) | OC_file_state => Some (f_state f) end.
Definition regular_output (f : file) : bool := sholds (oenv f) gen_regular_output.

Definition outputs (g : graph) (k : N) : list file :=
  flat_map (fun d => if d_src d =? k then match find_file g (d_snk d) with Some f => [f] | None => [] end
                     else []) (g_deps g).
Definition is_target (g : graph) (f : file) : bool := existsb (str_eqb (f_label f)) (g_targets g).
(* byte-wise comparison of labels (SQLite BINARY collation) by a generated operator *)
Definition str_cmp (c : cmpop) (a b : str) : bool :=
  match c with
  | CEq => str_eqb a b | CNe => negb (str_eqb a b)
  | CLt => lex_lt a b | CLe => lex_le a b | CGt => lex_lt b a | CGe => lex_le b a
  end.
(* "under a named directory" by definition: the half-open range [path, upper) *)
Definition in_tdir_half_open (g : graph) (f : file) : bool :=
  existsb (fun pu => lex_le (fst pu) (f_label f) && lex_lt (f_label f) (snd pu)) (g_tdirs g).
(* the range as UPDATE_CHECK_AFTER has it (generated operators; C11_directory_range_is_half_open) *)
Definition in_tdir (g : graph) (f : file) : bool :=
  existsb (fun pu => str_cmp after_dir_lower (f_label f) (fst pu) && str_cmp after_dir_upper (f_label f) (snd pu))
          (g_tdirs g).

Definition elev (g : graph) (s : step) : N :=
  if existsb (fun f => regular_output f && is_target g f) (outputs g (s_key s)) then after_elev_target
  else if (s_need s =? after_dir_guard_need)
          && existsb (fun f => regular_output f && in_tdir g f) (outputs g (s_key s))
       then after_elev_target else after_elev_none.
Definition local_need (g : graph) (s : step) : N := N.max (s_need s) (elev g s).
Definition local_k (g : graph) (k : N) : N :=
  match find_step g k with Some s => local_need g s | None => after_sink_default end.
Definition duration_k (g : graph) (k : N) : N :=
  match find_step g k with Some s => s_duration s | None => 0 end.

(* attached steps two dependency hops downstream of k *)
Definition cons_keys (g : graph) (k : N) : list N :=
  flat_map (fun d1 =>
    if d_src d1 =? k then
      flat_map (fun d2 =>
        if d_src d2 =? d_snk d1 then
          match find_step g (d_snk d2) with
          | Some y => if s_detached y then [] else [s_key y]
          | None => []
          end
        else []) (g_deps g)
    else []) (g_deps g).

Definition attached_keys (g : graph) : list N :=
  map s_key (filter (fun s => negb (s_detached s)) (g_steps g)).

(* Specification: the fixed point of max(declared, target elevation, consumers). *)
Fixpoint need_fuel (n : nat) (g : graph) (k : N) : N :=
  match n with
  | O => local_k g k
  | S n' => N.max (local_k g k) (maxl after_sink_default (map (need_fuel n' g) (cons_keys g k)))
  end.
Definition need_spec (g : graph) (k : N) : N := need_fuel (length (g_steps g)) g k.

(* Values during the loop: key -> (_implied_need, _tail_time). *)
Definition vals := N -> N * N.
Definition vals_of (g : graph) : vals :=
  fun k => match find_step g k with Some s => (s_ineed s, s_tail s) | None => (after_sink_default, 0) end.
Definition new_val (g : graph) (v : vals) (k : N) : N * N :=
  (N.max (local_k g k) (maxl after_sink_default (map (fun y => fst (v y)) (cons_keys g k))),
   duration_k g k + maxl 0 (map (fun y => snd (v y)) (cons_keys g k))).
Definition pair_eqb (a b : N * N) : bool := (fst a =? fst b) && (snd a =? snd b).

(* One application of UPDATE_CHECK_AFTER (reads the old values only) + PROPAGATE_CHECK_AFTER. *)
Definition after_round (first : bool) (g : graph) (v : vals) (seed : list N) : vals * list N :=
  let written := filter (fun k => first || negb (pair_eqb (new_val g v k) (v k))) seed in
  (fun k => if mem_N k written then new_val g v k else v k,
   filter (fun p => existsb (fun y => mem_N y written) (cons_keys g p)) (attached_keys g)).

Fixpoint after_loop (fuel : nat) (first : bool) (g : graph) (v : vals) (seed : list N) : option vals :=
  match seed with
  | [] => Some v
  | _ => match fuel with
         | O => None
         | S n => let r := after_round first g v seed in after_loop n false g (fst r) (snd r)
         end
  end.

Definition seed0 (g : graph) : list N :=
  map s_key (filter (fun s => negb (s_detached s) && s_chk_after s) (g_steps g)).

Definition write_back (g : graph) (v : vals) : graph :=
  with_steps g (map (fun s => set_chk_after (set_after s (fst (v (s_key s))) (snd (v (s_key s)))) false)
                    (g_steps g)).

(* `first0`: the value of the driver's variable `first` in the first iteration (generated: after_first_round);
   with True the first UPDATE_CHECK_AFTER writes (and so propagates from) every seed, changed or not *)
Definition update_meta_after_from (first0 : bool) (g : graph) : option graph :=
  match after_loop (S (length (g_steps g))) first0 g (vals_of g) (seed0 g) with
  | Some v => Some (write_back g v)
  | None => None
  end.
Definition update_meta_after (g : graph) : option graph :=
  match after_loop (S (length (g_steps g))) after_first_round g (vals_of g) (seed0 g) with
  | Some v => Some (write_back g v)
  | None => None
  end.

(* ------------------------------------------------------------------------------------------ *)
(* _ready                                                                                     *)
(* ------------------------------------------------------------------------------------------ *)

Definition ienv (f : file) (d : dep) (c : icol) : option N :=
  match c with
  | IC_file_state => Some (f_state f)
  | IC_node_detached => Some (b2n (f_detached f))
  | IC_dyn_i => if d_dyn d then Some 1 else None
  end.
Definition unavailable (g : graph) (d : dep) : bool :=
  match find_file g (d_src d) with
  | Some f => sholds (ienv f d) gen_unavailable_input
  | None => false
  end.
Definition ready_spec (g : graph) (k : N) : bool :=
  negb (existsb (fun d => (d_snk d =? k) && unavailable g d) (g_deps g)).

Definition update_meta_ready (g : graph) : graph :=
  with_steps g (map (fun s => if s_chk_ready s then set_ready s (ready_spec g (s_key s)) false else s)
                    (g_steps g)).

(* pop_next_job, part A *)
Definition update_meta_with (pol : merge_policy) (g : graph) : option graph :=
  match update_meta_after (update_meta_safe_with pol g) with
  | Some g' => Some (update_meta_ready g')
  | None => None
  end.
Definition update_meta (g : graph) : option graph := update_meta_with safe_merge g.
(* the same with a given first-round behaviour of the _update_meta_after driver *)
Definition update_meta_from (first0 : bool) (g : graph) : option graph :=
  match update_meta_after_from first0 (update_meta_safe g) with
  | Some g' => Some (update_meta_ready g')
  | None => None
  end.

(* ------------------------------------------------------------------------------------------ *)
(* Dispatch                                                                                   *)
(* ------------------------------------------------------------------------------------------ *)

Definition senv_vals (st : N) (safe hh safe_nh df : bool) (ineed : N) (rdy : bool) (c : scol) : option N :=
  match c with
  | SC_state => Some st | SC_safe => Some (b2n safe) | SC_has_hash => Some (b2n hh)
  | SC_safe_nh => Some (b2n safe_nh) | SC_deferred => Some (b2n df) | SC_ineed => Some ineed
  | SC_ready => Some (b2n rdy)
  end.
Definition senv (s : step) : scol -> option N :=
  senv_vals (s_state s) (s_safe s) (s_has_hash s) (s_safe_nh s) (s_deferred s) (s_ineed s) (s_ready s).

Fixpoint assoc_str (name : str) (l : list (str * N)) : option N :=
  match l with
  | [] => None
  | (n, u) :: r => if str_eqb n name then Some u else assoc_str name r
  end.
Definition units_of (name : str) (s : step) : N :=
  match assoc_str name (s_res s) with Some u => u | None => 0 end.
(* SUM(units) over step_resource rows of RUNNING steps (attached or not) *)
Definition running_usage (g : graph) (name : str) : N :=
  fold_right N.add 0
    (map (units_of name) (filter (fun s => s_state s =? resource_running_state) (g_steps g))).
Definition res_unavailable (g : graph) (s : step) : bool :=
  existsb (fun nu => match assoc_str (fst nu) (g_avail g) with
                     | None => true
                     | Some a => a <? snd nu + running_usage g (fst nu)
                     end) (s_res s).

(* RESOURCE_UNAVAILABLE as the repository has it: the units subtracted are those of the steps that satisfy
   every generated conjunct (GenSched.ru_where); `w` is any such list *)
Definition ru_atom_holds (s : step) (a : ru_atom) : bool :=
  match a with
  | RuRunning => s_state s =? resource_running_state
  | RuAttached => negb (s_detached s)
  end.
Definition usage_with (w : list ru_atom) (g : graph) (name : str) : N :=
  fold_right N.add 0
    (map (units_of name) (filter (fun s => forallb (ru_atom_holds s) w) (g_steps g))).
Definition res_unavailable_with (w : list ru_atom) (g : graph) (s : step) : bool :=
  existsb (fun nu => match assoc_str (fst nu) (g_avail g) with
                     | None => true
                     | Some a => a <? snd nu + usage_with w g (fst nu)
                     end) (s_res s).

Definition eligible_cached_with (w : list ru_atom) (g : graph) (s : step) : bool :=
  sholds (senv s) gen_dispatch_where && (g_threshold g <? s_ineed s) && negb (s_detached s)
  && (s_has_hash s || negb (res_unavailable_with w g s)).
(* SELECT_NEXT_STEP as the repository has it: every generated conjunct of its WHERE clause (GenSched.sn_where) *)
Definition sn_atom_holds (w : list ru_atom) (g : graph) (s : step) (a : sn_atom) : bool :=
  match a with
  | SnDispatchWhere => sholds (senv s) gen_dispatch_where
  | SnAboveThreshold => g_threshold g <? s_ineed s
  | SnAttached => negb (s_detached s)
  | SnHashOrResources => s_has_hash s || negb (res_unavailable_with w g s)
  end.
Definition eligible_cached_q (q : list sn_atom) (w : list ru_atom) (g : graph) (s : step) : bool :=
  forallb (sn_atom_holds w g s) q.
Definition sn_full : list sn_atom := [SnDispatchWhere; SnAboveThreshold; SnAttached; SnHashOrResources].
Definition eligible_cached : graph -> step -> bool := eligible_cached_q sn_where ru_where.
Definition dispatch_set_q (q : list sn_atom) (w : list ru_atom) (g : graph) : list step :=
  filter (eligible_cached_q q w g) (g_steps g).
Definition dispatch_set_with (w : list ru_atom) (g : graph) : list step := filter (eligible_cached_with w g) (g_steps g).
Definition dispatch_set (g : graph) : list step := filter (eligible_cached g) (g_steps g).

(* The same decision with every cached attribute replaced by its definition. *)
Definition eligible_spec (g : graph) (s : step) : bool :=
  sholds (senv_vals (s_state s) (fst (safe_spec g s)) (s_hash_stored s) (snd (safe_spec g s))
                    (s_deferred s) (need_spec g (s_key s)) (ready_spec g (s_key s))) gen_dispatch_where
  && (g_threshold g <? need_spec g (s_key s)) && negb (s_detached s)
  && (s_hash_stored s || negb (res_unavailable g s)).

Definition dispatched_state (s : step) : N :=
  if s_has_hash s then dispatch_state_with_hash else dispatch_state_without_hash.

(* Builder.job_loop: the loop returns in an iteration only when no hash job was started, the
   scheduler was asked (a slot was free) and had nothing, and nothing runs or waits. *)
Definition job_loop_may_end (njob running done : N) (hash_job_started : bool)
           (pop_result : option (option step)) : bool :=
  negb hash_job_started
  && match pop_result with Some (Some _) => false | _ => true end
  && (running =? 0) && (done =? 0).
(* what pop_next_job was asked in this iteration *)
Definition job_loop_pop (njob running : N) (hash_job_started draining : bool) (g : graph)
  : option (option step) :=
  if hash_job_started then None
  else if running <? njob then
         Some (if draining then None
               else match update_meta g with
                    | Some g' => hd_error (dispatch_set g')
                    | None => None
                    end)
       else None.

(* ------------------------------------------------------------------------------------------ *)
(* Defer cap (Step.mark_completed, failure branch with wants_defer) and the state triggers    *)
(* ------------------------------------------------------------------------------------------ *)

Definition nenv (new_state new_holding : N) (c : ncol) : option N :=
  match c with
  | NC_new_state => Some new_state | NC_new_holding => Some new_holding
  | NC_old_state | NC_old_detached | NC_new_detached => None
  end.

(* UPDATE step SET state = st, deferred = df: the three AFTER UPDATE OF state triggers *)
Definition apply_state (s : step) (st : N) (df : bool) : step :=
  let h := if sholds (nenv st (s_holding s)) trg_reset_holding_when then 0 else s_holding s in
  let df' := if sholds (nenv st (s_holding s)) trg_clear_deferred_when then false else df in
  let dc := if sholds (nenv st (s_holding s)) trg_reset_defer_count_when then 0 else s_defer_count s in
  set_life s st df' dc h.

Definition complete_defer (cap : N) (has_unavail_dyn : bool) (s : step) : step :=
  let dc := s_defer_count s + 1 in
  let s1 := set_life s (s_state s) (s_deferred s) dc (s_holding s) in
  if cmp_eval defer_within_cap dc cap then apply_state s1 defer_state_within has_unavail_dyn
  else apply_state s1 defer_state_beyond false.

(* the events that can change defer_count or end a run of one step, for the counting theorem *)
Inductive cevent := EvDefer (unavail : bool) | EvFail | EvSucceed | EvSetState (st : N) (df : bool).
Definition apply_cevent (cap : N) (s : step) (e : cevent) : step :=
  match e with
  | EvDefer u => complete_defer cap u s
  | EvFail => apply_state s fail_state false
  | EvSucceed => apply_state s success_state false
  | EvSetState st df => apply_state s st df
  end.

(* ------------------------------------------------------------------------------------------ *)
(* Primitive mutations with their triggers                                                    *)
(* ------------------------------------------------------------------------------------------ *)

Definition flag_step (c : flagcol) (s : step) : step :=
  match c with
  | FSafe => set_chk_safe s true
  | FAfter => set_chk_after s true
  | FReady => set_chk_ready s true
  end.
Definition flag_keys (c : flagcol) (ks : list N) (g : graph) : graph :=
  with_steps g (map (fun s => if mem_N (s_key s) ks then flag_step c s else s) (g_steps g)).

Definition consumers_of_node (g : graph) (k : N) : list N :=
  map d_snk (filter (fun d => d_src d =? k) (g_deps g)).
Definition producers_of_node (g : graph) (k : N) : list N :=
  map d_src (filter (fun d => d_snk d =? k) (g_deps g)).

Definition node_detached (g : graph) (k : N) : bool :=
  match find_step g k with
  | Some s => s_detached s
  | None => match find_file g k with
            | Some f => f_detached f
            | None => match find (fun o => o_key o =? k) (g_others g) with
                      | Some o => o_detached o
                      | None => false
                      end
            end
  end.
(* interpretation of one trigger statement; `self` is the row's own node, `d` the dependency row *)
Definition target_keys (g : graph) (self : N) (d : option dep) (t : ttarget) : list N :=
  match t with
  | TSelf => [self]
  | TSource => match d with Some e => [d_src e] | None => [] end
  | TSink | TSinkOfDep => match d with Some e => [d_snk e] | None => [] end
  | TConsumersOfSelf => consumers_of_node g self
  | TProducersOfSource => match d with Some e => producers_of_node g (d_src e) | None => [] end
  (* "... AND NOT EXISTS (another edge from OLD.source to a node that is not detached)": the narrowed statement *)
  | TProducersOfSourceUnlessShared =>
      match d with
      | Some e => if existsb (fun d' => (d_src d' =? d_src e) && negb (node_detached g (d_snk d'))) (g_deps g)
                  then [] else producers_of_node g (d_src e)
      | None => []
      end
  end.
Definition run_trigger (body : list (flagcol * ttarget)) (self : N) (d : option dep) (g : graph) : graph :=
  fold_left (fun acc ct => flag_keys (fst ct) (target_keys acc self d (snd ct)) acc) body g.

Definition dep_eqb (a b : dep) : bool := (d_src a =? d_src b) && (d_snk a =? d_snk b).

(* INSERT INTO dependency (+ optional INSERT INTO dynamic_dep) *)
Definition ins_dep_with (trg : list (flagcol * ttarget)) (g : graph) (d : dep) : graph :=
  let g1 := with_deps g (g_deps g ++ [mkDep (d_src d) (d_snk d) false]) in
  let g2 := run_trigger trg 0 (Some d) g1 in
  if d_dyn d
  then run_trigger trg_dyn_ins 0 (Some d)
         (with_deps g2 (map (fun e => if dep_eqb e d then mkDep (d_src e) (d_snk e) true else e) (g_deps g2)))
  else g2.
Definition ins_dep := ins_dep_with trg_dep_ins.

(* DELETE FROM dynamic_dep (if dynamic; fires while the edge still exists) then DELETE FROM dependency *)
Definition del_dep_with (trg : list (flagcol * ttarget)) (g : graph) (d : dep) : graph :=
  let g1 := if d_dyn d
            then run_trigger trg_dyn_del 0 (Some d)
                   (with_deps g (map (fun e => if dep_eqb e d then mkDep (d_src e) (d_snk e) false else e)
                                     (g_deps g)))
            else g in
  let g2 := with_deps g1 (filter (fun e => negb (dep_eqb e d)) (g_deps g1)) in
  run_trigger trg 0 (Some d) g2.
Definition del_dep := del_dep_with trg_dep_del.
(* the trigger body without the statement that flags the producers of the source file *)
Definition trg_dep_del_sink_only : list (flagcol * ttarget) :=
  [(FAfter, TSource); (FAfter, TSink); (FReady, TSink)].
(* the narrowed body: the producers are flagged only when no other attached node still consumes the file *)
Definition trg_dep_del_unless_shared : list (flagcol * ttarget) :=
  [(FAfter, TSource); (FAfter, TSink); (FReady, TSink); (FAfter, TProducersOfSourceUnlessShared)].
Definition flags_producers (trg : list (flagcol * ttarget)) : bool :=
  existsb (fun ct => match ct with (FAfter, TProducersOfSource) => true | _ => false end) trg.

(* Step.set_state *)
Definition set_step_state (g : graph) (k : N) (st : N) (df : bool) : graph :=
  let g1 := with_steps g (map (fun s => if s_key s =? k then apply_state s st df else s) (g_steps g)) in
  run_trigger trg_step_state k None g1.

(* File.set_state (UPDATE file SET state): file_clear_hash is applied by the caller's `h` *)
Definition set_file_state (g : graph) (k : N) (st : N) (h : bool) : graph :=
  match find_file g k with
  | None => g
  | Some f0 =>
      let g1 := with_files g (map (fun f => if f_key f =? k then set_fstate f st h else f) (g_files g)) in
      if negb trg_file_state_upd_on_change_only || negb (f_state f0 =? st)
      then run_trigger trg_file_state_upd k None g1 else g1
  end.

(* creator forest: all nodes below k (any kind) *)
Definition node_creators (g : graph) : list (N * option N) :=
  map (fun s => (s_key s, s_creator s)) (g_steps g)
  ++ map (fun f => (f_key f, f_creator f)) (g_files g)
  ++ map (fun o => (o_key o, o_creator o)) (g_others g).
Fixpoint below_fuel (n : nat) (nc : list (N * option N)) (acc : list N) : list N :=
  match n with
  | O => acc
  | S n' =>
      let more := map fst (filter (fun kc => match snd kc with
                                             | Some c => mem_N c acc && negb (mem_N (fst kc) acc)
                                             | None => false end) nc) in
      match more with [] => acc | _ => below_fuel n' nc (acc ++ more) end
  end.
(* strict descendants of k *)
Definition below (g : graph) (k : N) : list N :=
  let nc := node_creators g in
  filter (fun x => negb (x =? k)) (below_fuel (length nc) nc [k]).
Definition step_subtree (g : graph) (k : N) : list N :=
  k :: filter (fun x => match find_step g x with Some _ => true | None => false end) (below g k).

(* UPDATE node SET detached = b for the nodes ks (fires step_node_check_ready_detached per row
   whose value really changes) *)
Definition set_detached_nodes_core (g : graph) (ks : list N) (b : bool) : graph :=
  let flipped :=
      map s_key (filter (fun s => mem_N (s_key s) ks && negb (Bool.eqb (s_detached s) b)) (g_steps g))
      ++ map f_key (filter (fun f => mem_N (f_key f) ks && negb (Bool.eqb (f_detached f) b)) (g_files g))
      ++ map o_key (filter (fun o => mem_N (o_key o) ks && negb (Bool.eqb (o_detached o) b)) (g_others g)) in
  let g1 := mkGraph
    (map (fun s => if mem_N (s_key s) ks then set_place s b (s_creator s) else s) (g_steps g))
    (map (fun f => if mem_N (f_key f) ks then set_fplace f b (f_creator f) else f) (g_files g))
    (map (fun o => if mem_N (o_key o) ks then set_oplace o b (o_creator o) else o) (g_others g))
    (g_deps g) (g_targets g) (g_tdirs g) (g_avail g) (g_threshold g) in
  fold_left (fun acc k => run_trigger trg_node_detached k None acc)
            (if trg_node_detached_on_change_only then flipped else ks) g1.

(* step_node_undefer_reattached (present or not: trg_undefer_on_reattach): AFTER UPDATE OF detached ON
   node WHEN OLD.detached AND NOT NEW.detached: UPDATE step SET deferred = FALSE WHERE deferred AND
   node IN (SELECT sink FROM dependency WHERE source = NEW.i) *)
Definition reattached_nodes (g : graph) (ks : list N) : list N :=
  map s_key (filter (fun s => mem_N (s_key s) ks && s_detached s) (g_steps g))
  ++ map f_key (filter (fun f => mem_N (f_key f) ks && f_detached f) (g_files g))
  ++ map o_key (filter (fun o => mem_N (o_key o) ks && o_detached o) (g_others g)).
(* a file row that a consumer can use: attached and CONFIRMED / BUILT (Scheduler._derive_job:
   `not detached and file_state in (BUILT, CONFIRMED)`) *)
Definition file_usable (f : file) : bool := negb (f_detached f) && mem_N (f_state f) dyn_available_states.
Definition src_is (p : file -> bool) (g : graph) (k : N) : bool :=
  existsb (fun f => (f_key f =? k) && p f) (g_files g).
(* step.unusable_dynamic_input_sql / Step.has_unusable_dynamic_input (query compared by the translator) = the
   negation of dynamic_inputs_ready in Scheduler._derive_job *)
Definition unusable_dyn (g : graph) (k : N) : bool :=
  existsb (fun d => (d_snk d =? k) && d_dyn d && src_is (fun f => negb (file_usable f)) g (d_src d)) (g_deps g).
(* `strict` (generated: trg_undefer_strict, the refined trigger): ... AND NOT EXISTS (unusable dynamic input of the
   step), evaluated on the tables after the UPDATE of the node rows *)
Definition undeferF_with (strict : bool) (g : graph) (ks : list N) (s : step) : step :=
  if s_deferred s && (existsb (fun d => mem_N (d_src d) ks && (d_snk d =? s_key s)) (g_deps g)
                      && (negb strict || negb (unusable_dyn g (s_key s))))
  then set_life s (s_state s) false (s_defer_count s) (s_holding s) else s.
Definition undefer_consumers_with (strict : bool) (g : graph) (ks : list N) : graph :=
  with_steps g (map (undeferF_with strict g ks) (g_steps g)).
Definition undeferF : graph -> list N -> step -> step := undeferF_with trg_undefer_strict.
Definition undefer_consumers : graph -> list N -> graph := undefer_consumers_with trg_undefer_strict.
Definition set_detached_nodes (g : graph) (ks : list N) (b : bool) : graph :=
  let g' := set_detached_nodes_core g ks b in
  if trg_undefer_on_reattach && negb b then undefer_consumers g' (reattached_nodes g ks) else g'.

(* RECURSIVE_CHECK_WITH_PRODUCTS *)
Definition flag_with_products (g : graph) (k : N) : graph :=
  let ks := step_subtree g k in flag_keys FAfter ks (flag_keys FSafe ks g).
(* RECURSIVE_CHECK_AFTER_SOURCES: the steps two dependency hops upstream of the step subtree of k
   (subtree step x <- file f <- source p) that satisfy every conjunct of the query's WHERE clause; the
   conjuncts are generated (GenSched.cas_where), `w` is any such list.  The UPDATE touches step rows only. *)
Definition cas_atom_holds (g : graph) (x f p : N) (a : cas_atom) : bool :=
  match a with
  | CasSrcIsStep => match find_step g p with Some _ => true | None => false end
  | CasSrcAttached => negb (node_detached g p)
  | CasNoOtherAttachedConsumer =>
      negb (existsb (fun d => (d_src d =? f) && negb (node_detached g (d_snk d))) (g_deps g))
  | CasNoOtherConsumer =>
      negb (existsb (fun d => (d_src d =? f) && negb (d_snk d =? x)) (g_deps g))
  end.
Definition cas_sources (w : list cas_atom) (g : graph) (sub : list N) : list N :=
  flat_map (fun x =>
    flat_map (fun f => filter (fun p => forallb (cas_atom_holds g x f p) w) (producers_of_node g f))
             (producers_of_node g x)) sub.
Definition flag_after_sources_with (w : list cas_atom) (g : graph) (k : N) : graph :=
  flag_keys FAfter (cas_sources w g (step_subtree g k)) g.
Definition flag_after_sources : graph -> N -> graph := flag_after_sources_with cas_where.
(* the atoms under which every attached producer of an input of the subtree is selected *)
Definition cas_atom_total (a : cas_atom) : bool :=
  match a with CasSrcIsStep | CasSrcAttached => true | _ => false end.

(* Step.hold / Step.release *)
Definition hold_step (g : graph) (k : N) : graph :=
  match find_step g k with
  | None => g
  | Some s0 =>
      let g1 := with_steps g (map (fun s => if s_key s =? k
                                            then set_life s (s_state s) (s_deferred s) (s_defer_count s) (s_holding s + 1)
                                            else s) (g_steps g)) in
      if s_holding s0 =? 0 then flag_with_products g1 k else g1
  end.
Definition release_step (g : graph) (k : N) : option graph :=
  match find_step g k with
  | None => None
  | Some s0 =>
      if s_holding s0 =? 0 then None
      else
        let g1 := with_steps g (map (fun s => if s_key s =? k
                                              then set_life s (s_state s) (s_deferred s) (s_defer_count s) (s_holding s - 1)
                                              else s) (g_steps g)) in
        Some (if s_holding s0 =? 1 then flag_with_products g1 k else g1)
  end.

(* Step.detach (Node.detach + flags) *)
Definition detach_step_with (w : list cas_atom) (g : graph) (k : N) : graph :=
  match find_step g k with
  | None => g
  | Some s0 =>
      let g2 :=
        match s_creator s0 with
        | None => g
        | Some _ =>
            let sub := below g k in
            let g1 := set_detached_nodes g [k] true in
            let g1' := with_steps g1 (map (fun s => if s_key s =? k then set_place s true None else s) (g_steps g1)) in
            if s_detached s0 then g1' else set_detached_nodes g1' sub true
        end in
      flag_after_sources_with w (flag_with_products g2 k) k
  end.
Definition detach_step : graph -> N -> graph := detach_step_with cas_where.

(* File.detach (Node.detach on a file node) *)
Definition detach_file (g : graph) (k : N) : graph :=
  match find_file g k with
  | None => g
  | Some f0 =>
      match f_creator f0 with
      | None => g
      | Some _ =>
          let sub := below g k in
          let g1 := set_detached_nodes g [k] true in
          let g1' := with_files g1 (map (fun f => if f_key f =? k then set_fplace f true None else f) (g_files g1)) in
          if f_detached f0 then g1' else set_detached_nodes g1' sub true
      end
  end.

(* Step.reattach to creator c (detached flag inherited from c: cdet) *)
Definition reattach_step (g : graph) (k c : N) (cdet : bool) : graph :=
  let g0 := set_detached_nodes g [k] cdet in
  let g1 := with_steps g0 (map (fun s => if s_key s =? k then set_place s cdet (Some c) else s) (g_steps g0)) in
  let g2 := set_detached_nodes g1 (below g1 k) cdet in
  flag_with_products g2 k.

(* a new step row (Step.initialize_row on a fresh node created by an attached/detached creator) *)
Definition create_step (g : graph) (k : N) (creator : option N) (det : bool) (need : N) (safe : bool)
           (stored : bool) (dur : N) (res : list (str * N)) : graph :=
  with_steps g (g_steps g ++
    [mkStep k init_state need false 0 0 det creator safe safe need false stored stored
            (negb safe) true true dur 1 res]).

(* ------------------------------------------------------------------------------------------ *)
(* finalize.revert_optional_steps                                                             *)
(* ------------------------------------------------------------------------------------------ *)

Definition optional_step (s : step) : bool := (s_ineed s =? revert_need) && negb (s_detached s).
Definition optional_keys (g : graph) : list N := map s_key (filter optional_step (g_steps g)).
Definition queued_file (g : graph) (f : file) : bool :=
  mem_N (f_state f) revert_queue_states
  && existsb (fun d => (d_snk d =? f_key f) && mem_N (d_src d) (optional_keys g)) (g_deps g).
(* (file key, true = remove only if the content still has the recorded hash) *)
Definition revert_queue (g : graph) : list (N * bool) :=
  map (fun f => (f_key f, negb (f_state f =? revert_keep_state))) (filter (queued_file g) (g_files g)).

Definition revert_optional (g : graph) : graph * list (N * bool) :=
  let opt := optional_keys g in
  let q := revert_queue g in
  (* UPDATE step SET state = PENDING ... WHERE state != PENDING : the state triggers fire *)
  let g1 := fold_left (fun (acc : graph) (s : step) =>
                         if mem_N (s_key s) opt && negb (s_state s =? revert_step_state)
                         then set_step_state acc (s_key s) revert_step_state (s_deferred s) else acc)
                      (g_steps g) g in
  let g2 := fold_left (fun (acc : graph) (kb : N * bool) =>
                         if snd kb then set_file_state acc (fst kb) revert_file_state false else acc)
                      q g1 in
  (g2, q).

(* ------------------------------------------------------------------------------------------ *)
(* A new director run with other targets: Scheduler.initialize + Workflow.reconcile_targets   *)
(* ------------------------------------------------------------------------------------------ *)

(* the temp tables target_path / target_dir and the threshold are rebuilt from the command line *)
Definition set_targets (g : graph) (ts : list str) (tds : list (str * str)) (thr : N) : graph :=
  mkGraph (g_steps g) (g_files g) (g_others g) (g_deps g) ts tds (g_avail g) thr.

(* reconcile_targets, the path that does not raise; its three parts are generated facts
   (GenSched.reconcile_parts: which of them the repository's function has):
   1. UPDATE step SET _check_after = 1 WHERE _implied_need = TARGET        (stale elevations)
   2. for every exact target that is an attached file in a state a target may have: flag its creator
   3. RECONCILE_TARGET_DIRS: flag the producers of the regular outputs inside a directory target *)
Definition reconcile_stale (g : graph) : list N :=
  map s_key (filter (fun s => s_ineed s =? reconcile_stale_need) (g_steps g)).
Definition find_attached_file (g : graph) (label : str) : option file :=
  find (fun f => str_eqb (f_label f) label && negb (f_detached f)) (g_files g).
Definition reconcile_exact (g : graph) : list N :=
  flat_map (fun t => match find_attached_file g t with
                     | Some f => if mem_N (f_state f) target_forbidden_states then []
                                 else match f_creator f with Some c => [c] | None => [] end
                     | None => []
                     end) (g_targets g).
Definition reconcile_dirs (g : graph) : list N :=
  flat_map (fun f => if regular_output f && in_tdir_half_open g f then producers_of_node g (f_key f) else [])
           (g_files g).
Definition reconcile_keys (parts : bool * bool * bool) (g : graph) : list N :=
  (if fst (fst parts) then reconcile_stale g else [])
  ++ (if snd (fst parts) then reconcile_exact g else [])
  ++ (if snd parts then reconcile_dirs g else []).
Definition reconcile_with (parts : bool * bool * bool) (g : graph) : graph :=
  flag_keys FAfter (reconcile_keys parts g) g.
Definition reconcile : graph -> graph := reconcile_with reconcile_parts.

(* hypotheses of the soundness theorem, decidable (checked on every real snapshot at a reconcile) *)
Definition labels_unique_b (g : graph) : bool :=
  forallb (fun f1 => forallb (fun f2 => f_detached f1 || f_detached f2 || negb (str_eqb (f_label f1) (f_label f2))
                                        || (f_key f1 =? f_key f2)) (g_files g)) (g_files g).
(* an attached output (a file with an edge from a step) is created by its producer and is not in a static state *)
Definition outinv_b (g : graph) : bool :=
  forallb (fun d => match find_step g (d_src d), find_file g (d_snk d) with
                    | Some _, Some f => f_detached f
                                        || (ocreator_is_key (f_creator f) (d_src d)
                                            && negb (mem_N (f_state f) static_file_states))
                    | _, _ => true
                    end) (g_deps g).

(* ------------------------------------------------------------------------------------------ *)
(* tui._normalize_targets: classification by the trailing separator only                      *)
(* ------------------------------------------------------------------------------------------ *)

Definition ends_with_sep (s : str) : bool :=
  match rev s with c :: _ => c =? target_dir_marker | [] => false end.
Section Normalize.
  (* Path(raw).absolute().relpath(root).normpath() as text, whatever it computes *)
  Context (norm : str -> str).
  Definition with_slash (s : str) : str := if ends_with_sep s then s else s ++ [target_dir_marker].
  (* None = ToolError (an empty target) *)
  Fixpoint normalize_targets (raw : list str) : option (list str * list str) :=
    match raw with
    | [] => Some ([], [])
    | r :: rest =>
        match r with
        | [] => None
        | _ => match normalize_targets rest with
               | None => None
               | Some (ts, ds) =>
                   if ends_with_sep r then Some (ts, with_slash (norm r) :: ds)
                   else Some (norm r :: ts, ds)
               end
        end
    end.
End Normalize.

(* ------------------------------------------------------------------------------------------ *)
(* Decidable forms of the invariants (evaluated on real snapshots by the harness; reflected    *)
(* into the propositions in proofs/SchedProofs.v)                                             *)
(* ------------------------------------------------------------------------------------------ *)

Definition bpair_eqb (a b : bool * bool) : bool := Bool.eqb (fst a) (fst b) && Bool.eqb (snd a) (snd b).

Definition flaginv_ready_b (g : graph) : bool :=
  forallb (fun s => s_chk_ready s || Bool.eqb (s_ready s) (ready_spec g (s_key s))) (g_steps g).

Definition flaginv_need_b (g : graph) : bool :=
  forallb (fun s => s_detached s || s_chk_after s
                    || existsb (fun y => mem_N y (seed0 g)) (cons_keys g (s_key s))
                    || (s_ineed s =? fst (new_val g (vals_of g) (s_key s)))) (g_steps g).

Definition flaginv_safe_b (g : graph) : bool :=
  forallb (fun s => aflag (S (length (g_steps g))) g s
                    || bpair_eqb (s_safe s, s_safe_nh s) (safe_spec g s)) (g_steps g).

Definition nostalelow_b (g : graph) : bool :=
  forallb (fun s => negb (s_chk_safe s)
                    || match creator_step g s with
                       | None => true
                       | Some c => implb (fst (safe_spec g c)) (s_safe c)
                                   && implb (snd (safe_spec g c)) (s_safe_nh c)
                       end) (g_steps g).

Definition has_hash_inv_b (g : graph) : bool :=
  forallb (fun s => Bool.eqb (s_has_hash s) (s_hash_stored s)) (g_steps g).

Definition allcorrect_b (g : graph) : bool :=
  forallb (fun s => bpair_eqb (s_safe s, s_safe_nh s) (safe_spec g s)
                    && (s_detached s || (s_ineed s =? need_spec g (s_key s)))
                    && Bool.eqb (s_ready s) (ready_spec g (s_key s))
                    && negb (s_chk_safe s) && negb (s_chk_after s) && negb (s_chk_ready s)) (g_steps g).

Fixpoint nodup_b (l : list N) : bool :=
  match l with [] => true | a :: r => negb (mem_N a r) && nodup_b r end.
Definition wf_b (g : graph) : bool := nodup_b (map s_key (g_steps g)).
(* unique node ids among the file rows *)
Definition fwf_b (g : graph) : bool := nodup_b (map f_key (g_files g)).

Definition creator_rank_b (g : graph) (rank : N -> nat) : bool :=
  forallb (fun s => match creator_step g s with
                    | Some c => (rank (s_key c) <? rank (s_key s))%nat
                    | None => true end
                    && (rank (s_key s) <? length (g_steps g))%nat) (g_steps g).
Definition need_rank_b (g : graph) (rank : N -> nat) : bool :=
  forallb (fun k => forallb (fun y => (rank y <? rank k)%nat) (cons_keys g k)) (map d_src (g_deps g))
  && forallb (fun k => (rank k <? length (g_steps g))%nat) (attached_keys g).

(* ------------------------------------------------------------------------------------------ *)
(* Sequences of primitive mutations (what a composite operation of workflow.py / step.py does   *)
(* to the tables this model reads)                                                             *)
(* ------------------------------------------------------------------------------------------ *)

Inductive prim :=
| PSetState (k st : N) (df : bool)
| PHold (k : N)
| PRelease (k : N)
| PInsDep (d : dep)
| PDelDep (d : dep)
| PSetFileState (k st : N) (h : bool)
| PDetach (k : N)
| PDetachFile (k : N)
| PReattach (k c : N) (cdet : bool)
| PSetHash (k : N) (b : bool)
| PIncDefer (k : N)
| PCreate (k : N) (creator : option N) (det : bool) (need : N) (safe stored : bool) (dur : N)
          (res : list (str * N))
(* node creation / deletion / take-over (the operations of trellis.py that the transaction model
   model/Graph.v performs; see model/SchedGraph.v) *)
| PCreateFile (k : N) (label : str) (st : N) (det : bool) (creator : option N)
| PDeleteStep (k : N)
| PDeleteFile (k : N)
| PPlaceFile (k : N) (creator : option N) (det : bool)
| PSetNeed (k need : N)
| PSetDuration (k d : N)
| PSetRes (k : N) (res : list (str * N)).

(* INSERT OR REPLACE INTO / DELETE FROM step_hash (with the _has_hash triggers) *)
Definition set_step_hash (g : graph) (k : N) (b : bool) : graph :=
  with_steps g (map (fun s => if s_key s =? k then set_hash s b else s) (g_steps g)).
(* UPDATE step SET defer_count = defer_count + 1 *)
Definition inc_defer (g : graph) (k : N) : graph :=
  with_steps g (map (fun s => if s_key s =? k
                              then set_life s (s_state s) (s_deferred s) (s_defer_count s + 1) (s_holding s)
                              else s) (g_steps g)).

(* INSERT INTO node + INSERT INTO file on a fresh node id (File.initialize_row, fresh-insert arm:
   hash NULL; step_file_check_ready_ins fires) *)
Definition create_file (g : graph) (k : N) (label : str) (st : N) (det : bool) (creator : option N) : graph :=
  run_trigger trg_file_ins k None (with_files g (g_files g ++ [mkFile k label st det creator false])).
(* DELETE FROM step WHERE node = k (Step.initialize_row) / DELETE FROM node (cascade) *)
Definition delete_step (g : graph) (k : N) : graph :=
  with_steps g (filter (fun s => negb (s_key s =? k)) (g_steps g)).
Definition delete_file (g : graph) (k : N) : graph :=
  with_files g (filter (fun f => negb (f_key f =? k)) (g_files g)).
(* UPDATE node SET creator = ?, detached = ? on a file node (Trellis.create, recycle branch) *)
Definition place_file (g : graph) (k : N) (creator : option N) (det : bool) : graph :=
  match find_file g k with
  | None => g
  | Some _ =>
      let g0 := set_detached_nodes g [k] det in
      with_files g0 (map (fun f => if f_key f =? k then set_fplace f det creator else f) (g_files g0))
  end.
(* Step.after_recycle: UPDATE step SET need = ?, shell = ?, _holding = 0 *)
Definition set_need_hold (s : step) (nd : N) : step :=
  mkStep (s_key s) (s_state s) nd (s_deferred s) (s_defer_count s) 0 (s_detached s)
    (s_creator s) (s_safe s) (s_safe_nh s) (s_ineed s) (s_ready s) (s_has_hash s) (s_hash_stored s)
    (s_chk_safe s) (s_chk_after s) (s_chk_ready s) (s_duration s) (s_tail s) (s_res s).
Definition set_step_need (g : graph) (k nd : N) : graph :=
  with_steps g (map (fun s => if s_key s =? k then set_need_hold s nd else s) (g_steps g)).
(* Step.set_duration (fires step_flag_check_after_duration) *)
Definition set_dur (s : step) (d : N) : step :=
  mkStep (s_key s) (s_state s) (s_need s) (s_deferred s) (s_defer_count s) (s_holding s) (s_detached s)
    (s_creator s) (s_safe s) (s_safe_nh s) (s_ineed s) (s_ready s) (s_has_hash s) (s_hash_stored s)
    (s_chk_safe s) (s_chk_after s) (s_chk_ready s) d (s_tail s) (s_res s).
Definition set_step_duration (g : graph) (k d : N) : graph :=
  run_trigger trg_duration k None
    (with_steps g (map (fun s => if s_key s =? k then set_dur s d else s) (g_steps g))).
(* Step.set_resources (DELETE + INSERT INTO step_resource) *)
Definition set_res (s : step) (r : list (str * N)) : step :=
  mkStep (s_key s) (s_state s) (s_need s) (s_deferred s) (s_defer_count s) (s_holding s) (s_detached s)
    (s_creator s) (s_safe s) (s_safe_nh s) (s_ineed s) (s_ready s) (s_has_hash s) (s_hash_stored s)
    (s_chk_safe s) (s_chk_after s) (s_chk_ready s) (s_duration s) (s_tail s) r.
Definition set_step_res (g : graph) (k : N) (r : list (str * N)) : graph :=
  with_steps g (map (fun s => if s_key s =? k then set_res s r else s) (g_steps g)).

Definition apply_prim (g : graph) (p : prim) : option graph :=
  match p with
  | PSetState k st df => Some (set_step_state g k st df)
  | PHold k => Some (hold_step g k)
  | PRelease k => release_step g k
  | PInsDep d => Some (ins_dep g d)
  | PDelDep d => Some (del_dep g d)
  | PSetFileState k st h => Some (set_file_state g k st h)
  | PDetach k => Some (detach_step g k)
  | PDetachFile k => Some (detach_file g k)
  | PReattach k c cdet => Some (reattach_step g k c cdet)
  | PSetHash k b => Some (set_step_hash g k b)
  | PIncDefer k => Some (inc_defer g k)
  | PCreate k cr det need safe stored dur res => Some (create_step g k cr det need safe stored dur res)
  | PCreateFile k label st det cr => Some (create_file g k label st det cr)
  | PDeleteStep k => Some (delete_step g k)
  | PDeleteFile k => Some (delete_file g k)
  | PPlaceFile k cr det => Some (place_file g k cr det)
  | PSetNeed k need => Some (set_step_need g k need)
  | PSetDuration k d => Some (set_step_duration g k d)
  | PSetRes k res => Some (set_step_res g k res)
  end.

Fixpoint run_prims (g : graph) (l : list prim) : option graph :=
  match l with
  | [] => Some g
  | p :: r => match apply_prim g p with Some g1 => run_prims g1 r | None => None end
  end.

(* decidable side conditions of the primitives *)
Definition outputs_owned_b (g : graph) (S : list N) : bool :=
  forallb (fun d => match find_file g (d_snk d) with
                    | Some f => implb (mem_N (f_key f) S) (mem_N (d_src d) S)
                    | None => true end) (g_deps g).
Definition no_edge_into_b (g : graph) (S : list N) : bool :=
  forallb (fun d => match find_file g (d_snk d) with
                    | Some f => negb (mem_N (f_key f) S)
                    | None => true end) (g_deps g).

(* a computable rank for the creator forest: the number of step ancestors (fuel = number of steps);
   creator_rank_b with this rank decides that the forest is well founded *)
Fixpoint cdepth (n : nat) (g : graph) (s : step) : nat :=
  match n with
  | O => O
  | S n' => match creator_step g s with None => O | Some c => S (cdepth n' g c) end
  end.
Definition crank (g : graph) (k : N) : nat :=
  match find_step g k with Some s => cdepth (length (g_steps g)) g s | None => O end.
Definition creator_acyclic_b (g : graph) : bool := creator_rank_b g (crank g).

Definition ocreator_is (o : option N) (k : N) : bool := match o with Some c => c =? k | None => false end.
Definition no_edge_to_b (g : graph) (k : N) : bool := forallb (fun d => negb (d_snk d =? k)) (g_deps g).
Definition no_edge_at_b (g : graph) (k : N) : bool :=
  forallb (fun d => negb (d_src d =? k) && negb (d_snk d =? k)) (g_deps g).
Definition no_child_step_b (g : graph) (k : N) : bool :=
  forallb (fun s => negb (ocreator_is (s_creator s) k)) (g_steps g).
Definition no_step_key_b (g : graph) (k : N) : bool := forallb (fun s => negb (s_key s =? k)) (g_steps g).

Definition prim_ok_b (g : graph) (p : prim) : bool :=
  match p with
  | PSetState _ _ _ | PHold _ | PRelease _ | PInsDep _ | PDelDep _ | PSetHash _ _ | PIncDefer _ => true
  | PSetFileState k st _ =>
      forallb (fun f => negb (f_key f =? k) || Bool.eqb (f_state f =? FS_VOLATILE) (st =? FS_VOLATILE)) (g_files g)
      || no_edge_to_b g k
  | PDetach k =>
      forallb (fun f => negb (f_key f =? k)) (g_files g) && outputs_owned_b g (k :: below g k)
  | PDetachFile k =>
      (forallb (fun s => negb (mem_N (s_key s) (k :: below g k))) (g_steps g) && no_edge_into_b g (k :: below g k))
      || (no_step_key_b g k && forallb (fun f => negb (f_key f =? k) || f_detached f) (g_files g))
  | PReattach k _ cdet =>
      outputs_owned_b g (k :: below g k)
      && (negb cdet || forallb (fun s => negb (mem_N (s_key s) (k :: below g k)) || s_detached s) (g_steps g))
  | PCreate k creator _ _ safe _ _ _ =>
      no_step_key_b g k && no_edge_to_b g k && no_child_step_b g k && creator_acyclic_b g
      && (negb safe || match creator with
                       | None => true
                       | Some c => negb (c =? k) && no_step_key_b g c
                       end)
  | PCreateFile k _ _ _ _ => forallb (fun f => negb (f_key f =? k)) (g_files g) && no_edge_at_b g k
  | PDeleteStep k => no_child_step_b g k && no_edge_to_b g k && creator_acyclic_b (delete_step g k)
  | PDeleteFile k => no_edge_at_b g k
  | PPlaceFile k _ _ => no_step_key_b g k && no_edge_to_b g k
  | PSetNeed k _ => forallb (fun s => negb (s_key s =? k) || (s_chk_safe s && s_chk_after s)) (g_steps g)
  | PSetDuration _ _ | PSetRes _ _ => true
  end.

Fixpoint run_ok_b (g : graph) (l : list prim) : bool :=
  match l with
  | [] => true
  | p :: r => prim_ok_b g p && match apply_prim g p with Some g1 => run_ok_b g1 r | None => true end
  end.
