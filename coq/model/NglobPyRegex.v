(* C17: additional vocabulary of the TRANSLATED main loop of convert_nglob_to_regex
   (gen/GenNglobRegex.v, translator/gen_nglob_regex.py).  Definitions only. *)
From Coq Require Import List NArith Bool Arith.
From SV Require Import lib.Bytes.
From SV Require Import lib.Regex.
From SV Require Import model.Nglob.
From SV Require Import model.NglobPy.
Import ListNotations.
Open Scope N_scope.

(* part[k] for a constant k >= 0 (None: IndexError, never reached behind the startswith/endswith guards) *)
Definition t_char (t : tok) (k : nat) : option N := nth_error (tok_text t) k.
(* part[k] == "c" *)
Definition ochar_eq (o : option N) (c : N) : bool := match o with Some x => x =? c | None => false end.
(* x is None *)
Definition is_none {A} (o : option A) : bool := match o with None => true | Some _ => false end.
