(* The bridge between the transaction model of the stored workflow (model/Graph.v, property C09) and
   the scheduling-metadata model (model/Sched.v, properties C10/C11).  Definitions only.

   For every operation of Graph.v's transaction alphabet this file says which Sched primitives
   (row writes with their triggers) the operation performs: every function of Graph.v that changes
   the state has a traced twin `f_t` that threads the state exactly as `f` does and, next to it,
   emits the list of Sched primitives.  `prims_of_op` is the list emitted by a whole transaction;
   a rejected or crashed transaction is rolled back, flags included, so it emits nothing.

   Node ids: Graph.v is keyed by (kind,label), Sched.v by the integer node id.  `idf` is any
   injective naming of keys (a Section variable; the theorems hold for every injective naming, the
   correspondence instantiates it with the ids of the real database).

   Order: the primitives are emitted in the order of the row writes of trellis.py / workflow.py /
   step.py, with two documented exceptions in the recycle branch of Trellis.create, where the code
   updates the node row (creator, detached) BEFORE it deletes the incoming edges / re-inserts the
   step row, which leaves the cached values unflagged for the duration of a few statements inside
   the transaction:
     * file node:  the code does  UPDATE node; old_creator.after_lost_product(); DELETE edges;
                                  File.initialize_row (state; mark_file_outdated for a former BUILT output);
                   the projection   DELETE edges; after_lost_product; File.initialize_row; UPDATE node;
     * step node:  the code does  UPDATE node; after_lost_product; DELETE edges; detach products;
                                  DELETE step row; INSERT step row;
                   the projection   DELETE edges; after_lost_product; detach products; DELETE step row;
                                  INSERT step row with the new creator and detached flag (the Sched
                                  snapshot folds the node columns into the step row).
   Both orders end in the same tables (the correspondence replays the projection of every real
   transaction and compares all scheduling columns).  Likewise amend_step inserts the dynamic_dep rows
   after all dependency rows; the projection marks an edge dynamic when it inserts it. *)
From Coq Require Import List NArith Bool.
From SV Require Import lib.Bytes lib.Closure lib.SqlExpr gen.GenSched model.Graph model.Sched.
Import ListNotations.
Open Scope N_scope.

(* what define_step passes on to the step row besides the arguments modelled in Graph.v *)
Record ann := mkAnn { a_dur : option N; a_res : list (str * N) }.
Definition no_ann : ann := mkAnn None [].

Definition tres (S : Type) := res (S * list prim).
Definition retT {S} (s : S) : tres S := Ok (s, []).
Definition liftT {S} (r : res S) : tres S :=
  match r with Ok s => Ok (s, []) | Usage t => Usage t | Internal t => Internal t end.
Definition bindT {S T} (r : tres S) (f : S -> tres T) : tres T :=
  match r with
  | Ok (s1, l1) => match f s1 with
                   | Ok (s2, l2) => Ok (s2, l1 ++ l2)
                   | Usage t => Usage t
                   | Internal t => Internal t
                   end
  | Usage t => Usage t
  | Internal t => Internal t
  end.
Notation "'dot' x <- r ; k" := (bindT r (fun x => k)) (at level 200, x name, r at level 100, k at level 200).
Fixpoint foldT {A S} (f : S -> A -> tres S) (l : list A) (s : S) : tres S :=
  match l with [] => retT s | a :: l' => dot s' <- f s a; foldT f l' s' end.
Definition erase {S} (r : tres S) : res S :=
  match r with Ok (s, _) => Ok s | Usage t => Usage t | Internal t => Internal t end.
Definition trace_of {S} (r : tres S) : list prim := match r with Ok (_, l) => l | _ => [] end.

Section SG.
Variable idf : key -> N.

Definition fk (l : str) : N := idf (KFile, l).
Definition sk (l : str) : N := idf (KStep, l).
Definition dep_of (d : Graph.dep) : Sched.dep := mkDep (idf (dsrc d)) (idf (dsnk d)) (ddyn d).
Definition oid (o : option key) : option N := option_map idf o.

(* ---- row updates ---- *)
Definition set_fstate_hash_t (l : str) (new : fstate) (newh : option (option N)) (s : st) : tres st :=
  match Graph.find_file l s with
  | None => retT s
  | Some r =>
    let h1 := match newh with Some h => h | None => fh r end in
    if needs_hash new && match h1 with None => true | Some _ => false end then Internal 101
    else
      let h2 := if clears_hash (fstt r) new then None else h1 in
      if fstate_eqb new FUndeclared && negb (is_detached (KFile, l) s) then Internal 102
      else Ok (upd_file l (fun r => mkF (fl r) new h2) s,
               [PSetFileState (fk l) (fstate_code new) (is_some h2)])
  end.
Definition set_fstate_t (l : str) (new : fstate) (s : st) : tres st := set_fstate_hash_t l new None s.

Definition set_sstate_t (l : str) (new : sstate) (d : bool) (s : st) : tres st :=
  match Graph.find_step l s with
  | None => retT s
  | Some r =>
    if d && negb (sstate_eqb new SPending) then Internal 103
    else
      let hold := if sstate_eqb new SRunning then shold r else 0 in
      let d' := match new with SSucceeded | SFailed => false | _ => d end in
      let dc := match new with SSucceeded => 0 | _ => sdc r end in
      Ok (upd_step l (fun r => mkS (sl r) new (sneed r) d' dc hold) s,
          [PSetState (sk l) (sstate_code new) d])
  end.
Definition set_sstate_raw_t (l : str) (new : sstate) (s : st) : tres st :=
  match Graph.find_step l s with
  | None => retT s
  | Some r => set_sstate_t l new (sdef r) s
  end.

Definition delete_hash_t (l : str) (s : st) : tres st := Ok (delete_hash l s, [PSetHash (sk l) false]).
Definition store_hash_t (l : str) (s : st) : tres st := Ok (store_hash l s, [PSetHash (sk l) true]).

Definition del_deps_where_t (p : Graph.dep -> bool) (s : st) : tres st :=
  Ok (del_deps_where p s, map (fun d => PDelDep (dep_of d)) (filter p (deps s))).
Definition del_all_sources_t (k : key) (s : st) : tres st :=
  del_deps_where_t (fun d => key_eqb (dsnk d) k) s.

(* ---- state propagation ---- *)
Fixpoint mark_step_pending_ft (fuel : nat) (l : str) (s : st) : tres st :=
  match fuel with
  | O => Internal 199
  | S fuel' =>
    match sstate_of l s with
    | None => Internal 104
    | Some SRunning | Some SChecking => retT s
    | Some old =>
      dot s1 <- set_sstate_t l SPending false s;
      match old with
      | SSucceeded | SFailed =>
        foldT (fun s f =>
                 match fstate_of f s with
                 | Some FBuilt => mark_file_outdated_ft fuel' f s
                 | _ => retT s
                 end) (file_sinks_of_step l s1) s1
      | _ => retT s1
      end
    end
  end
with mark_file_outdated_ft (fuel : nat) (f : str) (s : st) : tres st :=
  match fuel with
  | O => Internal 199
  | S fuel' =>
    match fstate_of f s with
    | Some FBuilt =>
      dot s1 <- set_fstate_t f FOutdated s;
      foldT (fun s l => mark_step_pending_ft fuel' l s) (step_sinks_of_file f s1) s1
    | Some FOutdated => retT s
    | _ => Internal 105
    end
  end.
Definition mark_step_pending_t (l : str) (s : st) : tres st := mark_step_pending_ft (fuel_of s) l s.
Definition mark_file_outdated_t (f : str) (s : st) : tres st := mark_file_outdated_ft (fuel_of s) f s.
Definition mark_consumers_pending_t (f : str) (s : st) : tres st :=
  foldT (fun s l => mark_step_pending_t l s) (step_sinks_of_file f s) s.

(* ---- trellis ---- *)
Definition after_lost_product_t (k : key) (s : st) : tres st :=
  match fst k with
  | KStep => delete_hash_t (snd k) s
  | KTree => retT s
  | KFile | KRoot => Internal 106
  end.

(* Node.detach, with the class-specific flags of Step.detach *)
Definition detach_prims (k : key) : list prim :=
  match fst k with
  | KStep => [PDetach (idf k)]
  | KFile => [PDetachFile (idf k)]
  | _ => []
  end.
Definition node_detach_t (k : key) (s : st) : tres st :=
  match node_detach k s with
  | Ok s' => Ok (s', detach_prims k)
  | Usage t => Usage t
  | Internal t => Internal t
  end.

(* Step.reattach (try_recycle) *)
Definition node_reattach_t (k c : key) (s : st) : tres st :=
  match find_node k s, find_node c s with
  | Some n, Some cn =>
    if negb (ndet n) then Internal 108
    else if key_eqb c k then Internal 124
    else if negb (creator_kind_ok (fst k) (fst c)) then Internal 122
    else if mem_key c (rec_products k s) then Internal 126
    else
      let det := ndet cn in
      let s1 := upd_node k (fun n => mkNode (nk n) (Some c) det) s in
      dot s2 <- match ncre n with
                | None => retT s1
                | Some oc =>
                  if negb (is_detached oc s) then Internal 109
                  else after_lost_product_t oc s1
                end;
      Ok (set_detached_rec k det s2, [PReattach (idf k) (idf c) det])
  | _, _ => Internal 110
  end.

Definition file_initialize_row_t (creator : option key) (cdet : bool) (l : str) (req : fstate) (s : st)
  : tres st :=
  let old := Graph.find_file l s in
  let state := match req, old with
               | FUndeclared, Some r =>
                 match fstt r with FBuilt => FBuilt | FOutdated => FOutdated | FVolatile => FVolatile | _ => req end
               | FPlanned, Some r =>
                 match fstt r with FBuilt => FBuilt | FOutdated => FOutdated | _ => req end
               | _, _ => req
               end in
  dot s1 <- match old with
            | Some _ => set_fstate_t l state s
            | None =>
              if needs_hash state then Internal 111
              else if fstate_eqb state FUndeclared && negb (is_detached (KFile, l) s) then Internal 112
              else Ok (set_files s (files s ++ [mkF l state None]),
                       [PCreateFile (fk l) l (fstate_code state) cdet (oid creator)])
            end;
  match state with
  | FBuilt => mark_file_outdated_t l s1
  | _ => retT s1
  end.

Section Create.
Variable a : ann.

(* the step row of Step.initialize_row *)
Definition new_step_prim (k : key) (creator : option key) (cdet : bool) (nd : need) (s : st) : prim :=
  PCreate (idf k) (oid creator) cdet (need_code nd)
          (match creator with Some c => key_eqb c root_key | None => false end)
          (has_hash (snd k) s)
          (match a_dur a with Some d => d | None => 1 end) (a_res a).

(* Trellis.create *)
Definition create_t (k : key) (creator : option key) (arg : init_arg) (s : st) : tres st :=
  let cdet := match creator with None => true | Some c => is_detached c s end in
  match creator_ok k creator s with
  | Usage t => Usage t
  | Internal t => Internal t
  | Ok _ =>
    match find_node k s with
    | Some n =>
      if negb (ndet n) then Internal 113
      else
        let s1 := upd_node k (fun n => mkNode (nk n) creator cdet) s in
        match (match ncre n with
               | None => retT s1
               | Some oc =>
                 if negb (is_detached oc s) then Internal 114
                 else after_lost_product_t oc s1
               end) with
        | Usage t => Usage t
        | Internal t => Internal t
        | Ok (s2, ph) =>
          match del_all_sources_t k s2 with
          | Usage t => Usage t
          | Internal t => Internal t
          | Ok (s3, pd) =>
            match foldT (fun s p => node_detach_t p s) (products k s3) s3 with
            | Usage t => Usage t
            | Internal t => Internal t
            | Ok (s4, px) =>
              match arg with
              | InitFile f =>
                dot s5 <- Ok (s4, pd ++ ph ++ px);
                dot s6 <- file_initialize_row_t creator cdet (snd k) f s5;
                Ok (s6, [PPlaceFile (idf k) (oid creator) cdet])
              | InitStep nd =>
                dot s5 <- Ok (s4, pd ++ ph ++ px ++ [PDeleteStep (idf k)]);
                dot s6 <- liftT (step_initialize_row (snd k) nd s5);
                Ok (s6, [new_step_prim k creator cdet nd s5])
              | InitTree => Ok (s4, pd ++ ph ++ px)
              end
            end
          end
        end
    | None =>
      let s1 := set_nodes s (nodes s ++ [mkNode k creator cdet]) in
      match arg with
      | InitFile f => file_initialize_row_t creator cdet (snd k) f s1
      | InitStep nd =>
        dot s2 <- liftT (step_initialize_row (snd k) nd s1);
        Ok (s2, [new_step_prim k creator cdet nd s1])
      | InitTree => retT s1
      end
    end
  end.

Definition add_dep_t (x y : key) (dyn : bool) (s : st) : tres st :=
  match add_dep x y dyn s with
  | Ok s' => Ok (s', [PInsDep (mkDep (idf x) (idf y) dyn)])
  | Usage t => Usage t
  | Internal t => Internal t
  end.

(* ---- declarations ---- *)
Definition declare_file_t (c : key) (l : str) (f : fstate) (s : st) : tres st :=
  match f with
  | FUnconfirmed | FPlanned | FVolatile =>
    dot s1 <- create_t (KFile, l) (Some c) (InitFile f) s;
    match f with
    | FVolatile => match attached_step_sinks l s1 with [] => retT s1 | _ => Usage 203 end
    | _ => retT s1
    end
  | _ => Internal 116
  end.

Definition declare_static_files_t (c : key) (paths : list str) (s : st) : tres st :=
  if negb (is_some (find_node c s)) then Internal 121
  else
  dot todo <- liftT (foldM (fun acc l => do isnew <- check_declaration_node c l 61 s;
                                          Ok (if isnew then acc ++ [l] else acc)) paths []);
  foldT (fun s l => declare_file_t c l FUnconfirmed s) todo s.

Definition resolve_supply_file_t (step : str) (l : str) (require_new : bool) (s : st)
  : tres (st * bool) :=
  dot s1 <-
    match find_node (KFile, l) s with
    | None => create_t (KFile, l) None (InitFile FUndeclared) s
    | Some n =>
      match ncre n with
      | None => create_t (KFile, l) None (InitFile FUndeclared) s
      | Some _ =>
        match fstate_of l s with
        | Some FVolatile => Usage 204
        | Some _ => retT s
        | None => Internal 117
        end
      end
    end;
  let isnew := negb (has_dep (KFile, l) (KStep, step) s1) in
  if negb isnew && require_new then Usage 205
  else retT (s1, isnew).

Definition supply_files_t (step : str) (paths : list str) (require_new dyn : bool) (s : st) : tres st :=
  dot r <- foldT (fun (acc : st * list str) l =>
                    dot x <- resolve_supply_file_t step l require_new (fst acc);
                    retT (fst x, if snd x then snd acc ++ [l] else snd acc)) paths (s, []);
  let s1 := fst r in let news := snd r in
  if match news with [] => false | _ => would_cycle (KStep, step) (map (fun l => (KFile, l)) news) s1 end
  then Usage 206
  else foldT (fun s l => add_dep_t (KFile, l) (KStep, step) dyn s) news s1.

Definition add_output_edge_t (step : str) (l : str) (dyn : bool) (s : st) : tres st :=
  if would_cycle (KFile, l) [(KStep, step)] s then Usage 206
  else add_dep_t (KStep, step) (KFile, l) dyn s.

Definition define_step_new_t (creator : key) (label : str) (inp env out vol : list str) (nd : need)
           (s : st) : tres st :=
  let k := (KStep, label) in
  dot _ <- liftT (foldM (fun (u : unit) l => do _ <- check_declaration_phrase l s; Ok tt) out tt);
  dot _ <- liftT (foldM (fun (u : unit) l => do _ <- check_declaration_phrase l s; Ok tt) vol tt);
  if existsb (fun l => mem_str l vol) out then Usage 209
  else
  dot s1 <- create_t k (Some creator) (InitStep nd) s;
  dot s2 <- supply_files_t label inp true false s1;
  let s3 := fold_left (fun s e => add_env label e false true s) env s2 in
  dot s4 <- foldT (fun s l => dot s' <- declare_file_t k l FPlanned s; add_output_edge_t label l false s') out s3;
  foldT (fun s l => dot s' <- declare_file_t k l FVolatile s; add_output_edge_t label l false s') vol s4.

Definition define_step_t (creator : key) (label : str) (inp env out vol : list str) (nd : need)
           (s : st) : tres st :=
  if negb (is_some (find_node creator s)) then Internal 121
  else if key_eqb creator root_key && root_has_step s then Usage 207
  else if key_eqb creator (KStep, label) then Usage 211
  else if mem_key creator (rec_products (KStep, label) s) then Usage 212
  else
  let k := (KStep, label) in
  match find_node k s with
  | Some n =>
    if ndet n && can_recycle label inp env out vol s then
      (* try_recycle: Step.reattach + Step.after_recycle *)
      dot s1 <- node_reattach_t k creator s;
      let s2 := upd_step label (fun r => mkS (sl r) (sst r) nd (sdef r) (sdc r) 0) s1 in
      dot s2' <- Ok (s2, [PSetNeed (sk label) (need_code nd)]);
      dot s3 <- match sstate_of label s2' with
                | Some SFailed => mark_step_pending_t label s2'
                | _ => retT s2'
                end;
      Ok (s3, PSetRes (sk label) (a_res a)
              :: match a_dur a with Some d => [PSetDuration (sk label) d] | None => [] end)
    else if negb (ndet n) then Usage 208
    else define_step_new_t creator label inp env out vol nd s
  | None => define_step_new_t creator label inp env out vol nd s
  end.

Definition amend_step_t (label : str) (inp env out vol : list str) (s : st) : tres st :=
  let k := (KStep, label) in
  if negb (is_some (find_node k s) && is_some (Graph.find_step label s)) then Internal 123
  else
  dot s1 <- supply_files_t label inp false true s;
  let s2 := fold_left (fun s e => add_env label e true false s) env s1 in
  dot out' <- liftT (foldM (fun acc l => do isnew <- check_declaration_node k l 62 s2;
                                          Ok (if isnew : bool then acc ++ [l] else acc)) out []);
  dot vol' <- liftT (foldM (fun acc l => do isnew <- check_declaration_node k l 63 s2;
                                          Ok (if isnew : bool then acc ++ [l] else acc)) vol []);
  if existsb (fun l => mem_str l vol') out' then Usage 209
  else
  dot s3 <- foldT (fun s l => dot s' <- declare_file_t k l FPlanned s; add_output_edge_t label l true s') out' s2;
  foldT (fun s l => dot s' <- declare_file_t k l FVolatile s; add_output_edge_t label l true s') vol' s3.
End Create.

(* ---- update_file_hashes ---- *)
Definition handle_updated_file_t (l : str) (s : st) : tres st :=
  match fstate_of l s with
  | Some FConfirmed => mark_consumers_pending_t l s
  | Some FPlanned | Some FOutdated =>
    match step_creator_of_file l s with Some c => mark_step_pending_t c s | None => retT s end
  | _ => retT s
  end.
Definition handle_deleted_file_t (l : str) (s : st) : tres st :=
  dot s1 <- match fstate_of l s with
            | Some FPlanned =>
              match step_creator_of_file l s with Some c => mark_step_pending_t c s | None => retT s end
            | _ => retT s
            end;
  mark_consumers_pending_t l s1.

Definition update_file_hashes_t (c : cause) (hs : list (str * option N)) (s : st) : tres st :=
  dot plan <- liftT (foldM (fun acc ph =>
                      match Graph.find_file (fst ph) s with
                      | None => Internal 118
                      | Some r =>
                        match transition c (fstt r) (is_some (snd ph)) with
                        | None => Internal 119
                        | Some (ns, act) => Ok (acc ++ [mkP (fst ph) (snd ph) ns act])
                        end
                      end) hs []);
  dot s1 <- foldT (fun s x =>
                     set_fstate_hash_t (p_path x) (p_state x)
                                       (Some (match p_hash x with Some v => Some v | None => Some 0 end)) s)
                  plan s;
  let with_act a := map p_path (filter (fun x => match p_act x with Some b => action_eqb a b | None => false end) plan) in
  dot s2 <- foldT (fun s l => handle_updated_file_t l s) (with_act AUpdated) s1;
  dot s3 <- foldT (fun s l => handle_deleted_file_t l s) (with_act ADeleted) s2;
  foldT (fun s l => mark_consumers_pending_t l s) (with_act ACompleted) s3.

(* ---- step lifecycle ---- *)
Definition detach_created_steps_t (step : str) (s : st) : tres st :=
  foldT (fun s k => node_detach_t k s)
        (filter (fun k => kind_eqb (fst k) KStep) (products (KStep, step) s)) s.

Definition reset_for_rerun_t (step : str) (s : st) : tres st :=
  let k := (KStep, step) in
  dot s1 <- del_deps_where_t (fun d => key_eqb (dsnk d) k && ddyn d) s;
  let s2 := set_envs s1 (filter (fun e => negb (str_eqb (estep e) step && edyn e)) (envs s1)) in
  let dsinks := map dsnk (filter (fun d => key_eqb (dsrc d) k && ddyn d) (deps s2)) in
  dot s3 <- foldT (fun s x =>
                     dot s' <- del_deps_where_t (fun d => key_eqb (dsrc d) k && key_eqb (dsnk d) x) s;
                     node_detach_t x s') dsinks s2;
  dot s4 <- detach_created_steps_t step s3;
  dot s5 <- foldT (fun s l => node_detach_t (KFile, l) s) (file_products_in step is_static_state s4) s4;
  dot s6 <- foldT (fun s x => node_detach_t x s)
                  (filter (fun x => kind_eqb (fst x) KTree) (products k s5)) s5;
  foldT (fun s l => mark_file_outdated_t l s) (file_products_in step is_built s6) s6.

Definition mark_completed_t (step : str) (success wants_defer : bool) (s : st) : tres st :=
  if negb (is_some (Graph.find_step step s)) then Internal 120
  else if success then
    dot s1 <- set_sstate_t step SSucceeded false s;
    dot s2 <- foldT (fun s l => dot s' <- set_fstate_t l FBuilt s; mark_consumers_pending_t l s')
                    (file_products_in step is_outdated s1) s1;
    store_hash_t step s2
  else
    dot s1 <- foldT (fun s l => set_fstate_t l FOutdated s) (file_products_in step is_built s) s;
    dot s2 <-
      (if wants_defer then
         match Graph.find_step step s1 with
         | None => Internal 120
         | Some r =>
           let dc := sdc r + 1 in
           let s' := upd_step step (fun r => mkS (sl r) (sst r) (sneed r) (sdef r) dc (shold r)) s1 in
           dot s'' <- Ok (s', [PIncDefer (sk step)]);
           if dc <=? defer_cap s then set_sstate_t step SPending (has_unavailable_dynamic_input step s'') s''
           else set_sstate_t step SFailed false s''
         end
       else set_sstate_t step SFailed false s1);
    dot s3 <- match sstate_of step s2 with
              | Some SFailed => detach_created_steps_t step s2
              | _ => retT s2
              end;
    delete_hash_t step s3.

Definition hold_t (step : str) (s : st) : tres st :=
  match hold step s with
  | Ok s' => Ok (s', [PHold (sk step)])
  | Usage t => Usage t
  | Internal t => Internal t
  end.
Definition release_t (step : str) (s : st) : tres st :=
  match release step s with
  | Ok s' => Ok (s', [PRelease (sk step)])
  | Usage t => Usage t
  | Internal t => Internal t
  end.

(* ---- delete_detached ---- *)
Definition delete_prims (k : key) : list prim :=
  match fst k with
  | KFile => [PDeleteFile (idf k)]
  | KStep => [PDeleteStep (idf k)]
  | _ => []
  end.
Definition delete_node_prims (k : key) (s : st) : list prim :=
  map (fun d => PDelDep (dep_of d)) (filter (fun d => key_eqb (dsnk d) k) (deps s)) ++ delete_prims k.

Fixpoint dd_loop_t (fuel : nat) (lost : list key) (s : st) : (st * list key) * list prim :=
  match fuel with
  | O => ((s, lost), [])
  | S fuel' =>
    match find (fun n => deletable n s) (nodes s) with
    | None => ((s, lost), [])
    | Some n =>
      let lost' := filter (fun x => negb (key_eqb x (nk n))) lost in
      let lost'' := match ncre n with
                    | Some c => if mem_key c lost' then lost' else lost' ++ [c]
                    | None => lost' end in
      let r := dd_loop_t fuel' lost'' (delete_node (nk n) s) in
      (fst r, delete_node_prims (nk n) s ++ snd r)
    end
  end.

Definition delete_detached_t (s : st) : tres st :=
  let r := dd_loop_t (length (nodes s)) [] s in
  dot s1 <- Ok (fst (fst r), snd r);
  foldT (fun s c => match find_node c s with
                    | Some _ => after_lost_product_t c s
                    | None => retT s end) (snd (fst r)) s1.

Definition reset_interrupted_t (s : st) : tres st :=
  dot s1 <- foldT (fun s r => match sst r with SRunning => set_sstate_raw_t (sl r) SFailed s | _ => retT s end) (steps s) s;
  dot s2 <- foldT (fun s r => match sst r with SChecking => set_sstate_raw_t (sl r) SPending s | _ => retT s end) (steps s1) s1;
  foldT (fun s r => match sstate_of (sl r) s with
                    | Some SFailed => if is_detached (KStep, sl r) s then retT s else mark_step_pending_t (sl r) s
                    | _ => retT s end) (steps s2) s2.

(* ---- the transaction alphabet ---- *)
Definition step_op_t (a : ann) (o : op) (s : st) : tres st :=
  match o with
  | OpDeclareStatic c ps => declare_static_files_t a c ps s
  | OpUpdateHashes c hs => update_file_hashes_t c hs s
  | OpDefineStep c l i e o v n => define_step_t a c l i e o v n s
  | OpAmendStep l i e o v => amend_step_t a l i e o v s
  | OpDispatch l => set_sstate_t l (if has_hash l s then SChecking else SRunning) false s
  | OpResetForRerun l => reset_for_rerun_t l s
  | OpExecEnd l pre c hs ok wd =>
    dot s0 <- update_file_hashes_t CFailed pre s;
    dot s1 <- update_file_hashes_t c hs s0; mark_completed_t l ok wd s1
  | OpResetToPending l =>
    dot s1 <- reset_for_rerun_t l s;
    dot s2 <- delete_hash_t l s1;
    set_sstate_t l SPending false s2
  | OpValidatePending l => set_sstate_t l SPending true s       (* deferred since repo d760e3e (D36) *)
  | OpMarkStepPending l => mark_step_pending_t l s
  | OpDeleteDetached => delete_detached_t s
  | OpHold l => hold_t l s
  | OpRelease l => release_t l s
  | OpResetInterrupted => reset_interrupted_t s
  end.

(* the Sched primitives of one transaction (none when it is rejected or crashes: rollback) *)
Definition prims_of_op (a : ann) (s : st) (o : op) : list prim := trace_of (step_op_t a o s).

(* ---- the Sched view of a Graph state: every column Sched reads except the cached ones ---- *)
Definition node_det (k : key) (s : st) : bool := is_detached k s.
Definition node_cre (k : key) (s : st) : option N :=
  if key_eqb k root_key then None else oid (creator_of k s).

(* Sched rows agree with the Graph rows on every structural column *)
Definition step_agrees (s : st) (r : srow) (x : Sched.step) : bool :=
  (s_key x =? sk (sl r)) && (s_state x =? sstate_code (sst r)) && (s_need x =? need_code (sneed r))
  && Bool.eqb (s_deferred x) (sdef r) && (s_defer_count x =? sdc r) && (s_holding x =? shold r)
  && Bool.eqb (s_detached x) (node_det (KStep, sl r) s)
  && match s_creator x, node_cre (KStep, sl r) s with
     | Some p, Some q => p =? q | None, None => true | _, _ => false end
  && Bool.eqb (s_hash_stored x) (has_hash (sl r) s)
  && Bool.eqb (s_has_hash x) (has_hash (sl r) s).
Definition file_of (s : st) (r : frow) : Sched.file :=
  mkFile (fk (fl r)) (fl r) (fstate_code (fstt r)) (node_det (KFile, fl r) s) (node_cre (KFile, fl r) s)
         (is_some (fh r)).
Definition other_of (s : st) (n : node) : onode := mkOnode (idf (nk n)) (ndet n) (node_cre (nk n) s).
Definition others_of (s : st) : list onode :=
  map (other_of s) (filter (fun n => match fst (nk n) with KRoot | KTree => true | _ => false end) (nodes s)).

(* decidable form of the coupling (proofs/SchedGraphCpl.v: coupled), evaluated on real snapshots *)
Fixpoint list_eqb' {A B} (e : A -> B -> bool) (l1 : list A) (l2 : list B) : bool :=
  match l1, l2 with
  | [], [] => true
  | x :: r1, y :: r2 => e x y && list_eqb' e r1 r2
  | _, _ => false
  end.
Definition oN_eqb (a b : option N) : bool :=
  match a, b with Some x, Some y => x =? y | None, None => true | _, _ => false end.
Definition file_eqb' (a b : Sched.file) : bool :=
  (f_key a =? f_key b) && str_eqb (f_label a) (f_label b) && (f_state a =? f_state b)
  && Bool.eqb (f_detached a) (f_detached b) && oN_eqb (f_creator a) (f_creator b) && Bool.eqb (f_hash a) (f_hash b).
Definition onode_eqb' (a b : onode) : bool :=
  (o_key a =? o_key b) && Bool.eqb (o_detached a) (o_detached b) && oN_eqb (o_creator a) (o_creator b).
Definition dep_eqb' (a b : Sched.dep) : bool :=
  (d_src a =? d_src b) && (d_snk a =? d_snk b) && Bool.eqb (d_dyn a) (d_dyn b).
Definition coupled_b (s : st) (g : graph) : bool :=
  list_eqb' (fun r x => step_agrees s r x) (steps s) (g_steps g)
  && list_eqb' file_eqb' (g_files g) (map (file_of s) (files s))
  && list_eqb' onode_eqb' (g_others g) (others_of s)
  && list_eqb' dep_eqb' (g_deps g) (map dep_of (deps s)).

(* the snapshot of a fresh database: the root node only *)
Definition init_graph (targets : list str) (tdirs : list (str * str)) (avail : list (str * N)) (thr : N) : graph :=
  mkGraph [] [] [mkOnode (idf root_key) false None] [] targets tdirs avail thr.

End SG.

(* no static-tree nodes and no cycle of creator links (decidable form of proofs/SchedGraphSim.v: NTC) *)
Definition ntc_b (s : st) : bool :=
  forallb (fun n => negb (kind_eqb (fst (nk n)) KTree)
                    && match ncre n with
                       | Some c => key_eqb c (nk n) || negb (mem_key c (rec_products (nk n) s))
                       | None => true
                       end) (nodes s).
