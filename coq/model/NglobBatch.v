(* C17: how the (deleted, updated) batch that NamedGlob.will_change receives is built.
   Definitions only.

   - [record_change]         Watcher.record_change (stepup/core/watcher.py): one queue item folded
                             into the two sets `self.deleted` / `self.updated`
   - [fold_changes]          the items of one watch phase (Watcher.run_once: first the items that
                             were queued during the build, with during_build=True, then the
                             others), starting from the empty sets (run_once clears both sets at
                             the end of every phase)
   - [prune]                 run_once: `self.updated.discard(path)` for every re-hashed path whose
                             hash did not change (the UNCHANGED reports)
   - [process_nglob_changes] Workflow.process_nglob_changes: ConsistencyError on `deleted & updated`,
                             otherwise `ng.will_change(deleted, updated)` per registration and
                             persist_nglob_matches (+ step pending) when the answer is not None
   - [watch_commit]          the composition run_once performs
   - [rescan1]               one registration in startup.rescan_nglobs: a FRESH NamedGlob, glob(),
                             persisted when the file sets differ.  will_change is not used there.

   Not modelled (skipped by the translator through an explicit whitelist): the reporter calls and
   the asyncio notifications (`for event in self.files_changed_events: event.set()`); hashing
   (C13 / C14).  `Workflow.change_is_relevant` and `Workflow.relevant_paths_under` are the Section
   variables [rel] and [under]; the database does not change while items are recorded, so they
   are functions of (during_build, path).  C14 (model/Watch.v) has its own model of the watcher
   as a whole; this file only has what the hypotheses of C17_update_equals_rescan need. *)
From Coq Require Import List NArith Bool.
From SV Require Import lib.Bytes.
From SV Require Import lib.Regex.
From SV Require Import model.Nglob.
Import ListNotations.
Open Scope N_scope.

(* enums.Change *)
Inductive kind := KDeleted | KUpdated | KDeletedParent.

Definition kind_eqb (a b : kind) : bool :=
  match a, b with
  | KDeleted, KDeleted | KUpdated, KUpdated | KDeletedParent, KDeletedParent => true
  | _, _ => false
  end.

(* one item of the change queue: (Change.DELETED, p) / (Change.UPDATED, p) / (Change.DELETED_PARENT, d) *)
Inductive event :=
| EvDeleted (p : str)
| EvUpdated (p : str)
| EvDeletedParent (d : str).

Definition ev_kind (ev : event) : kind :=
  match ev with EvDeleted _ => KDeleted | EvUpdated _ => KUpdated | EvDeletedParent _ => KDeletedParent end.
Definition ev_path (ev : event) : str :=
  match ev with EvDeleted p => p | EvUpdated p => p | EvDeletedParent d => d end.
Definition mk_event (k : kind) (p : str) : event :=
  match k with KDeleted => EvDeleted p | KUpdated => EvUpdated p | KDeletedParent => EvDeletedParent p end.

(* Watcher.deleted / Watcher.updated : set[str], as duplicate-free lists in insertion order
   ([set_add] / [set_discard] of model/Nglob.v are set.add / set.discard). *)
Record wstate := mk_ws { ws_deleted : list str; ws_updated : list str }.
Definition ws_empty : wstate := mk_ws [] [].

(* the four statements that occur in record_change *)
Definition deleted_add (p : str) (st : wstate) : wstate := mk_ws (set_add p (ws_deleted st)) (ws_updated st).
Definition deleted_discard (p : str) (st : wstate) : wstate := mk_ws (set_discard p (ws_deleted st)) (ws_updated st).
Definition updated_add (p : str) (st : wstate) : wstate := mk_ws (ws_deleted st) (set_add p (ws_updated st)).
Definition updated_discard (p : str) (st : wstate) : wstate := mk_ws (ws_deleted st) (set_discard p (ws_updated st)).

(* a queue item with the during_build flag it is recorded with *)
Definition item := (bool * event)%type.

Section Batch.
  Variable rel : bool -> str -> bool.          (* Workflow.change_is_relevant(path, during_build=..) *)
  Variable under : bool -> str -> list str.    (* Workflow.relevant_paths_under(dir, during_build=..) *)

  (* self.deleted.add(path); self.updated.discard(path) *)
  Definition del_one (st : wstate) (p : str) : wstate :=
    mk_ws (set_add p (ws_deleted st)) (set_discard p (ws_updated st)).

  (* self.deleted.discard(path); self.updated.add(path) *)
  Definition upd_one (st : wstate) (p : str) : wstate :=
    mk_ws (set_discard p (ws_deleted st)) (set_add p (ws_updated st)).

  (* the body of the DELETED_PARENT loop: `if sub_path not in self.deleted:` (no relevance test:
     relevant_paths_under only yields relevant paths) *)
  Definition del_guarded (st : wstate) (q : str) : wstate :=
    if negb (mem_str q (ws_deleted st)) then del_one st q else st.

  (* Watcher.record_change(change, path, during_build=db).  The guards are the code's:
       if change == DELETED and path not in self.deleted:  if change_is_relevant: ...
       elif change == UPDATED and path not in self.updated: if change_is_relevant: ...
       elif change == DELETED_PARENT: for sub_path in relevant_paths_under(path): ... *)
  Definition record_change (db : bool) (st : wstate) (ev : event) : wstate :=
    match ev with
    | EvDeleted p =>
        if negb (mem_str p (ws_deleted st)) then (if rel db p then del_one st p else st) else st
    | EvUpdated p =>
        if negb (mem_str p (ws_updated st)) then (if rel db p then upd_one st p else st) else st
    | EvDeletedParent d => fold_left del_guarded (under db d) st
    end.

  Definition record_item (st : wstate) (it : item) : wstate := record_change (fst it) st (snd it).

  Definition fold_changes (items : list item) (st : wstate) : wstate := fold_left record_item items st.

  (* What one item means for one path: Some true = recorded as an update, Some false = recorded as
     a deletion, None = nothing (other path, or not relevant). *)
  Definition effect (it : item) (p : str) : option bool :=
    match snd it with
    | EvDeleted q => if str_eqb q p && rel (fst it) p then Some false else None
    | EvUpdated q => if str_eqb q p && rel (fst it) p then Some true else None
    | EvDeletedParent d => if mem_str p (under (fst it) d) then Some false else None
    end.

  (* the last item (in arrival order) that means something for p *)
  Definition last_effect (items : list item) (p : str) : option bool :=
    fold_left (fun acc it => match effect it p with Some b => Some b | None => acc end) items None.

  (* What the item says about the file system, independent of the relevance filter. *)
  Definition touches (it : item) (p : str) : option bool :=
    match snd it with
    | EvDeleted q => if str_eqb q p then Some false else None
    | EvUpdated q => if str_eqb q p then Some true else None
    | EvDeletedParent d => if mem_str p (under (fst it) d) then Some false else None
    end.
End Batch.

(* ---- file-system trace semantics of one watch phase (used by proofs/NglobBatchProofs.v) ---- *)
Section TraceSem.
  Variable K : Type.
  Variable mv : str -> option K.               (* NamedGlob._match_values of one registration *)
  Variable under : bool -> str -> list str.

  (* The file system as a set of existing paths (directories with a trailing separator).
     One item and the path set after it:
       (DELETED, p)         p does not exist afterwards
       (UPDATED, p)         p exists afterwards
       (DELETED_PARENT, d)  no path of relevant_paths_under(d) exists afterwards
     and every ACCEPTED path the item says nothing about keeps its membership.  For
     DELETED_PARENT this contains the ASSUMPTION under_complete: the accepted paths that vanish
     with the directory are among relevant_paths_under(d) (file nodes and RECORDED matches under
     d/).  It fails for an accepted path that was created in this very batch (not recorded yet,
     no node) below a directory that is moved away afterwards: C14's known
     `C14-stale-update` (watch side more cautious), not re-reported here.  Paths that the
     pattern does not accept are unconstrained. *)
  Definition step_ok (fs : list str) (it : item) (fs' : list str) : Prop :=
    forall p, mv p <> None ->
      match touches under it p with
      | Some true => In p fs'
      | Some false => ~ In p fs'
      | None => (In p fs' <-> In p fs)
      end.

  Fixpoint trace_ok (fs : list str) (tr : list (item * list str)) : Prop :=
    match tr with
    | [] => True
    | (it, fs1) :: tr' => step_ok fs it fs1 /\ trace_ok fs1 tr'
    end.

  Fixpoint trace_final (fs : list str) (tr : list (item * list str)) : list str :=
    match tr with
    | [] => fs
    | (_, fs1) :: tr' => trace_final fs1 tr'
    end.

End TraceSem.

(* run_once: for path, h in new_hashes.items(): if h == old_hashes[path]: self.updated.discard(path) *)
Definition prune (unchanged : list str) (st : wstate) : wstate :=
  mk_ws (ws_deleted st) (filter (fun p => negb (mem_str p unchanged)) (ws_updated st)).

(* `deleted & updated` is non-empty *)
Definition overlap (a b : list str) : bool := existsb (fun p => mem_str p b) a.

Section Process.
  Variable K : Type.
  Variable keqb : K -> K -> bool.

  (* one row of Workflow.nglob_registrations(): the matcher of the pattern and its recorded results *)
  Definition reg := ((str -> option K) * results K)%type.

  (* evolved = ng.will_change(deleted, updated); if evolved is not None: persist_nglob_matches(..)
     The flag says whether the row was rewritten (and the step marked pending). *)
  Definition process_reg (deleted updated : list str) (r : reg) : reg * bool :=
    match will_change keqb (fst r) (snd r) deleted updated with
    | None => (r, false)
    | Some ev => ((fst r, ev), true)
    end.

  (* None = ConsistencyError("Deleted and updated paths cannot overlap.") *)
  Definition process_nglob_changes (regs : list reg) (deleted updated : list str) : option (list (reg * bool)) :=
    if overlap deleted updated then None
    else Some (map (process_reg deleted updated) regs).

  (* Watcher.run_once after end_watching, as far as the named globs are concerned *)
  Definition watch_commit (rel : bool -> str -> bool) (under : bool -> str -> list str)
             (regs : list reg) (items : list item) (unchanged : list str) : option (list (reg * bool)) :=
    let st := prune unchanged (fold_changes rel under items ws_empty) in
    process_nglob_changes regs (ws_deleted st) (ws_updated st).

  (* startup.rescan_nglobs, one registration: new_ng = NamedGlob(old.pattern, old.subs);
     new_ng.glob(); deleted = old_paths - new_paths; added = new_paths - old_paths;
     persisted (new_ng, NOT an update of old) iff `deleted or added`.  [cands] = what glob.iglob
     yields after the directory normalisation of NamedGlob.glob(). *)
  Definition rescan1 (mv : str -> option K) (old : results K) (cands : list str) : option (results K) :=
    let new_ng := extend keqb mv [] cands in
    if negb (set_subb (files old) (files new_ng)) || negb (set_subb (files new_ng) (files old))
    then Some new_ng else None.
End Process.

Arguments process_reg {K}.
Arguments process_nglob_changes {K}.
Arguments watch_commit {K}.
Arguments rescan1 {K}.

(* ---- helpers for the correspondence cases (harness/p_c17_batch.py) ---- *)

Definition lset_eqb (a b : list str) : bool := set_subb a b && set_subb b a.

Definition mk_item (db : bool) (k : N) (p : str) : item :=
  (db, match k with 0 => EvDeleted p | 1 => EvUpdated p | _ => EvDeletedParent p end).

(* relevance and expansion given as finite tables (everything not listed: irrelevant / empty) *)
Definition tab_rel (t f : list str) (db : bool) (p : str) : bool := mem_str p (if db then t else f).
Fixpoint tab_under (t : list (bool * str * list str)) (db : bool) (d : str) : list str :=
  match t with
  | [] => []
  | (b, d', l) :: r => if Bool.eqb b db && str_eqb d' d then l else tab_under r db d
  end.

(* the real sets after folding [items] from the empty state are [deleted] / [updated] *)
Definition chk_batch (rel_t rel_f : list str) (under_t : list (bool * str * list str))
           (items : list item) (deleted updated : list str) : bool :=
  let st := fold_changes (tab_rel rel_t rel_f) (tab_under under_t) items ws_empty in
  lset_eqb (ws_deleted st) deleted && lset_eqb (ws_updated st) updated
  && negb (overlap (ws_deleted st) (ws_updated st)).
