(* model/Clean.v -- executable model of the file-system side of cleaning.  Definitions only.

   Code modelled (re-read in round 1 at /repo 8a73975):
     finalize.py  remove_deletable_files, _prune_empty_dirs, _try_remove
     builder.py   Builder.finalize (guard chain and cleanup calls REGENERATED: gen/GenClean.v)
     clean.py     clean, search_matching_paths, search_consuming_paths
     file.py      File.initialize_row (state part), trigger file_clear_hash (WHEN clause REGENERATED)
     workflow.py  update_file_hashes (state part, table REGENERATED), the guarded set_state sites

   Abstract file system: an association list path -> entry.  A regular file carries the abstract
   identity h of what FileHash.__eq__ compares (digest, mode, size); a recorded hash is the same
   kind of identity, so `refreshed(path) == recorded` is `h = recorded` (assumption A-stat: equal
   mtime, size, inode and mode imply equal content -- C13's subject).

   A symbolic link carries its target as a normalised path relative to the project root (assumption
   A-links: only the last component of a path is ever a symbolic link, i.e. the directories on the way
   are real directories; a target outside the project is a path that has no entry).  `stat` follows
   links the way the kernel does (at most MAXSYMLINKS = 40 hops, then ELOOP); `lkind` is what lstat
   reports.  Where the code branches on the kind of a path the branching is REGENERATED from the AST
   (gen/GenClean.v: rdf_hash_checked, rdf_decide_first, clean_missing_follows_links,
   clean_hash_checked). *)
From Coq Require Import List NArith Bool.
From SV Require Import lib.Bytes.
From SV Require Import gen.GenClean.
From SV Require Import model.TrellisDD.
Import ListNotations.
Open Scope N_scope.

Inductive fsent := FFile (h : N) | FDir | FLink (target : str).
Definition fsys := list (str * fsent).

Definition fs_get (f : fsys) (p : str) : option fsent :=
  match find (fun e => str_eqb (fst e) p) f with Some e => Some (snd e) | None => None end.
Definition fs_del (f : fsys) (p : str) : fsys := filter (fun e => negb (str_eqb (fst e) p)) f.

(* p lies strictly below directory d *)
Definition under (d p : str) : bool := is_prefix (d ++ [SLASH]) p.
(* not any(path.iterdir()) *)
Definition dir_empty (f : fsys) (d : str) : bool := negb (existsb (fun e => under d (fst e)) f).

(* lstat *)
Definition lkind (f : fsys) (p : str) : fkind :=
  match fs_get f p with
  | None => KMissing | Some (FFile _) => KRegular | Some FDir => KDirectory | Some (FLink _) => KSymlink
  end.

(* os.stat: follows symbolic links; a dangling link, or more than MAXSYMLINKS hops (ELOOP), is an OSError *)
Inductive statres := SMissing | SFile (h : N) | SDir.
Fixpoint stat_fuel (fuel : nat) (f : fsys) (p : str) : statres :=
  match fs_get f p with
  | None => SMissing
  | Some (FFile h) => SFile h
  | Some FDir => SDir
  | Some (FLink t) => match fuel with O => SMissing | S k => stat_fuel k f t end
  end.
Definition MAXSYMLINKS : nat := 40.
Definition stat (f : fsys) (p : str) : statres := stat_fuel MAXSYMLINKS f p.

(* what os.remove (unlink) can take away: a regular file or a symbolic link, never a directory *)
Definition is_unlinkable (o : option fsent) : bool :=
  match o with Some (FFile _) => true | Some (FLink _) => true | _ => false end.

(* _try_remove(path.remove): os.remove unlinks regular files and symbolic links (the link, never its target);
   any OSError (a directory, nothing there) = nothing removed *)
Definition rm_file (f : fsys) (p : str) : fsys * bool :=
  if is_unlinkable (fs_get f p) then (fs_del f p, true) else (f, false).

(* path.is_dir() and not any(path.iterdir()) and _try_remove(path.rmdir) *)
Definition rmdir_if_empty (f : fsys) (d : str) : fsys * bool :=
  match fs_get f d with
  | Some FDir => if dir_empty f d then (fs_del f d, true) else (f, false)
  | _ => (f, false)
  end.

(* FileHash.refreshed: os.stat (follows links); unknown when stat fails, HashError on a directory *)
Inductive rhash := RUnknown | RKnown (h : N) | RErr.
Definition refreshed (f : fsys) (p : str) : rhash :=
  match stat f p with SMissing => RUnknown | SFile h => RKnown h | SDir => RErr end.

(* descending insertion sort on code points = sorted(..., reverse=True) on str *)
Fixpoint insert_desc (x : str) (l : list str) : list str :=
  match l with
  | [] => [x]
  | y :: t => if lex_lt x y then y :: insert_desc x t else x :: l
  end.
Definition sort_desc (l : list str) : list str := fold_right insert_desc [] l.

Fixpoint dedup (l : list str) : list str :=
  match l with
  | [] => []
  | x :: t => if existsb (str_eqb x) t then dedup t else x :: dedup t
  end.

(* Does the loop body reach `_try_remove(path.remove)` for the queued path p, judged on the tree fd?
   The `if` in front of the hash comparison is regenerated (rdf_hash_checked, by kind of p). *)
Definition rdf_decide (q : queue) (fd : fsys) (p : str) : bool :=
  match qfile_get q p with
  | Some (Some h) =>
      if rdf_hash_checked (lkind fd p) then
        match refreshed fd p with
        | RKnown h' => h' =? h
        | _ => false                (* changed, missing, or cannot be hashed: kept *)
        end
      else true
  | Some None => true               (* volatile: whatever its content *)
  | None => false
  end.

(* One queued file of remove_deletable_files; fd is the tree the decision looks at.  Returns the new
   file system and whether REMOVE was reported. *)
Definition rdf_file (q : queue) (fd f : fsys) (p : str) : fsys * bool :=
  if rdf_decide q fd p then rm_file f p else (f, false).

(* fd = None: one loop, every decision looks at the tree as it is by then;
   fd = Some f0: two loops, every decision was taken on f0 before the first removal *)
Fixpoint rdf_files_gen (q : queue) (fd : option fsys) (ps : list str) (f : fsys) (log : list str) : fsys * list str :=
  match ps with
  | [] => (f, log)
  | p :: t =>
      let '(f', b) := rdf_file q (match fd with Some x => x | None => f end) f p in
      rdf_files_gen q fd t f' (if b then p :: log else log)
  end.

Definition rdf_mode (f : fsys) : option fsys := if rdf_decide_first then Some f else None.

(* the file loop(s) of remove_deletable_files started on the tree f (shape REGENERATED: rdf_decide_first) *)
Definition rdf_files (q : queue) (ps : list str) (f : fsys) (log : list str) : fsys * list str :=
  rdf_files_gen q (rdf_mode f) ps f log.

(* parent.name not in ("..", ".", "") *)
Definition parent_ok (par : str) : bool :=
  let b := basename par in
  negb (str_eqb b [] || str_eqb b [DOT] || str_eqb b [DOT; DOT]).

(* _prune_empty_dirs: todo is a stack whose top is the head of the list *)
Fixpoint prune_loop (fuel : nat) (todo : list str) (f : fsys) (log : list str) : fsys * list str :=
  match fuel with
  | O => (f, log)
  | S k =>
      match todo with
      | [] => (f, log)
      | d :: rest =>
          let '(f', b) := rmdir_if_empty f d in
          if b then
            let par := dirname d in
            prune_loop k (if parent_ok par then par :: rest else rest) f' (d :: log)
          else prune_loop k rest f log
      end
  end.

(* every iteration pops an entry or removes a directory *)
Definition prune_fuel (todo : list str) (f : fsys) : nat := S (length todo + length f).

(* the variant with a `seen` set: a path on the stack is examined at most once *)
Fixpoint prune_loop_seen (fuel : nat) (todo seen : list str) (f : fsys) (log : list str) : fsys * list str :=
  match fuel with
  | O => (f, log)
  | S k =>
      match todo with
      | [] => (f, log)
      | d :: rest =>
          if existsb (str_eqb d) seen then prune_loop_seen k rest seen f log
          else
            let '(f', b) := rmdir_if_empty f d in
            if b then
              let par := dirname d in
              prune_loop_seen k (if parent_ok par then par :: rest else rest) (d :: seen) f' (d :: log)
            else prune_loop_seen k rest (d :: seen) f log
      end
  end.

(* shape REGENERATED statement by statement (prune_visits_once) *)
Definition prune_dirs_gen (once : bool) (dirs : list str) (f : fsys) : fsys * list str :=
  let todo := sort_desc (dedup dirs) in
  if once then prune_loop_seen (prune_fuel todo f) todo [] f []
  else prune_loop (prune_fuel todo f) todo f [].

Definition prune_dirs := prune_dirs_gen prune_visits_once.

(* a tree as a file system has it: whatever exists either has no directory part or lies in a directory that exists
   (snapshots of real trees with normalised relative paths do) *)
Definition fs_closedb (f : fsys) : bool :=
  forallb (fun e => str_eqb (dirname (fst e)) [] ||
                    match fs_get f (dirname (fst e)) with Some FDir => true | _ => false end) f.

Record rdf_out := mkRdf {
  r_fs : fsys;
  r_files : list str;   (* REMOVE events for files, in order *)
  r_dirs : list str     (* REMOVE events for directories, in order *)
}.

Definition remove_deletable_files (q : queue) (f : fsys) : rdf_out :=
  let files := sort_desc (dedup (map fst (qfiles q))) in
  let '(f1, flog) := rdf_files q files f [] in
  let '(f2, dlog) := prune_dirs (qdirs q) f1 in
  mkRdf f2 (rev flog) (rev dlog).

(* ---- what remove_deletable_files leaves in Workflow.to_be_deleted ---------------------------- *)

(* Workflow.to_be_deleted is an attribute of the Workflow object: it lives across the build phases of one director
   (watch mode).  remove_deletable_files ends with `workflow.to_be_deleted.clear()`; whether anything is put back
   after that is REGENERATED (rdf_requeues_failed).  The recognised variant puts back every path that reached
   `_try_remove(path.remove)`, was not removed and still exists -- in this file system: a directory -- with its
   queue value, and marks its parent directory (mark_dir_to_be_deleted, which consults the attached static trees). *)
Definition rdf_leftovers (q : queue) (f : fsys) : list (str * option N) :=
  let files := sort_desc (dedup (map fst (qfiles q))) in
  flat_map (fun p =>
    if rdf_decide q f p then
      match fs_get f p, qfile_get q p with
      | Some FDir, Some v => [(p, v)]
      | _, _ => []
      end
    else []) files.

Definition requeue (trees : list str) (l : list (str * option N)) : queue :=
  fold_left (fun q e => mark_dir trees (qfile_set q (fst e) (snd e)) (dirname (fst e))) l empty_queue.

Definition queue_after_removal_rq (rq : bool) (trees : list str) (q : queue) (f : fsys) : queue :=
  if rq then requeue trees (rdf_leftovers q f) else empty_queue.

Definition queue_after_removal := queue_after_removal_rq rdf_requeues_failed.

(* ---- Builder.finalize ---------------------------------------------------------------------- *)

Record fin_ctx := mkCtx {
  c_targets : bool;     (* len(workflow.targets) > 0 or len(workflow.target_dirs) > 0 *)
  c_returncode : N;     (* report_unbuilt(...) *)
  c_clean : bool        (* Builder.do_remove_outdated *)
}.

Definition guard_fires (c : fin_ctx) (gd : guard) : bool :=
  match gd with
  | GTargets => c_targets c
  | GRcMasked m => negb (N.ldiff (c_returncode c) m =? 0)     (* returncode & ~mask *)
  | GNoClean => negb (c_clean c)
  end.

Record fin_state := mkFin {
  s_g : graph;
  s_q : queue;
  s_fs : fsys;
  s_files : list str;   (* files removed, in order *)
  s_dirs : list str;    (* directories removed, in order *)
  s_err : bool
}.

Definition run_call (cl : cleanup_call) (s : fin_state) : fin_state :=
  match cl with
  | CRevert =>
      let '(g', q') := revert_optional (s_g s) (s_q s) in
      mkFin g' q' (s_fs s) (s_files s) (s_dirs s) (s_err s)
  | CDeleteDetached =>
      let o := workflow_dd (s_g s) in
      mkFin (dd_g o) (queue_deleted (attached_tree_labels (s_g s)) (dd_deleted o) (s_q s)) (s_fs s) (s_files s) (s_dirs s)
            (s_err s || dd_err o)
  | CRemoveFiles =>
      let r := remove_deletable_files (s_q s) (s_fs s) in
      mkFin (s_g s) (queue_after_removal (attached_tree_labels (s_g s)) (s_q s) (s_fs s))
            (r_fs r) (s_files s ++ r_files r) (s_dirs s ++ r_dirs r) (s_err s)
  end.

Definition run_calls (cls : list cleanup_call) (s : fin_state) : fin_state :=
  fold_left (fun s cl => run_call cl s) cls s.

Definition finalize_with (gs : list guard) (cls : list cleanup_call) (c : fin_ctx) (s : fin_state) : fin_state :=
  if existsb (guard_fires c) gs then s else run_calls cls s.

Definition finalize (c : fin_ctx) (s : fin_state) : fin_state :=
  finalize_with finalize_guards finalize_cleanup_calls c s.

Definition init_state (g : graph) (f : fsys) : fin_state := mkFin g empty_queue f [] [] false.

(* ---- several build phases of one director ---------------------------------------------------- *)

(* Between two phases anything may happen to the graph (plan edits, builds, static() adoptions) and to the tree (the
   user, the steps); the only thing the cleanup of one phase hands to the next is what it left in to_be_deleted. *)
Record phase := mkPhase { ph_ctx : fin_ctx; ph_g : graph; ph_fs : fsys }.

Definition start_phase (q : queue) (ph : phase) : fin_state := mkFin (ph_g ph) q (ph_fs ph) [] [] false.
Definition next_phase (s : fin_state) (ph : phase) : fin_state := finalize (ph_ctx ph) (start_phase (s_q s) ph).
Definition run_phases (phs : list phase) : fin_state := fold_left next_phase phs (init_state (mkGraph [] []) []).

(* finalize with the three cleanup calls spelled out and the requeueing flag as a parameter (proofs/CleanPhases.v
   shows it equal to `finalize` for the regenerated call list and flag) *)
Definition finalize_rq (rq : bool) (c : fin_ctx) (s : fin_state) : fin_state :=
  if existsb (guard_fires c) finalize_guards then s
  else
    let '(g1, q1) := revert_optional (s_g s) (s_q s) in
    let o := workflow_dd g1 in
    let q2 := queue_deleted (attached_tree_labels g1) (dd_deleted o) q1 in
    let r := remove_deletable_files q2 (s_fs s) in
    mkFin (dd_g o) (queue_after_removal_rq rq (attached_tree_labels (dd_g o)) q2 (s_fs s))
          (r_fs r) (s_files s ++ r_files r) (s_dirs s ++ r_dirs r) (s_err s || dd_err o).
Definition next_phase_rq (rq : bool) (s : fin_state) (ph : phase) : fin_state :=
  finalize_rq rq (ph_ctx ph) (start_phase (s_q s) ph).

(* ---- stepup clean -------------------------------------------------------------------------- *)

Record clean_args := mkArgs { a_all : bool; a_safe : bool; a_commit : bool }.

(* search_matching_paths: label = ? OR label LIKE 'path/%' (C18: exact prefix); "." selects all *)
Definition path_matches (tr lbl : str) : bool :=
  is_dot tr || str_eqb lbl tr || is_prefix (tr ++ [SLASH]) lbl.

Definition matching_labels (g : graph) (trs : list str) : list str :=
  map nlabel (filter (fun n => (nkind n =? KFILE) && existsb (fun tr => path_matches tr (nlabel n)) trs) (gnodes g)).

(* INSERT INTO temp.initial_sink SELECT node.i FROM node WHERE node.label = ?   (any kind) *)
Definition initial_sinks (g : graph) (labels : list str) : list key :=
  map nkey (filter (fun n => existsb (str_eqb (nlabel n)) labels) (gnodes g)).

Definition sinks_of (g : graph) (S : list key) : list key :=
  map snd (filter (fun d => mem_key (fst d) S) (gdeps g)).

Fixpoint add_new (S new : list key) : list key :=
  match new with
  | [] => S
  | k :: t => if mem_key k S then add_new S t else add_new (S ++ [k]) t
  end.

(* WITH RECURSIVE all_sink: least fixpoint by iteration *)
Fixpoint closure (fuel : nat) (g : graph) (S : list key) : list key :=
  match fuel with
  | O => S
  | S k => closure k g (add_new S (sinks_of g S))
  end.

Definition clean_selected (g : graph) (a : clean_args) (trs : list str) : list node :=
  let reach := closure (S (length (gnodes g))) g (initial_sinks g (matching_labels g trs)) in
  filter (fun n => (nkind n =? KFILE) && mem_key (nkey n) reach &&
                   memN (nfstate n) clean_select_states && (a_all a || ndet n)) (gnodes g).

Inductive cstep := CSkip | CRemoved | CCrash.

(* one iteration of the loop over tr_consuming_paths *)
Definition clean_one (a : clean_args) (f : fsys) (n : node) : fsys * cstep :=
  let p := nlabel n in
  (* missing = not path.exists()  (follows links; REGENERATED: or lexists) *)
  let missing := if clean_missing_follows_links
                 then match stat f p with SMissing => true | _ => false end
                 else match fs_get f p with None => true | _ => false end in
  if missing then (f, CSkip)
  else
    (* changed = <state conjuncts> and old_hash.refreshed(path) != old_hash
       (state conjuncts REGENERATED: clean_compared_states; kind conjuncts REGENERATED: clean_hash_checked) *)
    let is_vol := negb (memN (nfstate n) clean_compared_states) in
    match (if is_vol then Some false else
           if negb (clean_hash_checked (lkind f p)) then Some false else
             match stat f p with
             | SDir => None                                  (* HashFailedError propagates *)
             | SFile h => Some (negb (match nfhash n with Some r => h =? r | None => false end))
             | SMissing => Some (match nfhash n with Some _ => true | None => false end)   (* unknown != recorded *)
             end) with
    | None => (f, CCrash)
    | Some changed =>
        if a_safe a && changed then (f, CSkip)
        else if a_commit a then
          match fs_get f p with
          | Some FDir => (f, CCrash)                         (* remove_p on a directory: IsADirectoryError *)
          | None => (f, CSkip)                               (* remove_p suppresses FileNotFoundError *)
          | Some _ => (fs_del f p, CRemoved)                 (* a regular file or a symbolic link (the link only) *)
          end
        else (f, CSkip)
    end.

Fixpoint clean_loop (a : clean_args) (ns : list node) (f : fsys) (removed : list str)
  : fsys * list str * bool :=
  match ns with
  | [] => (f, removed, false)
  | n :: t =>
      match clean_one a f n with
      | (f', CSkip) => clean_loop a t f' removed
      | (f', CRemoved) => clean_loop a t f' (nlabel n :: removed)
      | (f', CCrash) => (f', removed, true)
      end
  end.

(* while parent.is_dir() and str(parent) not in (".", "/") and empty: rmdir; parent = parent.parent *)
Fixpoint walk_up (fuel : nat) (d : str) (f : fsys) (log : list str) : fsys * list str :=
  match fuel with
  | O => (f, log)
  | S k =>
      if is_dot d || str_eqb d [SLASH] then (f, log)
      else let '(f', b) := rmdir_if_empty f d in
           if b then walk_up k (dirname d) f' (d :: log) else (f, log)
  end.

Fixpoint insert_asc (x : str) (l : list str) : list str :=
  match l with
  | [] => [x]
  | y :: t => if lex_lt y x then y :: insert_asc x t else x :: l
  end.
Definition sort_asc (l : list str) : list str := fold_right insert_asc [] l.

Fixpoint insert_node_desc (x : node) (l : list node) : list node :=
  match l with
  | [] => [x]
  | y :: t => if lex_lt (nlabel x) (nlabel y) then y :: insert_node_desc x t else x :: l
  end.
Definition sort_nodes_desc (l : list node) : list node := fold_right insert_node_desc [] l.

Record clean_out := mkClean {
  k_fs : fsys;
  k_files : list str;     (* files removed, in order *)
  k_dirs : list str;      (* directories removed, in order *)
  k_crash : bool          (* an exception left clean() *)
}.

Definition clean_tool (g : graph) (a : clean_args) (trs : list str) (f : fsys) : clean_out :=
  let sel := sort_nodes_desc (clean_selected g a trs) in
  let '(f1, removed, crash) := clean_loop a sel f [] in
  if crash then mkClean f1 (rev removed) [] true
  else
    let parents := sort_asc (dedup (map dirname removed)) in
    let '(f2, dlog) :=
      fold_left (fun acc d => let '(ff, lg) := acc in walk_up (S (length d)) d ff lg) parents (f1, []) in
    mkClean f2 (rev removed) (rev dlog) false.

(* ---- Histories of file rows and the ghost set ever_output ---------------------------------- *)

Record frow := mkRow { fr_path : str; fr_state : N; fr_hash : option N }.
Record fhist := mkHist { h_rows : list frow; h_ever : list str }.

(* trigger file_clear_hash *)
Definition clear_hash_when (old new : N) (h : option N) : bool :=
  (memN new clear_new_states || (memN new clear_pair_new && memN old clear_pair_old)) &&
  match h with Some _ => true | None => false end.

(* UPDATE file SET state = new [, hash = h] followed by the trigger *)
Definition write_state (r : frow) (new : N) (h : option N) : frow :=
  mkRow (fr_path r) new (if clear_hash_when (fr_state r) new h then None else h).

(* File.initialize_row(requested) over an existing row *)
Definition init_row_state (requested : N) (old : N) : N :=
  if memN requested keep_requested && memN old keep_old then old
  else if keep_volatile_on_supply && (requested =? FS_UNDECLARED) && (old =? FS_VOLATILE) then FS_VOLATILE
  else requested.

Definition lookup_transition (cause old : N) (known : bool) : option N :=
  match find (fun t => let '((c, o, k), _) := t in (c =? cause) && (o =? old) && Bool.eqb k known)
             hash_transitions with
  | Some (_, n) => Some n
  | None => None
  end.

Inductive fop :=
| OpDeclareOutput (p : str) (st : N)        (* define_step / amend_step: _declare_file(step, p, PLANNED|VOLATILE) *)
| OpDeclareStatic (p : str)                 (* _declare_file(declarer, p, UNCONFIRMED), tree adoption *)
| OpSupply (p : str)                        (* create(File, None, p, UNDECLARED) *)
| OpHash (cause : N) (p : str) (h : option N)   (* update_file_hashes, one path *)
| OpSetState (site : nat) (p : str)         (* the site-th guarded set_state(FileState.X) *)
| OpRevert (p : str)                        (* UPDATE_OPTIONAL_TO_BE_DELETED on one selected row *)
| OpDelete (p : str).                       (* the node row is deleted; the file row cascades *)

Definition upd_row (rows : list frow) (p : str) (fn : frow -> frow) : list frow :=
  map (fun r => if str_eqb (fr_path r) p then fn r else r) rows.
Definition has_row (rows : list frow) (p : str) : bool := existsb (fun r => str_eqb (fr_path r) p) rows.

Definition init_row (rows : list frow) (p : str) (requested : N) : list frow :=
  if has_row rows p
  then upd_row rows p (fun r => write_state r (init_row_state requested (fr_state r)) (fr_hash r))
  else rows ++ [mkRow p requested None].

Definition is_output_role (s : N) : bool := memN s output_states || memN s volatile_states.

Definition apply_fop (h : fhist) (o : fop) : fhist :=
  match o with
  | OpDeclareOutput p st =>
      if is_output_role st && memN st declare_states
      then mkHist (init_row (h_rows h) p st) (p :: h_ever h)
      else h
  | OpDeclareStatic p => mkHist (init_row (h_rows h) p FS_UNCONFIRMED) (h_ever h)
  | OpSupply p => mkHist (init_row (h_rows h) p FS_UNDECLARED) (h_ever h)
  | OpHash cause p hh =>
      mkHist (upd_row (h_rows h) p (fun r =>
                match lookup_transition cause (fr_state r) (match hh with Some _ => true | None => false end) with
                | Some n => write_state r n hh
                | None => r               (* ConsistencyError, transaction rolled back *)
                end)) (h_ever h)
  | OpSetState site p =>
      match nth_error set_state_sites site with
      | Some (from, to) =>
          mkHist (upd_row (h_rows h) p (fun r => if fr_state r =? from then write_state r to (fr_hash r) else r))
                 (h_ever h)
      | None => h
      end
  | OpRevert p =>
      mkHist (upd_row (h_rows h) p (fun r =>
                if memN (fr_state r) revert_from && negb (fr_state r =? revert_exempt)
                then write_state r revert_to None else r)) (h_ever h)
  | OpDelete p => mkHist (filter (fun r => negb (str_eqb (fr_path r) p)) (h_rows h)) (h_ever h)
  end.

Definition run_fops (ops : list fop) (h : fhist) : fhist := fold_left apply_fop ops h.
Definition empty_hist : fhist := mkHist [] [].

(* the rows of a graph *)
Definition rows_of (g : graph) : list frow :=
  map (fun n => mkRow (nlabel n) (nfstate n) (nfhash n)) (filter (fun n => nkind n =? KFILE) (gnodes g)).

(* ---- Comparison helpers used by the correspondence runs (executable, boolean) -------------- *)

Definition opt_eqb {A : Type} (e : A -> A -> bool) (a b : option A) : bool :=
  match a, b with Some x, Some y => e x y | None, None => true | _, _ => false end.

Definition node_eqb (a b : node) : bool :=
  key_eqb (nkey a) (nkey b) && opt_eqb key_eqb (ncreator a) (ncreator b) && Bool.eqb (ndet a) (ndet b) &&
  (nfstate a =? nfstate b) && opt_eqb N.eqb (nfhash a) (nfhash b) && Bool.eqb (nshash a) (nshash b) &&
  (nneed a =? nneed b) && (nsstate a =? nsstate b).

Definition dep_eqb (a b : key * key) : bool := key_eqb (fst a) (fst b) && key_eqb (snd a) (snd b).

Definition graph_match (exp got : graph) : bool :=
  Nat.eqb (length (gnodes exp)) (length (gnodes got)) &&
  forallb (fun e => existsb (node_eqb e) (gnodes got)) (gnodes exp) &&
  Nat.eqb (length (gdeps exp)) (length (gdeps got)) &&
  forallb (fun e => existsb (dep_eqb e) (gdeps got)) (gdeps exp).

Definition strs_sub (a b : list str) : bool := forallb (fun x => existsb (str_eqb x) b) a.

Definition queue_match (efiles : list (str * option N)) (edirs : list str) (q : queue) : bool :=
  forallb (fun e => match qfile_get q (fst e) with Some v => opt_eqb N.eqb v (snd e) | None => false end) efiles &&
  forallb (fun e => existsb (fun x => str_eqb (fst x) (fst e)) efiles) (qfiles q) &&
  strs_sub edirs (qdirs q) && strs_sub (qdirs q) edirs.

Fixpoint strs_eqb (a b : list str) : bool :=
  match a, b with
  | [], [] => true
  | x :: s, y :: t => str_eqb x y && strs_eqb s t
  | _, _ => false
  end.

Definition fsent_eqb (a b : fsent) : bool :=
  match a, b with FFile x, FFile y => x =? y | FDir, FDir => true | FLink x, FLink y => str_eqb x y | _, _ => false end.

Definition fs_match (exp got : fsys) : bool :=
  Nat.eqb (length exp) (length got) &&
  forallb (fun e => match fs_get got (fst e) with Some x => fsent_eqb x (snd e) | None => false end) exp.
