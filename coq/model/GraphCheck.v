(* The startup consistency check with its repair (Trellis._check_consistency +
   Workflow._check_consistency, run by Trellis.initialize on every non-fresh database) as a
   transaction of the alphabet: op_c = OpT op_t | OpCheckConsistency.  Definitions only; the bodies
   of Graph.v / GraphTree.v are untouched.

   Trellis part (raises ConsistencyError / ValueError = Internal 129): for every node row, the
   detached flag equals "no creator or the creator row is detached" (LEFT JOIN: a creator id without
   a row counts as attached); CHECK_DETACHED_REACHABILITY: a node is detached iff it is NOT in the
   set reached from the root by following creator -> product links (downward closure, computed like
   RECURSIVELY_SET_DETACHED with lib/Closure.v); validate_row: every file node has a file row, every
   step node a step row.
   Workflow part (non-strict mode = production): every SUCCEEDED step that has an attached output
   (dependency edge step -> file, file row present) which is not BUILT or VOLATILE is made pending
   again (mark_step_pending).  In strict mode (STEPUP_DEBUG) the same condition raises instead; the
   harness uses strict mode as an oracle at the end of every trace. *)
From Coq Require Import List NArith Bool.
From SV Require Import lib.Bytes lib.Closure model.Graph model.GraphDump model.GraphInv model.GraphTree model.GraphTreeInv.
Import ListNotations.
Open Scope N_scope.

Definition row_flag_ok (s : st) (n : node) : bool :=
  let cdet := match ncre n with
              | None => true
              | Some c => match find_node c s with Some cn => ndet cn | None => false end
              end in
  Bool.eqb (ndet n) cdet.

(* all_products of CHECK_DETACHED_REACHABILITY: the root and everything below it *)
Definition reach_down (s : st) : list key :=
  closure_from key_eqb (prod_edges s) (length (nodes s)) [root_key].

Definition node_rows_ok (s : st) : bool :=
  forallb (fun n => match fst (nk n) with
                    | KFile => is_some (find_file (snd (nk n)) s)
                    | KStep => is_some (find_step (snd (nk n)) s)
                    | _ => true end) (nodes s).

Definition trellis_consistent_b (s : st) : bool :=
  forallb (row_flag_ok s) (nodes s) &&
  forallb (fun n => negb (Bool.eqb (ndet n) (mem_key (nk n) (reach_down s)))) (nodes s) &&
  node_rows_ok s.

Definition bad_output (s : st) (f : str) : bool :=
  negb (is_detached (KFile, f) s) &&
  match fstate_of f s with Some FBuilt | Some FVolatile => false | Some _ => true | None => false end.

Definition succeeded_with_bad_output (s : st) : list str :=
  map sl (filter (fun r => sstate_eqb (sst r) SSucceeded &&
                           existsb (bad_output s) (file_sinks_of_step (sl r) s)) (steps s)).

Definition check_consistency (s : st) : res st :=
  if negb (trellis_consistent_b s) then Internal 129
  else foldM (fun s l => mark_step_pending l s) (succeeded_with_bad_output s) s.

Inductive op_c :=
| OpT (o : op_t)
| OpCheckConsistency.

Definition step_op_c (o : op_c) (s : st) : res st :=
  match o with OpT o => step_op_t o s | OpCheckConsistency => check_consistency s end.
Definition apply_op_c (s : st) (o : op_c) : st := match step_op_c o s with Ok s' => s' | _ => s end.
Definition run_ops_c (ops : list op_c) (s : st) : st := fold_left apply_op_c ops s.

Definition protocol_hold_c_b (s : st) (o : op_c) : bool :=
  match o with OpT o => protocol_hold_t_b s o | OpCheckConsistency => true end.
Definition protocol_ok_c (s : st) (o : op_c) : bool :=
  match o with OpT o => protocol_ok_t s o | OpCheckConsistency => true end.
Fixpoint protocol_run_c_b (s : st) (ops : list op_c) : bool :=
  match ops with [] => true | o :: ops' => protocol_hold_c_b s o && protocol_run_c_b (apply_op_c s o) ops' end.
Fixpoint protocol_ok_run_c (s : st) (ops : list op_c) : bool :=
  match ops with [] => true | o :: ops' => protocol_ok_c s o && protocol_ok_run_c (apply_op_c s o) ops' end.

(* trace checker of the E2 correspondence for this alphabet *)
Fixpoint first_bad_c (i : nat) (s : st) (tr : list (op_c * outcome * dump)) : option nat :=
  match tr with
  | [] => None
  | (o, oc, d) :: tr' =>
    let r := step_op_c o s in
    let s' := match r with Ok x => x | _ => s end in
    if outcome_eqb (outcome_of r) oc && dump_eqb (dump_of s') d then first_bad_c (S i) s' tr'
    else Some i
  end.
Definition check_trace_c (cap : N) (tr : list (op_c * outcome * dump)) : bool :=
  match first_bad_c 0 (init_st cap) tr with None => true | Some _ => false end.
Fixpoint all_prefixes_ok_c (p : st -> bool) (s : st) (ops : list op_c) : bool :=
  p s && match ops with [] => true | o :: ops' => all_prefixes_ok_c p (apply_op_c s o) ops' end.

(* I4 right after the startup check, on every prefix that ends with it: the predicate evaluated by
   the harness on executed traces (also on traces that break the build-loop protocol) *)
Fixpoint repaired_after_check (s : st) (ops : list op_c) : bool :=
  match ops with
  | [] => true
  | o :: ops' =>
    let s' := apply_op_c s o in
    (match o, step_op_c o s with
     | OpCheckConsistency, Ok _ => inv_succeeded_b s'
     | _, _ => true end) && repaired_after_check s' ops'
  end.
