(* C03 -- executable model of the freshness machinery. Definitions only (no proofs), so that the
   correspondence still runs when a proof breaks.

   A. the start/stop stamp bookkeeping of Scheduler (generated functions over lib/StampMap.v) and its
      unpruned reference semantics;
   B. one consumer step `c` in an arbitrary environment: dispatch guard, pre-run hash check,
      amend requests (availability / freshness classification, promoted confirmation, defer),
      post-run hash check, classification, mark_completed, draining.  Every decision is a generated
      function (gen/GenFresh.v); this file only composes them in the order of
      Scheduler.pop_next_job / Executor.execute_job / DirectorHandler.amend_step.
   Everything that other actors do (other steps' transactions, hash jobs, external writers) enters
   as environment events carrying the observed database rows. *)
From Coq Require Import List NArith Bool.
From SV Require Import lib.StampMap.
From SV Require Import gen.GenFresh.
Import ListNotations.
Open Scope N_scope.
Open Scope bool_scope.

(* ============================== A. stamps ============================== *)

Record book := mkBook { starts : smap; stops : smap }.

Inductive bev :=
| BStart (s t : N)               (* record_run_started(s) with the clock reading t *)
| BStop (s t : N) (ok : bool)    (* record_run_stopped(s, succeeded=ok) with the clock reading t *)
| BClear.                        (* build_completed *)

Definition book0 : book := mkBook [] [].

Definition bstep (b : book) (e : bev) : book :=
  match e with
  | BStart s t => let '(a, o) := record_run_started_gen (starts b) (stops b) s t in mkBook a o
  | BStop s t ok => let '(a, o) := record_run_stopped_gen (starts b) (stops b) s t ok in mkBook a o
  | BClear => mkBook [] []
  end.

Definition brun (evs : list bev) : book := fold_left bstep evs book0.

Definition ran_conc (b : book) (p c : N) : bool := ran_concurrently_gen (starts b) (stops b) p c.

(* Reference: the full history, nothing ever pruned.  `running` = the start stamp of every step
   whose command is running; `last_ok_stop` = the stamp of the last successful stop of every step. *)
Record hist := mkHist { running : smap; last_ok_stop : smap }.

Definition hist0 : hist := mkHist [] [].

Definition hstep (h : hist) (e : bev) : hist :=
  match e with
  | BStart s t => mkHist (sm_set s t (running h)) (last_ok_stop h)
  | BStop s t ok => mkHist (sm_remove s (running h)) (if ok then sm_set s t (last_ok_stop h) else last_ok_stop h)
  | BClear => mkHist [] (last_ok_stop h)       (* build_completed: nothing runs (its precondition) *)
  end.

Definition hrun (evs : list bev) : hist := fold_left hstep evs hist0.

(* The producer's last successful stop is not before the consumer's current start. *)
Definition ran_ref (h : hist) (p c : N) : bool :=
  match sm_get c (running h), sm_get p (last_ok_stop h) with
  | Some sc, Some tp => sc <=? tp
  | _, _ => false
  end.

(* Clock readings never decrease (time.monotonic_ns); equal readings are possible. *)
Definition bev_time (e : bev) : option N :=
  match e with BStart _ t => Some t | BStop _ t _ => Some t | BClear => None end.

Fixpoint mono (t0 : N) (evs : list bev) : bool :=
  match evs with
  | [] => true
  | e :: r => match bev_time e with
              | Some t => (t0 <=? t) && mono t r
              | None => mono t0 r
              end
  end.

(* Strictly increasing clock readings (a clock fine enough to separate any two events). *)
Fixpoint smono (t0 : N) (evs : list bev) : bool :=
  match evs with
  | [] => true
  | e :: r => match bev_time e with
              | Some t => (t0 <? t) && smono t r
              | None => smono t0 r
              end
  end.

(* Logical clock: every event is stamped with its position in the sequence. *)
Definition restamp (e : bev) (n : N) : bev :=
  match e with BStart s _ => BStart s n | BStop s _ ok => BStop s n ok | BClear => BClear end.

Fixpoint reindex (n : N) (evs : list bev) : list bev :=
  match evs with
  | [] => []
  | e :: r => restamp e n :: reindex (n + 1) r
  end.

(* Event order: c's current start happened before p's last successful stop. *)
Definition ran_order (evs : list bev) (p c : N) : bool := ran_ref (hrun (reindex 1 evs)) p c.

(* All queries of a list of (producer, consumer) pairs. *)
Definition queries (b : book) (pairs : list (N * N)) : list bool :=
  map (fun pc => ran_conc b (fst pc) (snd pc)) pairs.
Definition queries_ref (h : hist) (pairs : list (N * N)) : list bool :=
  map (fun pc => ran_ref h (fst pc) (snd pc)) pairs.

(* ============================== B. one consumer ============================== *)

(* A file row as the code sees it. Hashes are codes of (digest, mode, size); 0 = unknown/absent. *)
Record frow := mkF {
  f_exists : bool;            (* a node row exists for the path *)
  f_state : N;                (* FileState value *)
  f_hash : N;                 (* recorded hash code, 0 = none *)
  f_detached : bool;
  f_has_creator : bool;       (* creator IS NOT NULL *)
  f_producer : option N;      (* Some p when the creator is a step (node id p) *)
  f_tree_owns : bool          (* an attached static tree owns the path *)
}.

Definition frow0 : frow := mkF false FS_UNDECLARED 0 true false None false.

Record runst := mkRun {
  r_unavail : bool;           (* run.unavailable is non-empty *)
  r_unfresh : bool;           (* run.unfresh is non-empty *)
  r_success : bool;
  r_snap : list (N * N)       (* inp_hashes handed to execute_job: (file, hash at dispatch) *)
}.

Record world := mkW {
  files : N -> frow;
  disk : N -> N;              (* hash code of what is on disk now, 0 = absent *)
  bk : book;
  hs : hist;                  (* ghost: unpruned history of the same stamp events *)
  c_id : N;
  c_state : N; c_deferred : bool; c_dc : N;
  c_init : list N;            (* initial (declared) inputs *)
  c_dyn : list N;             (* dynamic (amended) input edges currently in the graph *)
  c_run : option runst;       (* Some while the command runs *)
  c_error : bool;             (* a _derive_job sanity branch fired (ConsistencyError) *)
  draining : bool;
  cap : N; keep_going : bool
}.

Definition upd {A} (m : N -> A) (k : N) (v : A) : N -> A := fun x => if x =? k then v else m x.

Definition set_files w fs := mkW fs (disk w) (bk w) (hs w) (c_id w) (c_state w) (c_deferred w) (c_dc w)
  (c_init w) (c_dyn w) (c_run w) (c_error w) (draining w) (cap w) (keep_going w).
Definition set_disk w d := mkW (files w) d (bk w) (hs w) (c_id w) (c_state w) (c_deferred w) (c_dc w)
  (c_init w) (c_dyn w) (c_run w) (c_error w) (draining w) (cap w) (keep_going w).
Definition set_book w e := mkW (files w) (disk w) (bstep (bk w) e) (hstep (hs w) e) (c_id w) (c_state w)
  (c_deferred w) (c_dc w) (c_init w) (c_dyn w) (c_run w) (c_error w) (draining w) (cap w) (keep_going w).
Definition set_crow w st df dc := mkW (files w) (disk w) (bk w) (hs w) (c_id w) st df dc
  (c_init w) (c_dyn w) (c_run w) (c_error w) (draining w) (cap w) (keep_going w).
Definition set_dyn w dy := mkW (files w) (disk w) (bk w) (hs w) (c_id w) (c_state w) (c_deferred w) (c_dc w)
  (c_init w) dy (c_run w) (c_error w) (draining w) (cap w) (keep_going w).
Definition set_run w r := mkW (files w) (disk w) (bk w) (hs w) (c_id w) (c_state w) (c_deferred w) (c_dc w)
  (c_init w) (c_dyn w) r (c_error w) (draining w) (cap w) (keep_going w).
Definition set_error w b := mkW (files w) (disk w) (bk w) (hs w) (c_id w) (c_state w) (c_deferred w) (c_dc w)
  (c_init w) (c_dyn w) (c_run w) b (draining w) (cap w) (keep_going w).
Definition set_draining w b := mkW (files w) (disk w) (bk w) (hs w) (c_id w) (c_state w) (c_deferred w) (c_dc w)
  (c_init w) (c_dyn w) (c_run w) (c_error w) b (cap w) (keep_going w).

Definition mem (x : N) (l : list N) : bool := existsb (N.eqb x) l.

(* ---- dispatch guard (STEP_DISPATCH_WHERE restricted to what concerns inputs, + draining) ---- *)

Definition input_unavailable (w : world) (dynamic : bool) (f : N) : bool :=
  unavailable_input_gen (f_state (files w f)) dynamic (f_detached (files w f)).

(* step._ready as RECOMPUTE_READY defines it *)
Definition ready (w : world) : bool :=
  negb (existsb (input_unavailable w false) (c_init w) || existsb (input_unavailable w true) (c_dyn w)).

Definition is_running (w : world) : bool := match c_run w with Some _ => true | None => false end.

Definition dispatchable (w : world) : bool :=
  negb (draining w) && (c_state w =? SS_PENDING) && negb (c_deferred w) && ready w && negb (is_running w).

(* ---- _derive_job: per input ---- *)
Definition derive_input (w : world) (dynamic : bool) (f : N) : dj_result :=
  derive_job_input_gen (f_state (files w f)) (f_detached (files w f)) dynamic.

Definition dj_is_error (r : dj_result) : bool := match r with DJ_error => true | _ => false end.
Definition dj_is_hash (r : dj_result) : bool := match r with DJ_hash => true | _ => false end.

Definition derive_error (w : world) : bool :=
  existsb (fun f => dj_is_error (derive_input w false f)) (c_init w)
  || existsb (fun f => dj_is_error (derive_input w true f)) (c_dyn w).

Definition snapshot (w : world) : list (N * N) :=
  map (fun f => (f, f_hash (files w f)))
      (filter (fun f => dj_is_hash (derive_input w false f)) (c_init w)
       ++ filter (fun f => dj_is_hash (derive_input w true f)) (c_dyn w)).

(* compute_inp_hashes: some input's content/mode/size differs from the expected hash *)
Definition snap_changed (w : world) (snap : list (N * N)) : bool :=
  existsb (fun fh => negb (disk w (fst fh) =? snd fh)) snap.

(* update_file_hashes(new_inp_hashes, FAILED) on one changed input (rows of _HASH_TRANSITIONS used here) *)
Definition rehash_failed_row (r : frow) (d : N) : frow :=
  let st := f_state r in
  let st' := if st =? FS_CONFIRMED then (if d =? 0 then FS_MISSING else FS_CONFIRMED)
             else if st =? FS_BUILT then (if d =? 0 then FS_PLANNED else FS_OUTDATED)
             else st in
  let h' := if (st' =? FS_MISSING) || (st' =? FS_PLANNED) then 0 else d in
  mkF (f_exists r) st' h' (f_detached r) (f_has_creator r) (f_producer r) (f_tree_owns r).

Definition rehash_failed (w : world) (changed : list N) : world :=
  set_files w (fold_left (fun fs f => upd fs f (rehash_failed_row (fs f) (disk w f))) changed (files w)).

Inductive result :=
| RNone
| RTry (started : bool)
| RAmend (rejected : bool) (unavailable unfresh : list N) (carry_on : bool)
| REnd.

(* ---- pop_next_job + execute_job up to the start of the command ---- *)
Definition do_try (w : world) (t : N) : world * result :=
  if negb (dispatchable w) then (w, RTry false)
  else if derive_error w then (set_error w true, RTry false)
  else
    let snap := snapshot w in
    let w := set_crow w SS_RUNNING false (c_dc w) in
    let w := set_book w (BStart (c_id w) t) in                 (* record_run_started *)
    if snap_changed w snap then
      (* _new_run: unexpected input change before the command *)
      let changed := map fst (filter (fun fh => negb (disk w (fst fh) =? snd fh)) snap) in
      let w := rehash_failed w changed in
      let '(st, df, _, dc, _, _, _, _) := mark_completed_gen false false (c_dc w) (cap w) false (c_state w) in
      let w := set_crow w st df dc in
      let w := set_book w (BStop (c_id w) t false) in
      (* _finalize_failed_run -> _report_run (FAIL), then _drain_for_unexpected_input_changes *)
      let w := set_draining w (drain_for_changes_gen || draining w
                               || report_drains_gen (determine_tag_gen false false false false) (keep_going w)) in
      (w, RTry false)
    else
      let w := set_dyn w [] in                                  (* reset_for_rerun drops dynamic inputs *)
      (set_run w (Some (mkRun false false true snap)), RTry true).

(* ---- DirectorHandler.amend_step(inp_paths=paths) ---- *)
Record acc := mkAcc { a_w : world; a_unav : list N; a_unfr : list N; a_check : list N; a_rej : bool }.

Definition amend_one (a : acc) (f : N) : acc :=
  let w := a_w a in
  let r := files w f in
  match resolve_supply_gen (f_exists r) (f_detached r) (f_has_creator r) (f_tree_owns r) (f_state r) with
  | None => mkAcc w (a_unav a) (a_unfr a) (a_check a) true
  | Some (st, det) =>
      (* the row as _resolve_supply_file leaves it *)
      let created := ((negb (f_exists r) || f_detached r) && f_tree_owns r)
                     || negb (f_exists r) || negb (f_has_creator r) in
      let r' := if created then mkF true st (f_hash r) det (f_tree_owns r) None (f_tree_owns r) else r in
      let producer_is_step := match f_producer r' with Some _ => true | None => false end in
      let rc := match f_producer r' with Some p => ran_conc (bk w) p (c_id w) | None => false end in
      let new_edge := negb (mem f (c_init w) || mem f (c_dyn w)) in
      let '(unav, unconf, unfr, dyn) := amend_input_gen det st producer_is_step rc new_edge in
      let w := set_files w (upd (files w) f r') in
      let w := if dyn then set_dyn w (c_dyn w ++ [f]) else w in
      mkAcc w (if unav then a_unav a ++ [f] else a_unav a)
              (if unfr then a_unfr a ++ [f] else a_unfr a)
              (if unconf then a_check a ++ [f] else a_check a)
              (a_rej a)
  end.

(* promoted hash job with cause CONFIRMED, then the second read-only block *)
Definition confirm_one (wa : world * list N) (f : N) : world * list N :=
  let '(w, unav) := wa in
  let r := files w f in
  let d := disk w f in
  let st' := if d =? 0 then FS_MISSING else FS_CONFIRMED in
  let r' := mkF (f_exists r) st' d (f_detached r) (f_has_creator r) (f_producer r) (f_tree_owns r) in
  let w := set_files w (upd (files w) f r') in
  (w, if amend_second_block_gen st' then unav ++ [f] else unav).

Definition nonempty {A} (l : list A) : bool := match l with [] => false | _ => true end.

Definition do_amend (w : world) (paths : list N) : world * result :=
  match c_run w with
  | None => (w, RNone)
  | Some r =>
      let a := fold_left amend_one paths (mkAcc w [] [] [] false) in
      if a_rej a then (w, RAmend true [] [] false)              (* GraphError: transaction rolled back *)
      else
        let '(w1, unav) := fold_left confirm_one (a_check a) (a_w a, a_unav a) in
        let '(carry_on, defer_called) := amend_tail_gen (nonempty unav) (nonempty (a_unfr a)) in
        let r' := if defer_called
                  then let '(ru, rf, rs) := defer_gen (r_unavail r) (r_unfresh r) (r_success r)
                                                      (nonempty unav) (nonempty (a_unfr a)) in
                       mkRun ru rf rs (r_snap r)
                  else r in
        (set_run w1 (Some r'), RAmend false unav (a_unfr a) carry_on)
  end.

(* ---- the command returned: _compute_full_step_hash, _classify_execution, mark_completed ---- *)
Definition considered (w : world) : list N :=
  filter (fun f => negb (f_detached (files w f)) && posthash_considers_gen (f_state (files w f)))
         (c_init w ++ c_dyn w).

Definition changed_inputs (w : world) : list N :=
  filter (fun f => negb (disk w f =? f_hash (files w f))) (considered w).

(* Executor._flag_inputs_not_final: an attached input that is BUILT or CONFIRMED when the command
   returns is reported unfresh when the command started from another recorded hash, or (for an
   input that was not in the start snapshot, i.e. an amended one) when it is BUILT by a step that
   ran_concurrently. *)
Definition flagged_input (w : world) (r : runst) (f : N) : bool :=
  let row := files w f in
  flag_input_gen (f_state row)
    (match sm_get f (r_snap r) with Some _ => true | None => false end)
    (match sm_get f (r_snap r) with Some h => h =? f_hash row | None => true end)
    (match f_producer row with Some _ => true | None => false end)
    (match f_producer row with Some p => ran_conc (bk w) p (c_id w) | None => false end).

Definition attached_inputs (w : world) : list N :=
  filter (fun f => negb (f_detached (files w f))) (c_init w ++ c_dyn w).

Definition flagged (w : world) (r : runst) : bool := existsb (flagged_input w r) (attached_inputs w).

(* `flagging` = whether execute_job performs that step (generated: exec_flags_inputs_not_final);
   do_end_gen false is the code before fix a02f82b, kept to name a regression. *)
(* `changed` = the inputs whose post-run hash differs from the recorded one (new_inp_hashes of
   _compute_full_step_hash); empty when the hash computation was cancelled (model/FreshSkip.v). *)
Definition do_end_core (flagging : bool) (w : world) (t : N) (cmd_ok : bool) (changed : list N) : world * result :=
  match c_run w with
  | None => (w, RNone)
  | Some r =>
      let unexpected := nonempty changed in
      let hash0 := negb unexpected in                     (* step_hash is None iff inp messages *)
      let success0 := r_success r && cmd_ok && negb unexpected in
      let unfresh0 := r_unfresh r || (flagging && flagged w r) in
      let '(hash_some, wants_defer, success, ru, rf, rehash) :=
          classify_gen (r_unavail r) unfresh0 success0 hash0 unexpected in
      let hud := existsb (fun f => dyn_input_unavailable_gen (f_state (files w f))) (c_dyn w) in
      let w := if rehash then rehash_failed w changed else w in
      let '(st, df, interrupted, dc, _, _, _, _) :=
          mark_completed_gen hash_some wants_defer (c_dc w) (cap w) hud (c_state w) in
      let dc := if st =? trigger_reset_defer_count_state then 0 else dc in
      let w := set_crow w st df dc in
      let w := set_book w (BStop (c_id w) t hash_some) in   (* succeeded = new_hash is not None *)
      let tag := determine_tag_gen interrupted ru rf success in
      let w := set_draining w (draining w || report_drains_gen tag (keep_going w)
                               || (unexpected && drain_for_changes_gen)) in
      (set_run w None, REnd)
  end.

Definition do_end_gen (flagging : bool) (w : world) (t : N) (cmd_ok : bool) : world * result :=
  do_end_core flagging w t cmd_ok (changed_inputs w).

Definition do_end := do_end_gen exec_flags_inputs_not_final.

(* ---- events ---- *)
Inductive ev :=
| EWrite (f v : N)                          (* any process writes / deletes a file *)
| ERow (f : N) (r : frow)                   (* another transaction changed the row of f (observed) *)
| ECRow (st : N) (df : bool) (dc : N)       (* another transaction changed c's row (observed) *)
| EBk (e : bev)                             (* stamp bookkeeping of another step *)
| EDrain (b : bool)                         (* the draining flag set/cleared by another actor (observed) *)
| ETry (t : N)                              (* dispatch attempt + start of execute_job *)
| EAmend (paths : list N)
| EEnd (t : N) (cmd_ok : bool).

Definition step (w : world) (e : ev) : world * result :=
  match e with
  | EWrite f v => (set_disk w (upd (disk w) f v), RNone)
  | ERow f r => (set_files w (upd (files w) f r), RNone)
  | ECRow st df dc => (set_crow w st df dc, RNone)
  | EBk b => (set_book w b, RNone)
  | EDrain b => (set_draining w b, RNone)
  | ETry t => do_try w t
  | EAmend ps => do_amend w ps
  | EEnd t ok => do_end w t ok
  end.

Definition run (evs : list ev) (w : world) : world := fold_left (fun w e => fst (step w e)) evs w.

(* ---- comparison with what the implementation showed (correspondence) ---- *)
Record cobs := mkObs {
  x_state : N; x_deferred : bool; x_dc : N; x_draining : bool;
  x_starts : smap; x_stops : smap; x_dyn : list N
}.

Fixpoint list_eqb (a b : list N) : bool :=
  match a, b with
  | [], [] => true
  | x :: a', y :: b' => (x =? y) && list_eqb a' b'
  | _, _ => false
  end.

Fixpoint insert_sorted (x : N) (l : list N) : list N :=
  match l with [] => [x] | y :: r => if x <=? y then x :: l else y :: insert_sorted x r end.
Definition sort_n (l : list N) : list N := fold_right insert_sorted [] l.

Definition result_eqb (a b : result) : bool :=
  match a, b with
  | RNone, RNone => true
  | RTry x, RTry y => Bool.eqb x y
  | RAmend r1 u1 f1 c1, RAmend r2 u2 f2 c2 =>
      Bool.eqb r1 r2 && list_eqb (sort_n u1) (sort_n u2) && list_eqb (sort_n f1) (sort_n f2) && Bool.eqb c1 c2
  | REnd, REnd => true
  | _, _ => false
  end.

Definition obs_ok (keys : list N) (w : world) (o : cobs) : bool :=
  (c_state w =? x_state o) && Bool.eqb (c_deferred w) (x_deferred o) && (c_dc w =? x_dc o)
  && Bool.eqb (draining w) (x_draining o)
  && sm_agree_on keys (starts (bk w)) (x_starts o) && sm_agree_on keys (stops (bk w)) (x_stops o)
  && list_eqb (sort_n (c_dyn w)) (sort_n (x_dyn o))
  && negb (c_error w).

(* A trace with, after every event of c, the result and the observation of the implementation. *)
Fixpoint check_trace (keys : list N) (w : world) (tr : list (ev * option (result * cobs))) : bool :=
  match tr with
  | [] => true
  | (e, x) :: rest =>
      let '(w', r) := step w e in
      match x with
      | None => check_trace keys w' rest
      | Some (r0, o) => result_eqb r r0 && obs_ok keys w' o && check_trace keys w' rest
      end
  end.

(* index of the first disagreement (diagnostics) *)
Fixpoint first_bad (keys : list N) (w : world) (tr : list (ev * option (result * cobs))) (i : N) : option N :=
  match tr with
  | [] => None
  | (e, x) :: rest =>
      let '(w', r) := step w e in
      match x with
      | None => first_bad keys w' rest (i + 1)
      | Some (r0, o) => if result_eqb r r0 && obs_ok keys w' o then first_bad keys w' rest (i + 1) else Some i
      end
  end.

Definition world0 (cid : N) (init : list N) (capv : N) (kg : bool) : world :=
  mkW (fun _ => frow0) (fun _ => 0) book0 hist0 cid SS_PENDING false 0 init [] None false false capv kg.
