(* C03 -- executable model of the CHECKING path: a PENDING step that holds a stored step hash is
   dispatched to CHECKING and either validated (ValidateDynamicJob) or skipped (RunJob with a hash,
   Executor.try_skip_job); plus hash cancellation (Executor._run_work_thread returning None).
   Definitions only (no proofs).

   Layered on model/Fresh.v: `xworld` = the world of Fresh.v + the stored step hash, the outputs of c,
   the code of the non-file ingredients of the input digest and the in-flight state of try_skip_job.
   A step hash is the pair of INGREDIENT LISTS of its two digests (hash.py: StepHash.from_inp /
   with_out_hashes over _update_file_hashes, fingerprinted by the translator); C13 proves that equal
   digests have equal ingredient lists, which licenses comparing the lists instead of SHA-256 values.
   Every decision is a generated function of gen/GenFresh.v (get_next_step_state_gen,
   derive_job_kind_gen, validate_gen, try_skip_phase1_gen, try_skip_phase2_gen, reset_to_pending_gen,
   mark_completed_gen, determine_tag_gen, report_drains_gen); this file fixes their order. *)
From Coq Require Import List NArith Bool.
From SV Require Import lib.StampMap.
From SV Require Import gen.GenFresh.
From SV Require Import model.Fresh.
Import ListNotations.
Open Scope N_scope.
Open Scope bool_scope.

(* ------------------------------ step hashes ------------------------------ *)

(* sh_env: code of (label, shell flag, values of the tracked environment variables, overrides);
   sh_inp / sh_out: (file, hash code) in path order; a hash code stands for (digest, mode, size). *)
Record shash := mkSH { sh_env : N; sh_inp : list (N * N); sh_out : list (N * N) }.

Fixpoint pairs_eqb (a b : list (N * N)) : bool :=
  match a, b with
  | [], [] => true
  | (x1, y1) :: a', (x2, y2) :: b' => (x1 =? x2) && (y1 =? y2) && pairs_eqb a' b'
  | _, _ => false
  end.

(* `for path in sorted(file_hashes)`: file ids follow path order *)
Fixpoint insert_pair (x : N * N) (l : list (N * N)) : list (N * N) :=
  match l with
  | [] => [x]
  | y :: r => if fst x <=? fst y then x :: l else y :: insert_pair x r
  end.
Definition canon (l : list (N * N)) : list (N * N) := fold_right insert_pair [] l.

Definition shash_eqb (a b : shash) : bool :=
  (sh_env a =? sh_env b) && pairs_eqb (sh_inp a) (sh_inp b) && pairs_eqb (sh_out a) (sh_out b).

(* try_skip_job between the comparison of the input digests and the hashing of the outputs:
   the job holds the step hash it was created with and the new input part *)
Record chk := mkChk {
  k_old : shash;               (* job.step_hash *)
  k_env : N;
  k_inp : list (N * N);        (* input ingredients of the new hash *)
  k_snap : list (N * N)        (* job.inp_hashes: (input, hash recorded when the job was created) *)
}.

Record xworld := mkX {
  xb : world;
  x_hash : option shash;      (* the step_hash row of c *)
  x_outs : list N;            (* output files of c (Step.out_paths) *)
  x_envc : N;                 (* current code of the non-file ingredients of the input digest *)
  x_chk : option chk          (* Some while try_skip_job waits for the output hashes *)
}.

Definition set_xb x w := mkX w (x_hash x) (x_outs x) (x_envc x) (x_chk x).
Definition set_xhash x h := mkX (xb x) h (x_outs x) (x_envc x) (x_chk x).
Definition set_xenv x n := mkX (xb x) (x_hash x) (x_outs x) n (x_chk x).
Definition set_xchk x k := mkX (xb x) (x_hash x) (x_outs x) (x_envc x) k.

Definition has_hash (x : xworld) : bool := match x_hash x with Some _ => true | None => false end.
Definition is_checking (x : xworld) : bool := match x_chk x with Some _ => true | None => false end.

(* ------------------------------ _derive_job: dynamic_inputs_ready ------------------------------ *)

Definition dj_is_not_ready (r : dj_result) : bool := match r with DJ_not_ready => true | _ => false end.

Definition dyn_ready (w : world) : bool :=
  negb (existsb (fun f => dj_is_not_ready (derive_input w false f)) (c_init w)
        || existsb (fun f => dj_is_not_ready (derive_input w true f)) (c_dyn w)).

(* Step.has_unusable_dynamic_input(): EXISTS over the dynamic dependencies (generated per-input test) *)
Definition has_unusable_dyn (w : world) : bool :=
  existsb (fun f => unusable_dyn_input_gen (f_state (files w f)) (f_detached (files w f))) (c_dyn w).

(* ------------------------------ _new_run ------------------------------ *)

(* _compute_inp_step_hash: cancelled (None, {}), unexpected changes (None, new hashes), or the
   input part of the new step hash (all_hashes = what refreshed() reports = what is on disk) *)
Inductive newrun :=
| NR_ok (inp : list (N * N))
| NR_cancelled
| NR_changed (changed : list N).

Definition new_run (w : world) (snap : list (N * N)) (cancel : bool) : newrun :=
  if cancel then NR_cancelled
  else if snap_changed w snap
       then NR_changed (map fst (filter (fun fh => negb (disk w (fst fh) =? snd fh)) snap))
       else NR_ok (canon (map (fun fh => (fst fh, disk w (fst fh))) snap)).

(* Executor._finalize_failed_run: mark_completed(None, False), record_run_stopped(succeeded=False),
   _report_run with run.success = False and nothing unavailable or unfresh *)
Definition finalize_failed (w : world) (t : N) : world :=
  let '(st, df, _, dc, _, _, _, _) := mark_completed_gen false false (c_dc w) (cap w) false (c_state w) in
  let w := set_crow w st df dc in
  let w := set_book w (BStop (c_id w) t false) in
  let tag := determine_tag_gen false false false false in
  set_draining w (draining w || report_drains_gen tag (keep_going w)).

(* the failing tail of _new_run; `changed` is empty for a cancelled hash computation *)
Definition fail_new_run (w : world) (t : N) (changed : list N) : world :=
  let w := rehash_failed w changed in
  let w := finalize_failed w t in
  if nonempty changed then set_draining w (drain_for_changes_gen || draining w) else w.

(* Executor._reset_step_to_pending *)
Definition apply_reset (x : xworld) (w : world) : xworld :=
  let '(dyn_dropped, hash_deleted, state_set, st, df) := reset_to_pending_gen in
  let w := if dyn_dropped then set_dyn w [] else w in
  let w := if state_set then set_crow w st df (c_dc w) else w in
  mkX w (if hash_deleted then None else x_hash x) (x_outs x) (x_envc x) None.

Inductive xres :=
| XRNone
| XRBase (r : result)
| XRTry (kind : N) (started : bool)   (* 0 not dispatched, 1 execute_job, 2 try_skip_job, 3 validate_dynamic_job *)
| XRChk (skipped : bool)
| XREnd.

Definition inp_equal (sh : shash) (envc : N) (inp : list (N * N)) : bool :=
  (sh_env sh =? envc) && pairs_eqb (sh_inp sh) inp.

(* ---- pop_next_job, then execute_job up to the command / try_skip_job up to the output hashing /
        the whole of validate_dynamic_job ----
   `vg` = the decision of validate_dynamic_job after _new_run (generated: validate_gen); it is a
   parameter so that the code before fix d760e3e (validate_prefix below) can be named as well.
   Its third argument is step.has_unusable_dynamic_input() (84081f2, fix of D39).  The source
   evaluates it in the transaction that records the outcome; the whole of validate_dynamic_job is
   ONE event here (no other actor acts between the derivation of the job and its outcome), so it is
   evaluated on the rows of the dispatch.  What follows for a world in which the inputs came back
   in between is stated for ANY world: FreshSkipProofs.not_deferred_after_validate_is_checked. *)
Definition do_xtry_gen (vg : bool -> bool -> bool -> bool * bool * N * bool)
    (x : xworld) (t : N) (cancel : bool) : xworld * xres :=
  let w := xb x in
  if negb (dispatchable w) || is_checking x then (x, XRTry 0 false)
  else if derive_error w then (set_xb x (set_error w true), XRTry 0 false)
  else
    let hh := has_hash x in
    let snap := snapshot w in
    match derive_job_kind_gen (dyn_ready w) hh, x_hash x with
    | JK_execute, _ =>
        if cancel then
          let w := set_crow w (get_next_step_state_gen hh) false (c_dc w) in
          let w := set_book w (BStart (c_id w) t) in                       (* record_run_started *)
          (set_xhash (set_xb x (fail_new_run w t [])) None, XRTry 1 false)
        else
          let '(w', _) := do_try w t in
          (set_xhash (set_xb x w') (if is_running w' then x_hash x else None), XRTry 1 (is_running w'))
    | k, Some sh =>
        let kn := match k with JK_validate => 3 | _ => 2 end in
        let w := set_crow w (get_next_step_state_gen hh) false (c_dc w) in  (* pop_next_job: set_state(state) *)
        match new_run w snap cancel with
        | NR_cancelled => (set_xhash (set_xb x (fail_new_run w t [])) None, XRTry kn false)
        | NR_changed ch => (set_xhash (set_xb x (fail_new_run w t ch)) None, XRTry kn false)
        | NR_ok inp =>
            let ie := inp_equal sh (x_envc x) inp in
            match k with
            | JK_validate =>
                let '(reset, state_set, st, df) := vg true ie (has_unusable_dyn w) in
                if reset then (apply_reset x w, XRTry kn false)
                else if state_set then (set_xb x (set_crow w st df (c_dc w)), XRTry kn false)
                else (set_xb x w, XRTry kn false)
            | _ =>
                let '(returned, reset) := try_skip_phase1_gen true ie in
                if reset then (apply_reset x w, XRTry kn false)
                else if returned then (set_xb x w, XRTry kn false)
                else (set_xchk (set_xb x w) (Some (mkChk sh (x_envc x) inp snap)), XRTry kn false)
            end
        end
    | _, None => (x, XRTry 0 false)
    end.

Definition do_xtry := do_xtry_gen validate_gen.

(* validate_dynamic_job as it was before fix d760e3e (finding D36): the "digest unchanged" branch
   called set_state(StepState.PENDING), i.e. deferred = False.  Kept to name the regression. *)
Definition validate_prefix (new_run_ok inp_equal unusable_dyn : bool) : bool * bool * N * bool :=
  if negb new_run_ok then (false, false, 0, false)
  else if negb inp_equal then (true, false, 0, false)
  else (false, true, SS_PENDING, false).

(* ---- try_skip_job from _compute_out_step_hash to the end ---- *)
Definition out_ingredients (x : xworld) : list (N * N) :=
  canon (map (fun o => (o, disk (xb x) o)) (x_outs x)).

(* Executor._inputs_overtaken(step, inp_hashes), evaluated in the transaction that records the skip:
   the number of input records of the (attached) step differs from the number of hashes the job was
   created with, or the generated per-record test fires. *)
Definition overtaken (w : world) (k : chk) : bool :=
  negb (N.of_nat (length (attached_inputs w)) =? N.of_nat (length (k_snap k)))
  || existsb (fun f => overtaken_record_gen (f_state (files w f))
                         (match sm_get f (k_snap k) with Some h => h =? f_hash (files w f) | None => false end))
             (attached_inputs w).

(* `recheck` = whether try_skip_job performs that test (generated: skip_rechecks_inputs);
   do_xchk_gen false is the code without it (finding D37), kept to name the defect / regression. *)
Definition do_xchk_gen (recheck : bool) (x : xworld) (t : N) (cancel : bool) : xworld * xres :=
  match x_chk x with
  | None => (x, XRNone)
  | Some k =>
      let w := xb x in
      let out := out_ingredients x in
      let ie := inp_equal (k_old k) (k_env k) (k_inp k) in
      let oe := pairs_eqb (sh_out (k_old k)) out in
      let ov := recheck && overtaken w k in
      let '(finalized, reset, _, completed, skip_reported, repended, rst, rdf) :=
          try_skip_phase2_gen (negb cancel) ie oe ov in
      if finalized then
        (mkX (finalize_failed w t) None (x_outs x) (x_envc x) None, XRChk skip_reported)
      else if reset then (apply_reset x w, XRChk skip_reported)
      else if repended then
        (* an input record was overtaken: set_state(PENDING), the hash is kept, checked again later *)
        (mkX (set_crow w rst rdf (c_dc w)) (x_hash x) (x_outs x) (x_envc x) None, XRChk skip_reported)
      else if completed then
        (* mark_completed(new_hash, False); no record_run_stopped *)
        let '(st, df, _, dc, hstored, _, _, _) :=
            mark_completed_gen true false (c_dc w) (cap w) false (c_state w) in
        let dc := if st =? trigger_reset_defer_count_state then 0 else dc in
        let w := set_crow w st df dc in
        (mkX w (if hstored then Some (mkSH (k_env k) (k_inp k) out) else None) (x_outs x) (x_envc x) None,
         XRChk skip_reported)
      else (set_xchk x None, XRChk skip_reported)
  end.

Definition do_xchk := do_xchk_gen skip_rechecks_inputs.

(* ---- the command returned ---- *)
Definition outs_present (x : xworld) : bool :=
  forallb (fun o => negb (disk (xb x) o =? 0)) (x_outs x).

Definition inp_ingredients (w : world) : list (N * N) :=
  canon (map (fun f => (f, disk w f)) (considered w)).

(* `cancel`: _compute_full_step_hash returned (None, {}, {}): no input is seen as changed and
   run.success is False *)
Definition do_xend (x : xworld) (t : N) (rc_ok cancel : bool) : xworld * xres :=
  let w := xb x in
  match c_run w with
  | None => (x, XRNone)
  | Some _ =>
      let w' := if cancel then fst (do_end_core exec_flags_inputs_not_final w t false [])
                else fst (do_end w t (rc_ok && outs_present x)) in
      let new := mkSH (x_envc x) (inp_ingredients w) (out_ingredients x) in
      (* mark_completed: set_hash(new_hash) exactly when the step becomes SUCCEEDED, else delete_hash
         (proofs/FreshSkipProofs.v mark_completed_hash_iff) *)
      (set_xhash (set_xb x w') (if c_state w' =? SS_SUCCEEDED then Some new else None), XREnd)
  end.

(* ------------------------------ events ------------------------------ *)
Inductive xev :=
| XE (e : ev)                        (* an event of model/Fresh.v other than ETry / EEnd *)
| XEnvC (n : N)                      (* the non-file ingredients changed (observed) *)
| XHashDel                           (* another actor deleted the stored hash (after_lost_product, nglob) *)
| XTry (t : N) (cancel : bool)
| XChk (t : N) (cancel : bool)
| XEnd (t : N) (rc_ok cancel : bool).

Definition env_ev (e : ev) : bool := match e with ETry _ | EEnd _ _ => false | _ => true end.

Definition xstep (x : xworld) (e : xev) : xworld * xres :=
  match e with
  | XE e => if env_ev e then let '(w, r) := step (xb x) e in (set_xb x w, XRBase r) else (x, XRNone)
  | XEnvC n => (set_xenv x n, XRNone)
  | XHashDel => (set_xhash x None, XRNone)
  | XTry t c => do_xtry x t c
  | XChk t c => do_xchk x t c
  | XEnd t ok c => do_xend x t ok c
  end.

Definition xrun (evs : list xev) (x : xworld) : xworld := fold_left (fun x e => fst (xstep x e)) evs x.

Definition xworld0 (cid : N) (init outs : list N) (capv : N) (kg : bool) (envc : N) : xworld :=
  mkX (world0 cid init capv kg) None outs envc None.

(* ------------------------------ correspondence ------------------------------ *)
Record xobs := mkXObs {
  xo_base : cobs;
  xo_has_hash : bool;
  xo_hash : option shash      (* the ingredients of the stored hash when it is an explained one *)
}.

Definition xres_eqb (a b : xres) : bool :=
  match a, b with
  | XRNone, XRNone => true
  | XRBase r1, XRBase r2 => result_eqb r1 r2
  | XRTry k1 s1, XRTry k2 s2 => (k1 =? k2) && Bool.eqb s1 s2
  | XRChk s1, XRChk s2 => Bool.eqb s1 s2
  | XREnd, XREnd => true
  | _, _ => false
  end.

Definition xobs_ok (keys : list N) (x : xworld) (o : xobs) : bool :=
  obs_ok keys (xb x) (xo_base o) && Bool.eqb (has_hash x) (xo_has_hash o)
  && match xo_hash o, x_hash x with
     | Some a, Some b => shash_eqb a b
     | Some _, None => false
     | None, _ => true
     end.

Fixpoint xcheck_trace (keys : list N) (x : xworld) (tr : list (xev * option (xres * xobs))) : bool :=
  match tr with
  | [] => true
  | (e, o) :: rest =>
      let '(x', r) := xstep x e in
      match o with
      | None => xcheck_trace keys x' rest
      | Some (r0, ob) => xres_eqb r r0 && xobs_ok keys x' ob && xcheck_trace keys x' rest
      end
  end.

Fixpoint xfirst_bad (keys : list N) (x : xworld) (tr : list (xev * option (xres * xobs))) (i : N) : option N :=
  match tr with
  | [] => None
  | (e, o) :: rest =>
      let '(x', r) := xstep x e in
      match o with
      | None => xfirst_bad keys x' rest (i + 1)
      | Some (r0, ob) => if xres_eqb r r0 && xobs_ok keys x' ob then xfirst_bad keys x' rest (i + 1) else Some i
      end
  end.
