(* C04, second sentence, about EXECUTED steps (not merely checked and skipped), on the abstract
   engine model/Engine.v (owner: C01; tied to the real director by C01's correspondence, which
   compares per build WHICH steps ran and which were skipped, harness/c01_engine.py).
   Definitions only; proofs in proofs/NoopExecProofs.v.

   In that model a stored step hash is a trace (input ingredients, variable ingredients, output
   ingredients); a PENDING step that is dispatchable is skipped iff the recomputed ingredients equal
   the recorded ones (Executor.try_skip_job), otherwise its command is executed; [build_log] lists
   per build the dispatched steps with ran? = true / skipped = false.

   [exec_cause]: the reasons the rebuild may have to EXECUTE the command of a step.  The last
   clause demands that the consumed output has ANOTHER CONTENT after the rebuild than before it:
   an output that an executed producer reproduced identically justifies nothing (the cone stops
   there; the consumers are checked and skipped). *)
From Coq Require Import List NArith Bool.
From SV Require Import model.Engine.
Import ListNotations.
Open Scope N_scope.

Section ExecCone.
  Variable run : N -> list (option N) -> list (option N) -> N -> N.

  (* the command of step [id] was executed by the build that starts in [y1] *)
  Definition ran (proj : project) (y1 : sys) (id : N) : Prop :=
    In (id, true) (build_log run proj proj y1).
  Definition skipped (proj : project) (y1 : sys) (id : N) : Prop :=
    In (id, false) (build_log run proj proj y1).

  (* y: the state the previous build left; y1: the state at the start of the rebuild (after the
     rescan / the watcher's changes and the pending propagation); z: the state after the rebuild *)
  Definition exec_cause (proj : project) (y y1 z : sys) (s : step) : Prop :=
    (* the step was not up to date before (never built, blocked, failed: PENDING) *)
    stt y (sid s) = Pending
    (* it consumes an edited source file (changed, deleted, created; also a file whose static
       declaration was dropped or added, and a former output that is a source now) *)
    \/ (exists p, In p (inp s) /\ is_output proj p = false /\ fs y1 p <> fs y p)
    (* it tracks an environment variable whose value changed *)
    \/ (exists n, In n (envn s) /\ ev y1 n <> ev y n)
    (* it consumes an output of ANOTHER EXECUTED step, and the content of that output differs
       from what it was before the rebuild *)
    \/ (exists p q, In p (inp s) /\ In q proj /\ In p (out q) /\ sid q <> sid s /\
                    ran proj y1 (sid q) /\ fs z p <> fs y p).

  (* Restart flavour, fixed plan: the director starts on a changed world (any set of sources and
     variables changed at once). *)
  Definition C04_exec_cone_restart : Prop :=
    forall (proj : project) (y : sys) (w : world) (s : step),
      wf proj = true -> Pre run proj y -> In s proj ->
      ran proj (resync proj y w) (sid s) ->
      exec_cause proj y (resync proj y w) (build_world run proj w y) s.

  (* Watch flavour: a list of edits (sources, variables) arrives one by one, each with its own
     pending propagation, then the rebuild. *)
  Definition C04_exec_cone_watch : Prop :=
    forall (proj : project) (y : sys) (es : list (edit)) (s : step),
      wf proj = true -> Pre run proj y -> In s proj ->
      ran proj (fold_left (apply_edit proj) es y) (sid s) ->
      exec_cause proj y (fold_left (apply_edit proj) es y) (phase run proj y es) s.

  (* Re-planning (an edited plan script, a new or lost glob match: the plan step is executed and now
     defines P' instead of P; kept = fully recycled, also the steps of recycled nested sub-plans):
     an executed step was declared anew or redefined by the rerun plan, or has a cause as above. *)
  Definition C04_exec_cone_replan : Prop :=
    forall (P P' : project) (y : sys) (w : world) (s : step),
      wf P' = true -> Pre run P y -> In s P' ->
      ran P' (resync P' (retarget P P' y) w) (sid s) ->
      kept P P' (sid s) = false \/
      exec_cause P' y (resync P' (retarget P P' y) w) (rebuild_dyn run P y P' w) s.

  (* ... for ALL histories: any sequence of (plan, world) pairs from an empty .stepup, then one
     more rebuild *)
  Definition C04_exec_cone_histories : Prop :=
    forall (hist : list (project * world)) (P' : project) (w : world) (s : step),
      (forall pw, In pw hist -> wf (fst pw) = true) -> wf P' = true -> In s P' ->
      let P := fst (run_dyn run hist) in
      let y := snd (run_dyn run hist) in
      ran P' (resync P' (retarget P P' y) w) (sid s) ->
      kept P P' (sid s) = false \/
      exec_cause P' y (resync P' (retarget P P' y) w) (rebuild_dyn run P y P' w) s.

  (* ALL SCHEDULES of the rebuild: the steps get their turns in the order of the list [sched] --
     any order, any repetitions (a step that is not ready at its turn gets another one later), any
     subset of the steps of the project.  The pending propagation of the rescan is the one of the
     project; only the order of the dispatch decisions is free. *)
  Definition ran_s (proj sched : project) (y1 : sys) (id : N) : Prop :=
    In (id, true) (build_log run proj sched y1).
  Definition exec_cause_s (proj sched : project) (y y1 z : sys) (s : step) : Prop :=
    stt y (sid s) = Pending
    \/ (exists p, In p (inp s) /\ is_output proj p = false /\ fs y1 p <> fs y p)
    \/ (exists n, In n (envn s) /\ ev y1 n <> ev y n)
    \/ (exists p q, In p (inp s) /\ In q proj /\ In p (out q) /\ sid q <> sid s /\
                    ran_s proj sched y1 (sid q) /\ fs z p <> fs y p).
  Definition C04_exec_cone_schedules : Prop :=
    forall (P P' sched : project) (y : sys) (w : world) (s : step),
      wf P' = true -> Pre run P y -> In s P' -> (forall q, In q sched -> In q P') ->
      let y1 := resync P' (retarget P P' y) w in
      ran_s P' sched y1 (sid s) ->
      kept P P' (sid s) = false \/ exec_cause_s P' sched y y1 (build_from run P' sched y1) s.

  (* OPTIONAL steps (Need.OPTIONAL; scheduler._implied_need): [mand id] = the declared need of the step is above
     OPTIONAL.  A step is REQUIRED when it is mandatory or when a required step later in the (topological) plan
     consumes one of its outputs; only required steps are dispatched.  (The revert of optional steps that are no
     longer required by finalize is not part of this model: such a step stays as it was.) *)
  Definition consumes_output_of (c s : step) : bool := existsb (fun p => memN p (inp c)) (out s).
  Fixpoint required_ids (mand : N -> bool) (proj : project) : list N :=
    match proj with
    | [] => []
    | s :: rest =>
      let r := required_ids mand rest in
      if mand (sid s) || existsb (fun c => memN (sid c) r && consumes_output_of c s) rest then sid s :: r else r
    end.
  Definition is_required (mand : N -> bool) (proj : project) (s : step) : bool :=
    memN (sid s) (required_ids mand proj).
  Definition step_build_opt (mand : N -> bool) (proj : project) (s : step) (y : sys) : sys :=
    if is_required mand proj s then step_build run proj s y else y.
  Definition build_opt (mand : N -> bool) (proj : project) (y : sys) : sys :=
    fold_left (fun y s => step_build_opt mand proj s y) proj y.
  Definition ran_opt (mand : N -> bool) (proj : project) (y1 : sys) (id : N) : Prop :=
    ran_s proj (filter (is_required mand proj) proj) y1 id.
  (* every EXECUTED step is required - mandatory, or an output of it is consumed by a required step (an optional
     step that became needed: the clause the property text lacks, D38) - and has a cause as before *)
  Definition C04_exec_cone_optional : Prop :=
    forall (mand : N -> bool) (P P' : project) (y : sys) (w : world) (s : step),
      wf P' = true -> Pre run P y -> In s P' ->
      let y1 := resync P' (retarget P P' y) w in
      build_opt mand P' y1 = build_from run P' (filter (is_required mand P') P') y1 /\
      (ran_opt mand P' y1 (sid s) ->
       (mand (sid s) = true \/
        exists c, In c P' /\ is_required mand P' c = true /\ consumes_output_of c s = true) /\
       (kept P P' (sid s) = false \/
        exec_cause_s P' (filter (is_required mand P') P') y y1 (build_opt mand P' y1) s)).

  (* The cone stops at an output that is rebuilt with identical content: a recycled step that was
     up to date, consumes no edited source, tracks no changed variable, and all of whose built
     inputs have the same content after the rebuild as before it, is NOT executed. *)
  Definition C04_absorbed_cone_stops : Prop :=
    forall (P P' : project) (y : sys) (w : world) (s : step),
      wf P' = true -> Pre run P y -> In s P' ->
      kept P P' (sid s) = true -> stt y (sid s) = Succeeded ->
      (forall p, In p (inp s) -> is_output P' p = false -> fst w p = fs y p) ->
      (forall n, In n (envn s) -> snd w n = ev y n) ->
      (forall p, In p (inp s) -> is_output P' p = true -> fs (rebuild_dyn run P y P' w) p = fs y p) ->
      ~ ran P' (resync P' (retarget P P' y) w) (sid s).
End ExecCone.

(* Amended (dynamic) inputs, deferral, failing steps: the engine [a_build] of model/Engine.v with the
   code's gating.  [remb]/[adyn]: the amended inputs the step remembered from its previous run take
   part in the check like declared ones.  (step, true) in [a_build_log] = the command was executed
   (also when it then deferred or failed). *)
Section ExecConeAmend.
  Variable run : N -> list (option N) -> list (option N) -> N -> N.
  Variable amend : N -> list (option N) -> list N.
  Variable fails : N -> list (option N) -> list (option N) -> bool.

  Definition a_build_from (proj todo : project) (y : asys) : asys :=
    fold_left (fun y s => a_step_build run amend fails true proj s y) todo y.
  Definition a_ran (proj : project) (y1 : asys) (id : N) : Prop :=
    In (id, true) (a_build_log run amend fails true proj proj y1).

  Definition exec_cause_a (proj : project) (y y1 z : asys) (s : step) : Prop :=
    stt (abase y) (sid s) = Pending
    \/ (exists p, In p (inp s ++ adyn y (sid s)) /\ is_output proj p = false /\
                  fs (abase y1) p <> fs (abase y) p)
    \/ (exists n, In n (envn s) /\ ev (abase y1) n <> ev (abase y) n)
    \/ (exists p q, In p (inp s ++ adyn y (sid s)) /\ In q proj /\ In p (out q) /\ sid q <> sid s /\
                    a_ran proj y1 (sid q) /\ fs (abase z) p <> fs (abase y) p)
    (* a remembered amended input is not available when the step gets its turn (its producer is
       blocked, failed or no longer there): the check cannot pass, the command runs to find out what
       it needs now (validate_dynamic_job -> _reset_step_to_pending) *)
    \/ (exists p d r, In p (adyn y (sid s)) /\ proj = d ++ s :: r /\
                      avail proj (abase (a_build_from proj d y1)) p = None).

  (* the states between builds: a SUCCEEDED step has a recorded trace that matches the present
     contents of its declared ++ remembered amended inputs, its variables and its outputs (clause
     ia_K of the invariant InvA of proofs/EngineAmendFull.v) *)
  Definition K_a (proj : project) (y : asys) : Prop :=
    forall q, In q proj -> K_step (abase y) (remb y q).

  Definition C04_exec_cone_amend : Prop :=
    forall (proj : project) (y : asys) (w : world) (s : step),
      NoDup (map sid proj) -> NoDup (outs proj) -> In s proj -> K_a proj y ->
      a_ran proj (resync_a proj y w) (sid s) ->
      exec_cause_a proj y (resync_a proj y w) (build_world_a run amend fails true proj w y) s.

  (* for ALL histories of worlds from an empty .stepup (the hypothesis K_a discharged: a decision of
     the gated engine is nothing or the decision of the ungated one, for which C01 proves the
     invariant InvA, proofs/EngineAmendFull.v) *)
  Definition C04_exec_cone_amend_full : Prop :=
    forall (proj : project) (ws : list world) (w : world) (s : step),
      wf_a amend proj -> In s proj ->
      let y := fold_left (fun y x => build_world_a run amend fails true proj x y) ws empty_asys in
      a_ran proj (resync_a proj y w) (sid s) ->
      exec_cause_a proj y (resync_a proj y w) (build_world_a run amend fails true proj w y) s.
End ExecConeAmend.

(* ------------------------------------------------------------------------------------------ *)
(* Correspondence checker for the cone rebuilds of C04 (harness/c04_e3.py, engine_term)         *)
(* ------------------------------------------------------------------------------------------ *)
(* the commands of the E3 projects: an absorber writes a constant whatever it reads, every other
   step writes a value that depends on everything it read (mix_run) *)
Definition absorb_run (consts : list N) (id : N) (ins envs : list (option N)) (p : N) : N :=
  if memN id consts then 7 + p else mix_run id ins envs p.

(* one observed build of the restart flavour: sources, environment, the steps the real director
   EXECUTED, the steps it checked and skipped, and for every output whether its content differs
   from the one before the build *)
Definition cone_phase := (list (N * N) * list (N * N) * list N * list N * list (N * bool))%type.
Definition set_eqb (a b : list N) : bool :=
  forallb (fun x => memN x b) a && forallb (fun x => memN x a) b.

(* the model executes exactly the observed steps, checks and skips only steps that were observed
   to be checked and skipped, and changes exactly the outputs that changed *)
Fixpoint check_cone_hist (run : N -> list (option N) -> list (option N) -> N -> N)
         (proj : project) (y : sys) (phases : list cone_phase) : bool :=
  match phases with
  | [] => true
  | (src, env, eran, eskip, echg) :: rest =>
    let y1 := resync proj y (src_of src, src_of env) in
    let y2 := build run proj y1 in
    let log := build_log run proj proj y1 in
    set_eqb (map fst (filter snd log)) eran &&
    forallb (fun x => memN x eskip) (map fst (filter (fun x => negb (snd x)) log)) &&
    forallb (fun x => Bool.eqb (negb (oN_eqb (fs y2 (fst x)) (fs y (fst x)))) (snd x)) echg &&
    check_cone_hist run proj y2 rest
  end.
(* diagnostics: what the model did per build (log, which of the listed outputs changed) *)
Fixpoint trace_cone_hist (run : N -> list (option N) -> list (option N) -> N -> N)
         (proj : project) (y : sys) (phases : list cone_phase) : list (list (N * bool) * list (N * bool)) :=
  match phases with
  | [] => []
  | (src, env, _, _, echg) :: rest =>
    let y1 := resync proj y (src_of src, src_of env) in
    let y2 := build run proj y1 in
    (build_log run proj proj y1,
     map (fun x => (fst x, negb (oN_eqb (fs y2 (fst x)) (fs y (fst x))))) echg)
      :: trace_cone_hist run proj y2 rest
  end.

(* the same when the plan changes between the builds (a rerun plan defines P' instead of P:
   [retarget]): one project per observed build *)
Fixpoint check_cone_dyn (run : N -> list (option N) -> list (option N) -> N -> N)
         (P : project) (y : sys) (phases : list (project * cone_phase)) : bool :=
  match phases with
  | [] => true
  | (P', (src, env, eran, eskip, echg)) :: rest =>
    let y1 := resync P' (retarget P P' y) (src_of src, src_of env) in
    let y2 := build run P' y1 in
    let log := build_log run P' P' y1 in
    wf P' &&
    set_eqb (map fst (filter snd log)) eran &&
    forallb (fun x => memN x eskip) (map fst (filter (fun x => negb (snd x)) log)) &&
    forallb (fun x => Bool.eqb (negb (oN_eqb (fs y2 (fst x)) (fs y (fst x)))) (snd x)) echg &&
    check_cone_dyn run P' y2 rest
  end.
Fixpoint trace_cone_dyn (run : N -> list (option N) -> list (option N) -> N -> N)
         (P : project) (y : sys) (phases : list (project * cone_phase))
  : list (list (N * bool) * list (N * bool)) :=
  match phases with
  | [] => []
  | (P', (src, env, _, _, echg)) :: rest =>
    let y1 := resync P' (retarget P P' y) (src_of src, src_of env) in
    let y2 := build run P' y1 in
    (build_log run P' P' y1,
     map (fun x => (fst x, negb (oN_eqb (fs y2 (fst x)) (fs y (fst x))))) echg)
      :: trace_cone_dyn run P' y2 rest
  end.

(* fixed plan with amended inputs: the gated engine [a_build] (the code); [tab]: which paths a
   script step amends, by the content of its script (Engine.amend_tab); commands do not fail *)
Fixpoint check_cone_amend (run : N -> list (option N) -> list (option N) -> N -> N)
         (tab : list (N * N * list N)) (proj : project) (y : asys) (phases : list cone_phase) : bool :=
  match phases with
  | [] => true
  | (src, env, eran, eskip, echg) :: rest =>
    let y1 := resync_a proj y (src_of src, src_of env) in
    let y2 := a_build run (amend_tab tab) no_fail true proj y1 in
    let log := a_build_log run (amend_tab tab) no_fail true proj proj y1 in
    set_eqb (map fst (filter snd log)) eran &&
    forallb (fun x => memN x eskip) (map fst (filter (fun x => negb (snd x)) log)) &&
    forallb (fun x => Bool.eqb (negb (oN_eqb (fs (abase y2) (fst x)) (fs (abase y) (fst x)))) (snd x)) echg &&
    check_cone_amend run tab proj y2 rest
  end.
Fixpoint trace_cone_amend (run : N -> list (option N) -> list (option N) -> N -> N)
         (tab : list (N * N * list N)) (proj : project) (y : asys) (phases : list cone_phase)
  : list (list (N * bool) * list (N * bool)) :=
  match phases with
  | [] => []
  | (src, env, _, _, echg) :: rest =>
    let y1 := resync_a proj y (src_of src, src_of env) in
    let y2 := a_build run (amend_tab tab) no_fail true proj y1 in
    (a_build_log run (amend_tab tab) no_fail true proj proj y1,
     map (fun x => (fst x, negb (oN_eqb (fs (abase y2) (fst x)) (fs (abase y) (fst x))))) echg)
      :: trace_cone_amend run tab proj y2 rest
  end.

(* with OPTIONAL steps: [mand] lists the ids whose declared need is above OPTIONAL; only required steps get a turn *)
Fixpoint check_cone_dyn_opt (run : N -> list (option N) -> list (option N) -> N -> N) (mand : list N)
         (P : project) (y : sys) (phases : list (project * cone_phase)) : bool :=
  match phases with
  | [] => true
  | (P', (src, env, eran, eskip, echg)) :: rest =>
    let y1 := resync P' (retarget P P' y) (src_of src, src_of env) in
    let sched := filter (is_required (fun id => memN id mand) P') P' in
    let y2 := build_from run P' sched y1 in
    let log := build_log run P' sched y1 in
    wf P' &&
    set_eqb (map fst (filter snd log)) eran &&
    forallb (fun x => memN x eskip) (map fst (filter (fun x => negb (snd x)) log)) &&
    forallb (fun x => Bool.eqb (negb (oN_eqb (fs y2 (fst x)) (fs y (fst x)))) (snd x)) echg &&
    check_cone_dyn_opt run mand P' y2 rest
  end.
Fixpoint trace_cone_dyn_opt (run : N -> list (option N) -> list (option N) -> N -> N) (mand : list N)
         (P : project) (y : sys) (phases : list (project * cone_phase))
  : list (list (N * bool) * list (N * bool)) :=
  match phases with
  | [] => []
  | (P', (src, env, _, _, echg)) :: rest =>
    let y1 := resync P' (retarget P P' y) (src_of src, src_of env) in
    let sched := filter (is_required (fun id => memN id mand) P') P' in
    let y2 := build_from run P' sched y1 in
    (build_log run P' sched y1,
     map (fun x => (fst x, negb (oN_eqb (fs y2 (fst x)) (fs y (fst x))))) echg)
      :: trace_cone_dyn_opt run mand P' y2 rest
  end.
