(* C17: the vocabulary of the TRANSLATED code (gen/GenNglobCode.v, regenerated from
   /repo/stepup/core/nglob.py by translator/gen_nglob_code.py on every run).  Definitions only.

   The translator walks the Python AST statement by statement and emits Gallina that uses only
   the primitives below, one per Python builtin operation that occurs in the translated functions
   (dict.get / dict.setdefault / del d[k] / set.add / set.discard / set.update / list.append /
   x[-1] / x[-1] = y / str comparison / re.split alternation).  What each primitive means is the
   trusted reading of the Python builtin; that the COMPOSITION the code makes of them equals the
   hand-written model (model/Nglob.v) is proved for all inputs in proofs/NglobCodeTie.v. *)
From Coq Require Import List NArith Bool Arith.
From SV Require Import lib.Bytes.
From SV Require Import lib.Regex.
From SV Require Import model.Nglob.
Import ListNotations.
Open Scope N_scope.

Section PyDict.
  Variable K : Type.
  Variable keqb : K -> K -> bool.

  (* d.get(k) *)
  Definition d_get (k : K) (r : results K) : option (list str) := r_get keqb k r.

  (* d.setdefault(k, set()): the dictionary afterwards (a new key goes to the end: insertion order) *)
  Fixpoint d_setdefault (k : K) (r : results K) : results K :=
    match r with
    | [] => [(k, [])]
    | (k', ps) :: r' => if keqb k k' then r else (k', ps) :: d_setdefault k r'
    end.

  (* the set stored under an existing key is mutated in place: d[k] now holds ps *)
  Fixpoint d_store (k : K) (ps : list str) (r : results K) : results K :=
    match r with
    | [] => []
    | (k', qs) :: r' => if keqb k k' then (k', ps) :: r' else (k', qs) :: d_store k ps r'
    end.

  (* del d[k] *)
  Fixpoint d_del (k : K) (r : results K) : results K :=
    match r with
    | [] => []
    | (k', qs) :: r' => if keqb k k' then r' else (k', qs) :: d_del k r'
    end.

  (* d.values() *)
  Definition d_values (r : results K) : list (list str) := map snd r.
End PyDict.

Arguments d_get {K}.
Arguments d_setdefault {K}.
Arguments d_store {K}.
Arguments d_del {K}.
Arguments d_values {K}.

(* s.add(x) / s.discard(x) / s.update(t) on sets kept as duplicate-free lists *)
Definition s_add (p : str) (ps : list str) : list str := set_add p ps.
Definition s_discard (p : str) (ps : list str) : list str := set_discard p ps.
Definition s_update (a b : list str) : list str := fold_left (fun acc p => s_add p acc) b a.

Definition opt_default {A} (o : option A) (d : A) : A := match o with Some x => x | None => d end.

(* ---- strings of the pattern language ---- *)

(* comparisons of a fragment with string constants go through its text *)
Definition t_eq (t : tok) (c : str) : bool := str_eqb (tok_text t) c.
Definition t_in (t : tok) (cs : list str) : bool := mem_str (tok_text t) cs.
Definition t_startswith (t : tok) (c : str) : bool := is_prefix c (tok_text t).
Definition t_endswith (t : tok) (c : str) : bool := is_prefix (rev c) (rev (tok_text t)).
Definition t_len (t : tok) : nat := length (tok_text t).
(* part[a:-b] *)
Definition t_slice (t : tok) (a b : nat) : str :=
  let s := tok_text t in firstn (length s - a - b) (skipn a s).

(* a fragment that is the `last` one seen, None before the first *)
Definition ot_in (o : option tok) (cs : list str) : bool :=
  match o with Some t => t_in t cs | None => false end.
Definition ot_eq (o : option tok) (c : str) : bool :=
  match o with Some t => t_eq t c | None => false end.

(* lists used as stacks: texts[-1], texts[-1] = x, texts.append(x); kept reversed (head = last) *)
Definition l_last {A} (l : list A) : option A := match l with x :: _ => Some x | [] => None end.
Definition l_set_last {A} (x : A) (l : list A) : list A := match l with _ :: r => x :: r | [] => [] end.
Definition l_append {A} (x : A) (l : list A) : list A := x :: l.

(* subs.get(name, default) *)
Definition subs_get_default (n : str) (subs : subs_t) (d : str) : str :=
  match subs_get n subs with Some v => v | None => d end.

(* loops whose body may raise: the first error ends the loop *)
Fixpoint fold_cres {A S : Type} (f : S -> A -> cres S) (l : list A) (s : S) : cres S :=
  match l with
  | [] => COk s
  | x :: r => match f s x with CErr e => CErr e | COk s' => fold_cres f r s' end
  end.

(* RE_ANY_WILD.split(pattern) with what the code uses of enumerate's index: (i % 2 == 1, fragment).
   Fragments at odd positions are the wildcards, at even positions the texts in between, which
   are empty between neighbouring wildcards and at either end of the pattern. *)
Fixpoint py_frags (ts : list tok) (after_lit : bool) : list (bool * tok) :=
  match ts with
  | [] => if after_lit then [] else [(false, TLit [])]
  | TLit s :: r => (false, TLit s) :: py_frags r true
  | w :: r => (if after_lit then [] else [(false, TLit [])]) ++ (true, w) :: py_frags r false
  end.

Definition py_split_enum (p : str) : list (bool * tok) := py_frags (tokenize p) false.
Definition py_split_plain (p : str) : list tok := map snd (py_split_enum p).
