(* C02: the dispatch side of schedule independence.  Definitions only; proofs are in
   proofs/CommuteSched.v.

   model/Commute.v treats scheduling nondeterminism as the commit order of transactions.  This file
   adds who decides that order: an abstract scheduler with a number of job slots, a resource
   capacity, an arbitrary eligibility test on the set of finished steps, and arbitrary durations
   (which running step commits its next transaction, or finishes, is a free choice at every point).
   A step is a job: its key, the sequence of transactions it issues (in its own program order), and
   its resource demand.  What a job requests does not depend on the replies (static behaviour). *)
From Coq Require Import List NArith Bool.
From SV Require Import lib.Bytes model.Graph model.Commute.
Import ListNotations.
Open Scope N_scope.

(* ---- projections: the requests of one issuer, in trace order -------------------------------- *)
Definition issued_by (c : key) (o : op) : bool :=
  match issuer o with Some x => key_eqb x c | None => false end.
Definition proj (c : key) (l : list op) : list op := filter (issued_by c) l.

(* two interleavings of the same per-step request sequences: every transaction has an issuer, and
   each issuer's own order is the same in both *)
Definition all_issued (l : list op) : Prop := Forall (fun o => issuer o <> None) l.
Definition same_projections (l1 l2 : list op) : Prop := forall c, proj c l1 = proj c l2.

(* ---- jobs and configurations --------------------------------------------------------------- *)
Record job := mkJob { jkey : key; jscript : list op; jres : N }.
Inductive jstatus := JWaiting | JRunning (rest : list op) | JDone.
Definition slot := (job * jstatus)%type.
Definition cfg := list slot.

Definition init_cfg (jobs : list job) : cfg := map (fun j => (j, JWaiting)) jobs.
Definition is_running (x : slot) : bool := match snd x with JRunning _ => true | _ => false end.
Definition is_done (x : slot) : bool := match snd x with JDone => true | _ => false end.
Definition n_running (c : cfg) : nat := length (filter is_running c).
Definition used (c : cfg) : N := fold_right (fun x acc => jres (fst x) + acc) 0 (filter is_running c).
Definition finished (c : cfg) : list key := map (fun x => jkey (fst x)) (filter is_done c).
Definition complete (c : cfg) : Prop := Forall (fun x => snd x = JDone) c.

(* what a job still has to commit *)
Definition remaining (x : slot) : list op :=
  match snd x with JWaiting => jscript (fst x) | JRunning rest => rest | JDone => [] end.
Definition pend (c : key) (g : cfg) : list op :=
  flat_map (fun x => if key_eqb (jkey (fst x)) c then remaining x else []) g.

(* every transaction of a job is issued by the job's own step *)
Definition wf_job (j : job) : Prop := Forall (fun o => issuer o = Some (jkey j)) (jscript j).
Definition wf_jobs (jobs : list job) : Prop := Forall wf_job jobs /\ NoDup (map jkey jobs).

(* ---- the scheduler -------------------------------------------------------------------------- *)
Section Scheduler.
  Variable J : nat.                             (* --jobs *)
  Variable cap : N.                             (* capacity of the resource pool *)
  Variable elig : key -> list key -> bool.      (* may this step be dispatched, given what finished *)

  (* one scheduler move; Some o = the transaction o commits *)
  Inductive smove : cfg -> option op -> cfg -> Prop :=
  | sm_start : forall g1 j g2,
      (n_running (g1 ++ (j, JWaiting) :: g2) < J)%nat ->
      used (g1 ++ (j, JWaiting) :: g2) + jres j <= cap ->
      elig (jkey j) (finished (g1 ++ (j, JWaiting) :: g2)) = true ->
      smove (g1 ++ (j, JWaiting) :: g2) None (g1 ++ (j, JRunning (jscript j)) :: g2)
  | sm_commit : forall g1 j o rest g2,
      smove (g1 ++ (j, JRunning (o :: rest)) :: g2) (Some o) (g1 ++ (j, JRunning rest) :: g2)
  | sm_finish : forall g1 j g2,
      smove (g1 ++ (j, JRunning []) :: g2) None (g1 ++ (j, JDone) :: g2).

  Inductive sruns : cfg -> list op -> cfg -> Prop :=
  | sr_nil : forall g, sruns g [] g
  | sr_silent : forall g g1 tr g2, smove g None g1 -> sruns g1 tr g2 -> sruns g tr g2
  | sr_commit : forall g o g1 tr g2, smove g (Some o) g1 -> sruns g1 tr g2 -> sruns g (o :: tr) g2.

  (* a build: from "everything waiting" to "everything done"; tr = the order of commits *)
  Definition build_trace (jobs : list job) (tr : list op) : Prop :=
    exists g, sruns (init_cfg jobs) tr g /\ complete g.
End Scheduler.

(* the reference schedule: one job slot, jobs in list order, each job's transactions en bloc *)
Definition sequential_trace (jobs : list job) : list op := flat_map jscript jobs.
