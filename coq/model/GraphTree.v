(* Static trees: extension of model/Graph.v.  The bodies of Graph.v are untouched; this file adds
   Workflow.register_static_tree, the tree-aware variants of the declaration functions
   (_find_owning_static_tree in _declare_file / declare_static_files / _resolve_supply_file), the
   pre-step of Workflow.delete_detached, and the operation alphabet op_t = op + OpRegisterTree.
   On a state without tree nodes step_op_t coincides with step_op (proofs/GraphTreeSim.v).
   Definitions only.  Tree labels end with '/' (the code appends it; the generator supplies it);
   the wildcard / .stepup / project-root rejections of register_static_tree are outside the model. *)
From Coq Require Import List NArith Bool.
From SV Require Import lib.Bytes lib.Closure model.Graph model.GraphDump.
Import ListNotations.
Open Scope N_scope.

(* _find_owning_static_tree: attached trees whose label is a prefix of the path *)
Definition owning_trees (p : str) (s : st) : list str :=
  map (fun n => snd (nk n))
      (filter (fun n => kind_eqb (fst (nk n)) KTree && negb (ndet n) && is_prefix (snd (nk n)) p) (nodes s)).
Definition find_owning_tree (p : str) (s : st) : res (option str) :=
  match owning_trees p s with
  | [] => Ok None
  | [t] => Ok (Some t)
  | _ => Usage 213                                  (* Multiple static trees match *)
  end.

(* _declare_file: a creator that is not a tree cannot declare a path inside an attached tree *)
Definition tree_guard (c : key) (l : str) (s : st) : res unit :=
  if kind_eqb (fst c) KTree then Ok tt
  else do ot <- find_owning_tree l s;
       match ot with None => Ok tt | Some _ => Usage 214 end.

Definition declare_file_t (c : key) (l : str) (f : fstate) (s : st) : res st :=
  match f with
  | FUnconfirmed | FPlanned | FVolatile => do _ <- tree_guard c l s; declare_file c l f s
  | _ => Internal 116
  end.

(* _check_declaration for a STATIC declaration: a claim held by a tree that is not the declarer is
   "Static declaration not handed to its tree" (ConsistencyError); a colliding declaration whose
   declarer is itself a tree fails earlier, in Decl.from_node ("Cannot phrase a creator of kind st",
   ConsistencyError).  Both need an attached foreign claim under an attached tree (T3 violated). *)
Definition check_declaration_node_t (c : key) (l : str) (role : N) (s : st) : res bool :=
  do cl <- existing_claim l s;
  match cl with
  | None => Ok true
  | Some (ro, cr) =>
    if (ro =? role) && key_eqb cr c then Ok false
    else if kind_eqb (fst c) KTree then Internal 128       (* Decl.from_node: _creator_phrase has no phrase for a tree *)
    else if kind_eqb (fst cr) KTree && (role =? 61) then Internal 127
    else Usage 202
  end.

(* the declarer of a static declaration: the creator, or its own tree when that tree owns the path *)
Definition static_declarer (c : key) (l : str) (s : st) : res key :=
  if kind_eqb (fst c) KTree then Ok c
  else do ot <- find_owning_tree l s;
       match ot with
       | None => Ok c
       | Some t => if okey_eqb (creator_of (KTree, t) s) (Some c) then Ok (KTree, t) else Usage 215
       end.

Definition declare_static_files_t (c : key) (paths : list str) (s : st) : res st :=
  if negb (is_some (find_node c s)) then Internal 121
  else
  do todo <- foldM (fun acc l => do d <- static_declarer c l s;
                                 do isnew <- check_declaration_node_t d l 61 s;
                                 Ok (if isnew : bool then acc ++ [(d, l)] else acc)) paths [];
  foldM (fun s (dl : key * str) => declare_file_t (fst dl) (snd dl) FUnconfirmed s) todo s.

(* _resolve_supply_file: an absent or detached node under an attached tree is created by the tree *)
Definition resolve_supply_file_t (step : str) (l : str) (require_new : bool) (s : st)
  : res (st * bool) :=
  if is_detached (KFile, l) s then
    do ot <- find_owning_tree l s;
    match ot with
    | Some t =>
      do s1 <- create (KFile, l) (Some (KTree, t)) (InitFile FUnconfirmed) s;
      let isnew := negb (has_dep (KFile, l) (KStep, step) s1) in
      if negb isnew && require_new then Usage 205 else Ok (s1, isnew)
    | None => resolve_supply_file step l require_new s
    end
  else resolve_supply_file step l require_new s.

Definition supply_files_t (step : str) (paths : list str) (require_new dyn : bool) (s : st) : res st :=
  do r <- foldM (fun (acc : st * list str) l =>
                   do x <- resolve_supply_file_t step l require_new (fst acc);
                   Ok (fst x, if snd x then snd acc ++ [l] else snd acc)) paths (s, []);
  let s1 := fst r in let news := snd r in
  if match news with [] => false | _ => would_cycle (KStep, step) (map (fun l => (KFile, l)) news) s1 end
  then Usage 206
  else foldM (fun s l => add_dep (KFile, l) (KStep, step) dyn s) news s1.

Definition define_step_new_t (creator : key) (label : str) (inp env out vol : list str) (nd : need)
           (s : st) : res st :=
  let k := (KStep, label) in
  do _ <- foldM (fun (u : unit) l => do _ <- check_declaration_phrase l s; Ok tt) out tt;
  do _ <- foldM (fun (u : unit) l => do _ <- check_declaration_phrase l s; Ok tt) vol tt;
  if existsb (fun l => mem_str l vol) out then Usage 209
  else
  do s1 <- create k (Some creator) (InitStep nd) s;
  do s2 <- supply_files_t label inp true false s1;
  let s3 := fold_left (fun s e => add_env label e false true s) env s2 in
  do s4 <- foldM (fun s l => do s' <- declare_file_t k l FPlanned s; add_output_edge label l false s') out s3;
  foldM (fun s l => do s' <- declare_file_t k l FVolatile s; add_output_edge label l false s') vol s4.

Definition define_step_t (creator : key) (label : str) (inp env out vol : list str) (nd : need)
           (s : st) : res st :=
  if negb (is_some (find_node creator s)) then Internal 121
  else if key_eqb creator root_key && root_has_step s then Usage 207
  else if key_eqb creator (KStep, label) then Usage 211
  else if mem_key creator (rec_products (KStep, label) s) then Usage 212
  else
  let k := (KStep, label) in
  match find_node k s with
  | Some n =>
    if ndet n && can_recycle label inp env out vol s then
      do s1 <- node_reattach k creator s;
      let s2 := upd_step label (fun r => mkS (sl r) (sst r) nd (sdef r) (sdc r) 0) s1 in
      match sstate_of label s2 with
      | Some SFailed => mark_step_pending label s2
      | _ => Ok s2
      end
    else if negb (ndet n) then Usage 208
    else define_step_new_t creator label inp env out vol nd s
  | None => define_step_new_t creator label inp env out vol nd s
  end.

Definition amend_step_t (label : str) (inp env out vol : list str) (s : st) : res st :=
  let k := (KStep, label) in
  if negb (is_some (find_node k s) && is_some (find_step label s)) then Internal 123
  else
  do s1 <- supply_files_t label inp false true s;
  let s2 := fold_left (fun s e => add_env label e true false s) env s1 in
  do out' <- foldM (fun acc l => do isnew <- check_declaration_node k l 62 s2;
                                 Ok (if isnew : bool then acc ++ [l] else acc)) out [];
  do vol' <- foldM (fun acc l => do isnew <- check_declaration_node k l 63 s2;
                                 Ok (if isnew : bool then acc ++ [l] else acc)) vol [];
  if existsb (fun l => mem_str l vol') out' then Usage 209
  else
  do s3 <- foldM (fun s l => do s' <- declare_file_t k l FPlanned s; add_output_edge label l true s') out' s2;
  foldM (fun s l => do s' <- declare_file_t k l FVolatile s; add_output_edge label l true s') vol' s3.

(* ------------------------------------------------------------------------------------------ *)
(* Workflow.register_static_tree (p ends with '/')                                             *)
(* ------------------------------------------------------------------------------------------ *)
Definition file_nodes_under (p : str) (det : bool) (s : st) : list node :=
  filter (fun n => kind_eqb (fst (nk n)) KFile && Bool.eqb (ndet n) det && is_prefix p (snd (nk n))
                   && is_some (find_file (snd (nk n)) s)) (nodes s).

Definition is_static_fstate (l : str) (s : st) : bool :=
  match fstate_of l s with Some FUnconfirmed | Some FMissing | Some FConfirmed => true | _ => false end.

Definition register_static_tree (c : key) (p : str) (s : st) : res st :=
  if negb (is_some (find_node c s)) then Internal 121
  else
  do ot <- find_owning_tree p s;
  match ot with
  | Some t =>
    if okey_eqb (creator_of (KTree, t) s) (Some c) then Ok s          (* already covered: no-op *)
    else if str_eqb t p then Usage 216                                 (* duplicate static tree *)
    else Usage 217                                                     (* subdirectory of a tree *)
  | None =>
    if existsb (fun n => kind_eqb (fst (nk n)) KTree && negb (ndet n) && is_prefix p (snd (nk n))) (nodes s)
    then Usage 218                                                     (* parent directory of a tree *)
    else
    let under := file_nodes_under p false s in
    if existsb (fun n => negb (is_static_fstate (snd (nk n)) s)) under then Usage 219   (* build product *)
    else if existsb (fun n => negb (okey_eqb (ncre n) (Some c))) under then Usage 220   (* other creator *)
    else
    do s1 <- create (KTree, p) (Some c) InitTree s;
    (* hand over: the creator column is reassigned, no after_lost_product *)
    let s2 := fold_left (fun s n => upd_node (nk n) (fun m => mkNode (nk m) (Some (KTree, p)) (ndet m)) s) under s1 in
    (* adopt the detached file nodes under the tree *)
    let matching := sort_strs (map (fun n => snd (nk n)) (file_nodes_under p true s2)) in
    declare_static_files_t (KTree, p) matching s2
  end.

(* ------------------------------------------------------------------------------------------ *)
(* Workflow.delete_detached: product files of attached trees without attached sinks are detached *)
(* ------------------------------------------------------------------------------------------ *)
Definition tree_attached (t : key) (s : st) : bool :=
  kind_eqb (fst t) KTree && negb (is_detached t s).

Definition unused_tree_files (s : st) : list key :=
  map nk (filter (fun n => kind_eqb (fst (nk n)) KFile &&
                           match ncre n with Some t => tree_attached t s | None => false end &&
                           match attached_step_sinks (snd (nk n)) s with [] => true | _ => false end)
                 (nodes s)).

Definition delete_detached_t (s : st) : res st :=
  do s1 <- foldM (fun s k => node_detach k s) (unused_tree_files s) s;
  delete_detached s1.

(* ------------------------------------------------------------------------------------------ *)
(* Operation alphabet with trees                                                               *)
(* ------------------------------------------------------------------------------------------ *)
Inductive op_t :=
| OpBase (o : op)
| OpRegisterTree (creator : key) (path : str).

Definition step_op_t (o : op_t) (s : st) : res st :=
  match o with
  | OpBase (OpDeclareStatic c ps) => declare_static_files_t c ps s
  | OpBase (OpDefineStep c l i e o v n) => define_step_t c l i e o v n s
  | OpBase (OpAmendStep l i e o v) => amend_step_t l i e o v s
  | OpBase OpDeleteDetached => delete_detached_t s
  | OpBase o => step_op o s
  | OpRegisterTree c p => register_static_tree c p s
  end.

Definition apply_op_t (s : st) (o : op_t) : st := match step_op_t o s with Ok s' => s' | _ => s end.
Definition run_ops_t (ops : list op_t) (s : st) : st := fold_left apply_op_t ops s.

(* tree-free: no node is a static tree and no creator column refers to one *)
Definition no_tree_b (s : st) : bool :=
  forallb (fun n => negb (kind_eqb (fst (nk n)) KTree) &&
                    match ncre n with Some c => negb (kind_eqb (fst c) KTree) | None => true end) (nodes s).

(* trace checker of the E2 correspondence for the alphabet with trees *)
Fixpoint first_bad_t (i : nat) (s : st) (tr : list (op_t * outcome * dump)) : option nat :=
  match tr with
  | [] => None
  | (o, oc, d) :: tr' =>
    let r := step_op_t o s in
    let s' := match r with Ok x => x | _ => s end in
    if outcome_eqb (outcome_of r) oc && dump_eqb (dump_of s') d then first_bad_t (S i) s' tr'
    else Some i
  end.
Definition check_trace_t (cap : N) (tr : list (op_t * outcome * dump)) : bool :=
  match first_bad_t 0 (init_st cap) tr with None => true | Some _ => false end.
Definition state_at_t (cap : N) (ops : list op_t) : dump := dump_of (run_ops_t ops (init_st cap)).
Definition result_tag_t (cap : N) (ops : list op_t) (o : op_t) : N :=
  match step_op_t o (run_ops_t ops (init_st cap)) with Ok _ => 0 | Usage t => t | Internal t => t end.
Fixpoint all_prefixes_ok_t (p : st -> bool) (s : st) (ops : list op_t) : bool :=
  p s && match ops with [] => true | o :: ops' => all_prefixes_ok_t p (apply_op_t s o) ops' end.
