(* C17, candidates of NamedGlob.glob(): well-formed finite trees, paths as chains of names, and the
   pattern fragment G1 on which `glob_candidates_complete` is proved (proofs/NglobCands.v).
   Definitions only. *)
From Coq Require Import List NArith Bool Arith.
From SV Require Import lib.Bytes.
From SV Require Import lib.Regex.
From SV Require Import model.Nglob.
From SV Require Import model.GlobSem.
Import ListNotations.
Open Scope N_scope.

(* ---- well-formed trees ---- *)

Definition no_slash (s : str) : bool := forallb (fun c => negb (c =? 47)) s.

(* a directory entry name: not empty, no separator, not "." and not ".." *)
Definition name_ok (nm : str) : bool :=
  negb (is_nil nm) && no_slash nm && negb (str_eqb nm [46]) && negb (str_eqb nm [46; 46]).

(* every name is a legal entry name and no directory lists a name twice (lookup_e finds the first) *)
Fixpoint wf_node (n : node) : bool :=
  match n with
  | File => true
  | Dir es =>
    forallb (fun e => name_ok (fst e)) es
    && nodup_str (map fst es)
    && forallb (fun e => let '(_, ch) := e in wf_node ch) es
  end.

Definition wf_tree (t : list entry) : bool := wf_node (Dir t).

(* ---- paths as chains of names ---- *)

(* "n1/n2/.../nk" *)
Fixpoint jn (names : list str) : str :=
  match names with
  | [] => []
  | [n] => n
  | n :: r => n ++ [47] ++ jn r
  end.

(* the node reached from [nd] by following the names (None: some name does not exist) *)
Fixpoint resolve (nd : option node) (names : list str) : option node :=
  match names with
  | [] => nd
  | n :: r => resolve (lookup_e n (children nd)) r
  end.

(* the spelling of an existing entry as NamedGlob records it *)
Definition spell (names : list str) (nd : node) : str :=
  if is_dir nd then jn names ++ [47] else jn names.

(* ---- the translated plain pattern on F1 ---- *)

Definition starify (t : tok) : tok := match t with TName _ => TStar | _ => t end.

Definition gtext (ts : list tok) : str := flat_map tok_text (map starify ts).

(* ---- fragment G1 ---- *)

Definition plain_char (c : N) : bool := negb ((c =? 42) || (c =? 63) || (c =? 91)).

(* no character class; literal text without the glob meta characters star, question mark, open bracket (an unclosed bracket is
   literal text for RE_ANY_WILD but starts a class for fnmatch when a ']' follows a newline) *)
Definition tok_plain (t : tok) : bool :=
  match t with
  | TLit s => forallb plain_char s
  | TCls _ => false
  | _ => true
  end.

(* G1: F1 (literals, ?, *, default named wildcards with distinct names, no two star-like tokens
   adjacent, no recursive wildcard), without classes and without glob meta characters in literal text *)
Definition g1 (p : str) (subs : subs_t) : bool :=
  f1 p subs && forallb tok_plain (tokenize p).

(* last token `*` or a (first occurrence of a) default named wildcard: the only patterns for which
   the compiled regex allows the directory spelling "name/" (finding D5b for the others) *)
Definition last_starlike (ts : list tok) : bool :=
  match last_tok ts with Some TStar | Some (TName _) => true | _ => false end.

(* G1S, for the converse direction: additionally the pattern does not end with a separator and every
   component of the translated pattern is a legal name (not empty, not "." or ".."): the domain of
   GlobSem.  Excludes a leading separator and "//". *)
Definition g1s (p : str) (subs : subs_t) : bool :=
  g1 p subs && negb (pat_ends_sep (tokenize p))
  && forallb name_ok (split_slash (gtext (tokenize p)) []).

(* G2: the recursive wildcard as the last component after a literal directory prefix: `**` or
   `dir/sub/**` (tokens: at most one literal without glob meta characters that ends with a separator,
   then the trailing recursive wildcard) *)
Definition g2 (p : str) : bool :=
  match tokenize p with
  | [TDStar] => true
  | [TLit l; TDStar] => forallb plain_char l && ends_sep l
  | _ => false
  end.
