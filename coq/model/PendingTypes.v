(* Types shared by gen/GenPending.v (generated) and model/Pending.v: the column names that the
   WHERE clauses of pending.py may mention, the relations (FROM/JOIN skeletons) the arms of
   _INSERT_PEND_BLOCKER / _INSERT_PEND_STEP_BLOCK range over, and an arm = relation + kind + WHERE
   clause (an expression of lib/SqlExpr.v produced by translator/sqlexpr.py).  Definitions only. *)
From Coq Require Import List NArith Bool.
From SV Require Import lib.SqlExpr.
Import ListNotations.
Open Scope N_scope.

(* _INSERT_PEND_STEP / _SELECT_NTOTAL: one row of `node JOIN step`, plus the bound parameter. *)
Inductive pscol :=
| PS_state | PS_ineed | PS_threshold | PS_detached | PS_safe | PS_has_hash | PS_safe_nh
| PS_deferred | PS_holding.

(* _INSERT_PEND_FILE_BLOCK / UNAVAILABLE_INPUT_WHERE: one row of
   pend_step JOIN dependency JOIN file input_file JOIN node input_node LEFT JOIN dynamic_dep. *)
Inductive fbcol := FB_state | FB_detached | FB_dyn | FB_ps_deferred | FB_ps_unsafe.

(* FROM/JOIN skeletons of the candidate arms (the translator compares the text of the FROM clause
   and of the projected columns with its catalogue, fail closed). *)
Inductive rel :=
| RDeadFile     (* pend_file_block pfb JOIN pend_dead_file pdf *)
| RResource     (* step_resource req JOIN pend_resource pr LEFT JOIN available_resource avail *)
| RFailedProd   (* pend_file_block pfb JOIN dependency pdep JOIN node prod(kind step) JOIN step pstep *)
| RProd         (* the same without the step join *)
| RAncStep      (* pend_unsafe_anc pua JOIN node anc JOIN step astep *)
| RAncBare      (* pend_unsafe_anc pua *)
| RSelf         (* pend_step *)
| RStepBlock.   (* pend_step_block psb JOIN node src_node *)

Inductive bcol :=
| B_dst_in_U        (* <dst> IN (SELECT i FROM pend_step) *)
| B_avail_name      (* avail.name (NULL when the LEFT JOIN found nothing; 1 otherwise) *)
| B_avail_units | B_req_units
| B_src_state       (* state of the step row joined to the source *)
| B_src_in_U        (* <src> IN (SELECT i FROM pend_step) *)
| B_src_is_step     (* EXISTS (SELECT 1 FROM step WHERE step.node = <src> ...): the row exists *)
| B_ps_deferred | B_ps_unsafe
| B_has_file_block  (* EXISTS (SELECT 1 FROM pend_file_block WHERE dst_step = pend_step.i) *)
| B_file_state | B_file_detached
| B_has_blocker.    (* i IN (SELECT dst_step FROM pend_blocker) *)

Record arm := mk_arm { a_rel : rel; a_kind : N; a_where : sexpr bcol }.

(* _bucket / _cyclic_bucket *)
Inductive acol := A_root_kind | A_param | A_attributed.

(* _INSERT_PEND_ATTRIBUTED: a row of pend_blocker (kind, src, dst_step) and, in the recursive step, walk.i *)
Inductive wcol := W_kind | W_src | W_dst | W_walk_i.
