(* The well-formedness invariant of the stored workflow (C09), as an executable boolean.
   Definitions only.  Each conjunct is named so that proofs and evidence can refer to it. *)
From Coq Require Import List NArith Bool.
From SV Require Import lib.Bytes model.Graph.
Import ListNotations.
Open Scope N_scope.

Fixpoint nodup_by {A} (eqb : A -> A -> bool) (l : list A) : bool :=
  match l with [] => true | x :: l' => negb (existsb (eqb x) l') && nodup_by eqb l' end.

(* walk up the creator chain; true when the root is reached within [fuel] steps *)
Fixpoint reaches_root (fuel : nat) (k : key) (s : st) : bool :=
  if key_eqb k root_key then true
  else match fuel with
       | O => false
       | S fuel' => match creator_of k s with
                    | Some c => reaches_root fuel' c s
                    | None => false
                    end
       end.

(* I0: keys are unique, the root row is as the CHECK constraints demand *)
Definition inv_nodes_b (s : st) : bool :=
  nodup_by key_eqb (map nk (nodes s)) &&
  match find_node root_key s with
  | Some r => okey_eqb (ncre r) (Some root_key) && negb (ndet r)
  | None => false
  end &&
  forallb (fun n => negb (kind_eqb (fst (nk n)) KRoot) || key_eqb (nk n) root_key) (nodes s).

(* I1 (local): a non-root node without creator is detached; with a creator it carries the
   creator's flag, the creator exists, is another node, and has an allowed kind (I6) *)
Definition inv_local_b (s : st) : bool :=
  forallb (fun n =>
             key_eqb (nk n) root_key ||
             match ncre n with
             | None => ndet n
             | Some c => match find_node c s with
                         | Some cn => Bool.eqb (ndet n) (ndet cn) && negb (key_eqb c (nk n))
                                      && creator_kind_ok (fst (nk n)) (fst c)
                         | None => false
                         end
             end) (nodes s).

(* I1 (global): marked attached  <->  reachable from the root through creator links *)
Definition inv_reach_b (s : st) : bool :=
  forallb (fun n => Bool.eqb (negb (ndet n)) (reaches_root (length (nodes s)) (nk n) s)) (nodes s).

(* rows: file nodes <-> file rows, step nodes <-> step rows, labels unique *)
Definition inv_rows_b (s : st) : bool :=
  nodup_by str_eqb (map fl (files s)) && nodup_by str_eqb (map sl (steps s)) &&
  forallb (fun r => is_some (find_node (KFile, fl r) s)) (files s) &&
  forallb (fun r => is_some (find_node (KStep, sl r) s)) (steps s) &&
  forallb (fun n => match fst (nk n) with
                    | KFile => is_some (find_file (snd (nk n)) s)
                    | KStep => is_some (find_step (snd (nk n)) s)
                    | _ => true end) (nodes s) &&
  nodup_by str_eqb (shash s) &&
  forallb (fun l => is_some (find_step l s)) (shash s) &&
  forallb (fun e => is_some (find_step (estep e) s)) (envs s).

(* I2a: dependency edges connect existing nodes of allowed kinds, no duplicates *)
Definition inv_deps_b (s : st) : bool :=
  forallb (fun d => dep_kinds_ok (dsrc d) (dsnk d) && is_some (find_node (dsrc d) s)
                    && is_some (find_node (dsnk d) s)) (deps s) &&
  nodup_by (fun a b => key_eqb (dsrc a) (dsrc b) && key_eqb (dsnk a) (dsnk b)) (deps s).

(* I2b: the dependency graph is acyclic: no edge's source is reachable from its sink *)
Definition inv_acyclic_b (s : st) : bool :=
  forallb (fun d => negb (mem_key (dsrc d) (rec_sinks (dsnk d) s))) (deps s).

(* I3: a file without any declaration is detached *)
Definition inv_undeclared_b (s : st) : bool :=
  forallb (fun r => negb (fstate_eqb (fstt r) FUndeclared) || is_detached (KFile, fl r) s) (files s).

(* I3': a file without any declaration has no creator (stronger than I3 given I1; needed for
   induction: reattaching a step makes its whole product subtree attached) *)
Definition inv_nocreator_b (s : st) : bool :=
  forallb (fun r => negb (fstate_eqb (fstt r) FUndeclared) || negb (is_some (creator_of (KFile, fl r) s)))
          (files s).

(* I5a: hash presence agrees with the file state *)
Definition inv_fhash_b (s : st) : bool :=
  forallb (fun r => match fstt r with
                    | FConfirmed | FBuilt | FOutdated => is_some (fh r)
                    | FMissing | FPlanned | FVolatile => negb (is_some (fh r))
                    | FUndeclared | FUnconfirmed => true
                    end) (files s).

(* I5b: deferred -> PENDING, holding > 0 -> RUNNING *)
Definition inv_step_b (s : st) : bool :=
  forallb (fun r => (negb (sdef r) || sstate_eqb (sst r) SPending) &&
                    ((shold r =? 0) || sstate_eqb (sst r) SRunning)) (steps s).

(* I5b without the holding clause (the holding clause needs the request protocol: hold() is only
   ever called for a RUNNING step) *)
Definition inv_deferred_b (s : st) : bool :=
  forallb (fun r => (negb (sdef r) || sstate_eqb (sst r) SPending) && true) (steps s).

(* I5c: a RUNNING step has no stored hash *)
Definition inv_running_nohash_b (s : st) : bool :=
  forallb (fun r => negb (sstate_eqb (sst r) SRunning) || negb (has_hash (sl r) s)) (steps s).

(* I4: an attached SUCCEEDED step has only BUILT or VOLATILE attached outputs *)
Definition inv_succeeded_b (s : st) : bool :=
  forallb (fun r =>
             negb (sstate_eqb (sst r) SSucceeded) ||
             forallb (fun f => is_detached (KFile, f) s ||
                               match fstate_of f s with
                               | Some FBuilt | Some FVolatile => true
                               | _ => false end) (file_sinks_of_step (sl r) s)) (steps s).

(* I4a: an output edge step -> file whose sink still has a creator points to a product of that
   step, in an OUTPUT or VOLATILE state (an edge survives a detach, which clears the creator; a
   re-creation of the file cuts all its sources) *)
Definition inv_outedge_b (s : st) : bool :=
  forallb (fun d => match dsrc d, dsnk d with
                    | (KStep, l), (KFile, f) =>
                      match creator_of (KFile, f) s with
                      | None => true
                      | Some c => key_eqb c (KStep, l) &&
                                  match fstate_of f s with
                                  | Some FPlanned | Some FBuilt | Some FOutdated | Some FVolatile => true
                                  | _ => false end
                      end
                    | _, _ => true
                    end) (deps s).
(* I4b: a product file of a SUCCEEDED step is not PLANNED or OUTDATED (detached or not) *)
Definition inv_succ_products_b (s : st) : bool :=
  forallb (fun n => match nk n, ncre n with
                    | (KFile, f), Some (KStep, l) =>
                      negb (match sstate_of l s with Some SSucceeded => true | _ => false end) ||
                      negb (match fstate_of f s with Some FPlanned | Some FOutdated => true | _ => false end)
                    | _, _ => true
                    end) (nodes s).

(* an output edge step -> file is only present while the step is the file's creator, or the
   file has been taken over / re-created (then the edge was cut); a file's producers *)
Definition inv_b (s : st) : bool :=
  inv_nodes_b s && inv_local_b s && inv_reach_b s && inv_rows_b s && inv_deps_b s &&
  inv_acyclic_b s && inv_undeclared_b s && inv_fhash_b s && inv_step_b s && inv_nocreator_b s &&
  inv_outedge_b s.

(* everything except "holding > 0 -> RUNNING": holds for every operation sequence whatsoever *)
Definition inv_core_b (s : st) : bool :=
  inv_nodes_b s && inv_local_b s && inv_reach_b s && inv_rows_b s && inv_deps_b s &&
  inv_acyclic_b s && inv_undeclared_b s && inv_fhash_b s && inv_deferred_b s && inv_nocreator_b s &&
  inv_outedge_b s.

Definition inv_report (s : st) : list bool :=
  [inv_nodes_b s; inv_local_b s; inv_reach_b s; inv_rows_b s; inv_deps_b s; inv_acyclic_b s;
   inv_undeclared_b s; inv_fhash_b s; inv_step_b s; inv_running_nohash_b s; inv_succeeded_b s;
   inv_nocreator_b s; inv_outedge_b s; inv_succ_products_b s].

(* The one protocol fact inv_b depends on: hold() is only ever requested by a step whose job is in
   flight (DirectorHandler.hold resolves the job through Scheduler.get_job_step), i.e. a RUNNING
   step.  Step.hold itself does not check the state. *)
Definition protocol_hold_b (s : st) (o : op) : bool :=
  match o with
  | OpHold l => match sstate_of l s with Some SRunning | None => true | Some _ => false end
  | _ => true
  end.
Fixpoint protocol_run_b (s : st) (ops : list op) : bool :=
  match ops with
  | [] => true
  | o :: ops' => protocol_hold_b s o && protocol_run_b (apply_op s o) ops'
  end.

(* The build-loop protocol the state invariants I4 and I5c depend on (each clause is what the
   executor does): hold / amend are requested by a step whose job is in flight; a job that is
   (re)started (reset_for_rerun) is RUNNING or CHECKING, never SUCCEEDED; a successful run reports
   a hash for every output that was still PLANNED (a missing output makes the run fail). *)
Definition not_succeeded_b (l : str) (s : st) : bool :=
  match sstate_of l s with Some SSucceeded => false | _ => true end.
Definition no_planned_product_b (l : str) (s : st) : bool :=
  forallb (fun n => match nk n, ncre n with
                    | (KFile, f), Some c =>
                      negb (key_eqb c (KStep, l)) ||
                      negb (match fstate_of f s with Some FPlanned => true | _ => false end)
                    | _, _ => true end) (nodes s).
Definition protocol_ok (s : st) (o : op) : bool :=
  match o with
  | OpHold l => protocol_hold_b s o
  | OpAmendStep l _ _ _ _ => not_succeeded_b l s
  | OpResetForRerun l => not_succeeded_b l s
  | OpResetToPending l => not_succeeded_b l s
  | OpExecEnd l pre c hs true wd =>
    match update_file_hashes CFailed pre s with
    | Ok s0 => match update_file_hashes c hs s0 with
               | Ok s1 => no_planned_product_b l s1
               | _ => true end
    | _ => true end
  | _ => true
  end.
Fixpoint protocol_ok_run (s : st) (ops : list op) : bool :=
  match ops with
  | [] => true
  | o :: ops' => protocol_ok s o && protocol_ok_run (apply_op s o) ops'
  end.

(* the invariant with the protocol-dependent clauses: I4 (through I4a, I4b) and I5c *)
Definition inv_full_b (s : st) : bool :=
  inv_b s && inv_succ_products_b s && inv_running_nohash_b s.

(* Requests issued through the director by a step that exists: the creator of a declaration or of
   a new step is the root (boot) or a step node; the amended / holding / releasing step exists;
   argument lists are duplicate free (the code makes them sorted(set(...))). *)
Definition requester_b (c : key) (s : st) : bool :=
  is_some (find_node c s) && (key_eqb c root_key || kind_eqb (fst c) KStep).
Definition request_ok (s : st) (o : op) : bool :=
  match o with
  | OpDeclareStatic c paths => requester_b c s && nodup_by str_eqb paths
  | OpDefineStep c l inp env out vol nd =>
    requester_b c s && nodup_by str_eqb out && nodup_by str_eqb vol
  | OpAmendStep l inp env out vol =>
    is_some (find_node (KStep, l) s) && nodup_by str_eqb out && nodup_by str_eqb vol
  | OpHold l => is_some (find_step l s)
  | OpRelease l => is_some (find_step l s)
  | _ => false
  end.
Definition is_internal {A} (r : res A) : bool := match r with Internal _ => true | _ => false end.

(* every prefix of a run *)
Fixpoint all_prefixes_ok (p : st -> bool) (s : st) (ops : list op) : bool :=
  p s && match ops with [] => true | o :: ops' => all_prefixes_ok p (apply_op s o) ops' end.
