(* C13, call sites: the configuration of a step as the system sees it, and the small vocabulary
   of dict expressions the translator (translator/gen_hash_sites.py) recognises in the argument
   expressions of StepHash.from_inp / with_out_hashes in executor.py.  Definitions only. *)
From Coq Require Import List NArith Bool.
From SV Require Import lib.Bytes lib.KeySort model.HashTypes.
Import ListNotations.
Open Scope N_scope.

(* What determines the input digest of a step at the moment Executor._compute_inp_step_hash /
   _compute_full_step_hash runs:
     command, workdir     arguments of Workflow.define_step (the node label is derived from them)
     shell                column step.shell
     inps                 path -> (content digest, mode, size) of the step's BUILT/CONFIRMED inputs
                          as compute_inp_hashes sees them on disk (result.all_hashes)
     env_deps             rows of env_var for the step (names of tracked variables)
     environ, infra       os.environ of the director and Executor.infra_env
     ovrs                 column step.env_overrides (JSON object, NULL = {})
     outs                 path -> (digest, mode, size) of the outputs (compute_out_hashes)       *)
Record syscfg := mk_sys {
  sys_command : str;
  sys_workdir : str;
  sys_shell : bool;
  sys_inps : list (str * fsig);
  sys_env_deps : list str;
  sys_environ : list (str * str);
  sys_infra : list (str * str);
  sys_ovrs : list (str * str);
  sys_outs : list (str * fsig)
}.

(* ---------- dict expressions ---------- *)
(* d.get(name): None exactly when the key is absent *)
Definition env_get (d : list (str * str)) (name : str) : option str := lookup name d.
(* `x or None`: a falsy value (the empty string) becomes None *)
Definition or_none (v : option str) : option str :=
  match v with Some [] => None | _ => v end.
(* d.get(name, default) *)
Definition env_get_default (d : list (str * str)) (name dflt : str) : option str :=
  match lookup name d with Some v => Some v | None => Some dflt end.
(* {**a, **b}: the entries of b win.  As an association list read with `lookup` (first match). *)
Definition dict_merge (a b : list (str * str)) : list (str * str) := b ++ a.

(* `p in s` for str *)
Fixpoint has_infix (p s : str) : bool :=
  is_prefix p s || match s with [] => false | _ :: s' => has_infix p s' end.
