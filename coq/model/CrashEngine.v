(* model/CrashEngine.v -- C05 on the abstract build engine of C01 (model/Engine.v, static-DAG
   fragment): what a killed build leaves, as an engine state.  Definitions only
   (proofs: proofs/CrashEngineProofs.v).

   A build is the fold of [step_build] over the project (one dispatch decision per step, in
   topological order).  In the implementation one such decision is several transactions and, when
   the command runs, several file-system actions:
       dispatch (PENDING -> RUNNING / CHECKING)  |  skip check  |  _reset_step_to_pending (stored
       hash deleted)  |  reset_for_rerun (outputs degraded)  |  the command writes its outputs  |
       completion (hashes of the outputs, new stored hash, SUCCEEDED: one transaction)
   A kill leaves the decisions completed so far, and for the step whose decision was under way
   (after startup.reset_interrupted_steps of the restart: RUNNING -> FAILED -> PENDING,
   CHECKING -> PENDING; C05_started_then_crash: no stored hash once the command may have written):
     - killed before the stored hash was deleted: nothing of the decision is visible;
     - killed later: the step is PENDING, has no recorded trace, and its outputs hold anything
       (nothing, the old content, a prefix of the new content, the new content). *)
From Coq Require Import List NArith Bool.
From SV Require Import model.Engine.
Import ListNotations.
Open Scope N_scope.

Section CrashEngine.
  Variable run : N -> list (option N) -> list (option N) -> N -> N.

  (* the first k dispatch decisions of a build *)
  Definition build_prefix (proj : project) (k : nat) (y : sys) : sys :=
    build_from run proj (firstn k proj) y.

  (* step [s] was being executed: no trace, arbitrary content [junk] at its outputs *)
  Definition torn (s : step) (y : sys) (junk : N -> option N) : sys :=
    mkSys (fun p => if memN p (out s) then junk p else fs y p) (ev y) (upd (tr y) (sid s) None) (stt y).

  (* the engine states a restart can find (after reset_interrupted_steps) *)
  Inductive crash_state (proj : project) (y : sys) : sys -> Prop :=
  | CS_between (k : nat) : crash_state proj y (build_prefix proj k y)
  | CS_inside (k : nat) (s : step) (junk : N -> option N) :
      nth_error proj k = Some s -> stt (build_prefix proj k y) (sid s) = Pending ->
      crash_state proj y (torn s (build_prefix proj k y) junk).

  (* the restarted director: startup rescan against the world as it is, then a build *)
  Definition restart (proj : project) (c : sys) : sys := build_world run proj (fs c, ev c) c.

  (* executable forms for the examples *)
  Definition crash_between_b (proj : project) (y : sys) (k : nat) : sys := build_prefix proj k y.
  Definition crash_inside_b (proj : project) (y : sys) (k : nat) (junk : N -> option N) : option sys :=
    match nth_error proj k with
    | Some s => if is_succ (stt (build_prefix proj k y) (sid s)) then None
                else Some (torn s (build_prefix proj k y) junk)
    | None => None
    end.
End CrashEngine.

(* ------------------------------------------------------------------------------------------ *)
(* The same on the engine with amended inputs, deferral and failing steps                      *)
(* (model/Engine.v Section Amend; [gate] = true is the dispatch rule of the code)              *)
(* ------------------------------------------------------------------------------------------ *)
(* One dispatch decision [a_step_build] is, in the implementation, the transactions listed at the
   top of this file plus one transaction per amend() call of the running command
   (Workflow.amend_step: the amended edges are committed while the command runs) and, for a run
   that ends without success, the completion Step.mark_completed(None, wants_defer): stored hash
   deleted, state FAILED or PENDING + deferred.
   What the restart finds for the step [s] whose command was running when the director was killed,
   after startup.reset_interrupted_steps (RUNNING -> FAILED -> Workflow.mark_step_pending):
     - PENDING, not deferred (mark_step_pending clears the flag), no recorded trace
       (Executor._reset_step_to_pending deleted the stored hash before the command started:
       C05_started_then_crash), ANY content at its outputs;
     - remembered amended inputs [dyn]: Step.reset_for_rerun deleted the edges of the previous run,
       every amend() call of the killed command that was committed added its own: some of the
       inputs the command asks for on the present contents of its declared inputs
       ([incl dyn (extra_now ...)]; [] when it was killed before its first amend()).
   The flags [afail] of the steps that failed earlier in the killed build are still set in the file
   (state FAILED); reset_interrupted_steps makes them PENDING, which is what [resync_a] does. *)
Section CrashAmend.
  Variable run : N -> list (option N) -> list (option N) -> N -> N.
  Variable amend : N -> list (option N) -> list N.
  Variable fails : N -> list (option N) -> list (option N) -> bool.
  Variable gate : bool.

  Definition a_build_from_g (proj todo : project) (y : asys) : asys :=
    fold_left (fun y s => a_step_build run amend fails gate proj s y) todo y.
  Definition a_build_prefix (proj : project) (k : nat) (y : asys) : asys :=
    a_build_from_g proj (firstn k proj) y.

  Definition torn_a (s : step) (y : asys) (junk : N -> option N) (dyn : list N) : asys :=
    mkA (torn s (abase y) junk) (upd (adyn y) (sid s) dyn) (upd (adef y) (sid s) false) (afail y).

  Inductive crash_state_a (proj : project) (y : asys) : asys -> Prop :=
  | CSA_between (k : nat) : crash_state_a proj y (a_build_prefix proj k y)
  | CSA_inside (k : nat) (s : step) (junk : N -> option N) (dyn : list N) :
      nth_error proj k = Some s -> stt (abase (a_build_prefix proj k y)) (sid s) = Pending ->
      incl dyn (extra_now amend (abase (a_build_prefix proj k y)) s) ->
      crash_state_a proj y (torn_a s (a_build_prefix proj k y) junk dyn).

  (* the same, but the torn step was really DISPATCHED to execution at that point (its decision was
     run, deferral or failure): a step that the dispatch rule holds back (not ready, or gated) has no
     command that could be running.  Without this the gated statement is false
     (proofs/CrashEngineAmend.v gated_needs_dispatch_refuted): tearing a gated step forgets the
     remembered edge that blocks it. *)
  Definition dispatched (proj : project) (s : step) (z : asys) : bool :=
    match decide amend fails gate proj s z with DRun | DDefer | DFail => true | _ => false end.
  Inductive crash_state_ad (proj : project) (y : asys) : asys -> Prop :=
  | CSD_between (k : nat) : crash_state_ad proj y (a_build_prefix proj k y)
  | CSD_inside (k : nat) (s : step) (junk : N -> option N) (dyn : list N) :
      nth_error proj k = Some s -> dispatched proj s (a_build_prefix proj k y) = true ->
      incl dyn (extra_now amend (abase (a_build_prefix proj k y)) s) ->
      crash_state_ad proj y (torn_a s (a_build_prefix proj k y) junk dyn).

  (* the restarted director: reset_interrupted_steps + startup rescans against the world as it
     is, then a build *)
  Definition restart_a (proj : project) (c : asys) : asys :=
    build_world_a run amend fails gate proj (fs (abase c), ev (abase c)) c.

  Definition crash_inside_a_b (proj : project) (y : asys) (k : nat) (junk : N -> option N)
             (ndyn : nat) : option asys :=
    match nth_error proj k with
    | Some s => let z := a_build_prefix proj k y in
                if is_succ (stt (abase z) (sid s)) then None
                else Some (torn_a s z junk (firstn ndyn (extra_now amend (abase z) s)))
    | None => None
    end.

  (* boolean form of same_result_a for concrete instances *)
  Definition same_result_a_b (proj : project) (y z : asys) : bool :=
    same_result_b proj (abase y) (abase z) &&
    forallb (fun s => Bool.eqb (afail y (sid s)) (afail z (sid s))) proj.
End CrashAmend.
