(* model/CrashEngine.v -- C05 on the abstract build engine of C01 (model/Engine.v, static-DAG
   fragment): what a killed build leaves, as an engine state.  Definitions only
   (proofs: proofs/CrashEngineProofs.v).

   A build is the fold of [step_build] over the project (one dispatch decision per step, in
   topological order).  In the implementation one such decision is several transactions and, when
   the command runs, several file-system actions:
       dispatch (PENDING -> RUNNING / CHECKING)  |  skip check  |  _reset_step_to_pending (stored
       hash deleted)  |  reset_for_rerun (outputs degraded)  |  the command writes its outputs  |
       completion (hashes of the outputs, new stored hash, SUCCEEDED: one transaction)
   A kill leaves the decisions completed so far, and for the step whose decision was under way
   (after startup.reset_interrupted_steps of the restart: RUNNING -> FAILED -> PENDING,
   CHECKING -> PENDING; C05_started_then_crash: no stored hash once the command may have written):
     - killed before the stored hash was deleted: nothing of the decision is visible;
     - killed later: the step is PENDING, has no recorded trace, and its outputs hold anything
       (nothing, the old content, a prefix of the new content, the new content). *)
From Coq Require Import List NArith Bool.
From SV Require Import model.Engine.
Import ListNotations.
Open Scope N_scope.

Section CrashEngine.
  Variable run : N -> list (option N) -> list (option N) -> N -> N.

  (* the first k dispatch decisions of a build *)
  Definition build_prefix (proj : project) (k : nat) (y : sys) : sys :=
    build_from run proj (firstn k proj) y.

  (* step [s] was being executed: no trace, arbitrary content [junk] at its outputs *)
  Definition torn (s : step) (y : sys) (junk : N -> option N) : sys :=
    mkSys (fun p => if memN p (out s) then junk p else fs y p) (ev y) (upd (tr y) (sid s) None) (stt y).

  (* the engine states a restart can find (after reset_interrupted_steps) *)
  Inductive crash_state (proj : project) (y : sys) : sys -> Prop :=
  | CS_between (k : nat) : crash_state proj y (build_prefix proj k y)
  | CS_inside (k : nat) (s : step) (junk : N -> option N) :
      nth_error proj k = Some s -> stt (build_prefix proj k y) (sid s) = Pending ->
      crash_state proj y (torn s (build_prefix proj k y) junk).

  (* the restarted director: startup rescan against the world as it is, then a build *)
  Definition restart (proj : project) (c : sys) : sys := build_world run proj (fs c, ev c) c.

  (* executable forms for the examples *)
  Definition crash_between_b (proj : project) (y : sys) (k : nat) : sys := build_prefix proj k y.
  Definition crash_inside_b (proj : project) (y : sys) (k : nat) (junk : N -> option N) : option sys :=
    match nth_error proj k with
    | Some s => if is_succ (stt (build_prefix proj k y) (sid s)) then None
                else Some (torn s (build_prefix proj k y) junk)
    | None => None
    end.
End CrashEngine.
