(* C13, stored hashes: the JSON form of FileHash / StepHash (hash.py to_json / from_json through
   cattrs' preconfigured JSON converter).  Data types and the converter combinators the generated
   file gen/GenHashJson.v is written with.  Definitions only.

   jval is the Python object handed to json.dumps / returned by json.loads (None, str, int, float,
   dict with str keys).  The text layer json.dumps / json.loads is not modelled (exercised by the
   harness on every run); a float is its bit pattern (the model never computes with it). *)
From Coq Require Import List NArith Bool.
From SV Require Import lib.Bytes lib.KeySort lib.Base85 model.HashTypes.
Import ListNotations.
Open Scope N_scope.

Inductive jval :=
| JNull
| JStr (s : str)
| JInt (n : N)
| JFloat (bits : N)
| JObj (fields : list (str * jval)).

Definition jget (k : str) (j : jval) : option jval :=
  match j with JObj fs => lookup k fs | _ => None end.

(* hash.InpInfo, and an explained or compact hash.StepHash *)
Record inpinfo := mk_ii {
  ii_inps : list (str * fhash);
  ii_envs : list (str * option str);
  ii_ovrs : list (str * str)
}.
Record outinfo := mk_oi { oi_outs : list (str * fhash) }.
Record stephash := mk_sx {
  sx_inp : str;
  sx_info : option inpinfo;
  sx_out : option str;
  sx_outinfo : option outinfo
}.

Definition obind {A B : Type} (o : option A) (f : A -> option B) : option B :=
  match o with Some x => f x | None => None end.

(* attrs class field: cattrs reads o["name"] and structures it with the hook of the field type *)
Definition ofield {V : Type} (s : jval -> option V) (k : str) (j : jval) : option V :=
  match jget k j with Some v => s v | None => None end.

(* unstructure / structure hooks per type *)
Definition j_bytes (alphabet : str) (b : str) : jval := JStr (b85_encode alphabet b).
Definition s_bytes (alphabet : str) (j : jval) : option str :=
  match j with JStr s => b85_decode alphabet s | _ => None end.
Definition j_str (s : str) : jval := JStr s.
Definition s_str (j : jval) : option str := match j with JStr s => Some s | _ => None end.
Definition j_int (n : N) : jval := JInt n.
Definition s_int (j : jval) : option N := match j with JInt n => Some n | _ => None end.
Definition j_float (bits : N) : jval := JFloat bits.
Definition s_float (j : jval) : option N := match j with JFloat b => Some b | _ => None end.
(* X | None *)
Definition j_opt {V : Type} (f : V -> jval) (o : option V) : jval :=
  match o with Some v => f v | None => JNull end.
Definition s_opt {V : Type} (s : jval -> option V) (j : jval) : option (option V) :=
  match j with JNull => Some None | _ => option_map Some (s j) end.
(* dict[str, X]: insertion order is kept both ways *)
Definition j_dict {V : Type} (f : V -> jval) (m : list (str * V)) : jval :=
  JObj (map (fun e => (fst e, f (snd e))) m).
Definition s_dict {V : Type} (s : jval -> option V) (j : jval) : option (list (str * V)) :=
  match j with
  | JObj fs => mapM (fun e => option_map (pair (fst e)) (s (snd e))) fs
  | _ => None
  end.
