(* Executable model for C19: exit status (finalize.report_unbuilt, serve, TUI) and the pending
   analysis (pending.analyze_pending).  Definitions only; proofs live in proofs/PendingProofs.v.
   Constants, the unavailable-input predicate and the return-code guard chains come from
   gen/GenPending.v, regenerated from /repo on every run. *)
From Coq Require Import List Arith NArith Bool.
From SV Require Import lib.Bytes lib.SqlExpr model.PendingTypes gen.GenPending.
Import ListNotations.
Open Scope N_scope.

(* ------------------------------------------------------------------------------------------ *)
(* (a) Exit status                                                                             *)
(* ------------------------------------------------------------------------------------------ *)

Definition has_bit (rc b : N) : bool := negb (N.land rc b =? 0).

(* Everything report_unbuilt looks at. *)
Record ru_in := mk_ru {
  ru_nfailed : N;          (* attached steps in state FAILED: len(workflow.steps(FAILED)) *)
  ru_draining : bool;      (* scheduler.draining *)
  ru_npending : N;         (* |U|, PendingSummary.ntotal *)
  ru_miss_targets : N;     (* exact targets that are not a regular output *)
  ru_miss_dirs : N;        (* directory targets without regular output *)
  ru_glob_warn : N;        (* glob violations with is_error = False *)
  ru_glob_err : N          (* glob violations with is_error = True: match is a file a step builds *)
}.

Definition report_pending_steps (ntotal : N) : N := if ntotal =? 0 then 0 else rc_PENDING.

Definition report_missing_targets (nt nd : N) : N :=
  if (0 <? nt) || (0 <? nd) then rc_WARNING else 0.

(* errors_only: the warning class (unjustified match without a node) is left out; a match that an
   attached step builds is reported either way. *)
Definition report_glob_violations (errors_only : bool) (nw ne : N) : N :=
  N.lor (if (0 <? nw) && negb errors_only then rc_WARNING else 0) (if 0 <? ne then rc_FAILED else 0).

(* finalize.report_unbuilt, in the guard order of the code (after fix 4c893f7). *)
Definition report_unbuilt (i : ru_in) : N :=
  let rc := if 0 <? ru_nfailed i then rc_FAILED else 0 in
  if ru_draining i then
    N.lor (N.lor rc rc_DRAINED) (report_glob_violations true (ru_glob_warn i) (ru_glob_err i))
  else
    let rc := N.lor (N.lor rc (report_pending_steps (ru_npending i)))
                    (report_missing_targets (ru_miss_targets i) (ru_miss_dirs i)) in
    N.lor rc (report_glob_violations (negb (rc =? 0)) (ru_glob_warn i) (ru_glob_err i)).

(* The guard chain as it was before fix 4c893f7 (finding D7): glob validation only when the code is
   still zero, nothing after the draining return.  Kept so that a regression can be named. *)
Definition report_unbuilt_prefix (i : ru_in) : N :=
  let rc := if 0 <? ru_nfailed i then rc_FAILED else 0 in
  if ru_draining i then N.lor rc rc_DRAINED
  else
    let rc := N.lor (N.lor rc (report_pending_steps (ru_npending i)))
                    (report_missing_targets (ru_miss_targets i) (ru_miss_dirs i)) in
    if rc =? 0 then report_glob_violations false (ru_glob_warn i) (ru_glob_err i) else rc.

(* The same function assembled from the generated pieces (proved equal in PendingProofs). *)
Definition report_unbuilt_gen (i : ru_in) : N :=
  gen_report_unbuilt (ru_nfailed i) (ru_draining i)
    (gen_report_pending_steps (ru_npending i))
    (gen_report_missing_targets (ru_miss_targets i) (ru_miss_dirs i))
    (fun errors_only => gen_report_glob_violations errors_only (ru_glob_warn i) (ru_glob_err i)).

(* director.serve: an invalid target returns early, otherwise Builder.returncode of the last
   phase, which Builder.finalize assigns from report_unbuilt and nothing else touches. *)
Definition serve_rc (invalid_target : bool) (i : ru_in) : N :=
  if invalid_target then serve_invalid_target_rc else report_unbuilt i.

(* A director run: build_loop runs phases (one without a watcher, any number in watch mode, none
   when the stop event fires before the first resume); every phase ends with Builder.finalize, the
   only store to Builder.returncode, whose initial value is builder_default_rc.  serve() returns
   that field after the tasks have been torn down. *)
Fixpoint last_phase_rc (cur : N) (phases : list ru_in) : N :=
  match phases with [] => cur | i :: r => last_phase_rc (report_unbuilt i) r end.
Definition serve_phases (invalid_target : bool) (phases : list ru_in) : N :=
  if invalid_target then serve_invalid_target_rc else last_phase_rc builder_default_rc phases.

(* tui: translate_wait_status + _report_director_log_problems. *)
Definition tui_exit (killed_by_signal : bool) (director_rc : N) (got_signal log_problem : bool) : N :=
  let rc := if killed_by_signal then rc_INTERNAL else director_rc in
  let rc := if got_signal then N.lor rc rc_INTERRUPTED else rc in
  N.lor rc (if log_problem then rc_INTERNAL else 0).

(* ------------------------------------------------------------------------------------------ *)
(* (b) analyze_pending over a snapshot of the graph                                            *)
(* ------------------------------------------------------------------------------------------ *)

Record stepr := mk_step {
  s_id : N; s_label : str; s_state : N; s_ineed : N; s_detached : bool;
  s_safe : bool; s_has_hash : bool; s_safe_nh : bool;
  s_deferred : bool; s_holding : N;
  s_creator : option N;              (* node.creator *)
  s_req : list (str * N)             (* step_resource rows *)
}.
Record filer := mk_file { f_id : N; f_label : str; f_state : N; f_detached : bool }.
Record depr := mk_dep { d_src : N; d_sink : N; d_dyn : bool }.
Record snap := mk_snap {
  sn_steps : list stepr;             (* every row of step, detached ones included *)
  sn_files : list filer;
  sn_deps : list depr;
  sn_avail : list (str * N);         (* available_resource *)
  sn_threshold : N                   (* workflow.need_threshold *)
}.

Definition find_step (sn : snap) (i : N) : option stepr := find (fun s => s_id s =? i) (sn_steps sn).
Definition find_file (sn : snap) (i : N) : option filer := find (fun f => f_id f =? i) (sn_files sn).

(* Column environments: how a row of the snapshot is read by the translated WHERE clauses.
   Booleans are stored as 0/1 (SQLite), NULL is None. *)
Definition ob (b : bool) : option N := Some (b2n b).
Definition ps_env (thr : N) (s : stepr) (c : pscol) : option N :=
  match c with
  | PS_state => Some (s_state s) | PS_ineed => Some (s_ineed s) | PS_threshold => Some thr
  | PS_detached => ob (s_detached s) | PS_safe => ob (s_safe s) | PS_has_hash => ob (s_has_hash s)
  | PS_safe_nh => ob (s_safe_nh s) | PS_deferred => ob (s_deferred s) | PS_holding => Some (s_holding s)
  end.

(* _INSERT_PEND_STEP: WHERE clause and `unsafe` column, as translated from pending.py *)
Definition in_U (sn : snap) (s : stepr) : bool :=
  sholds (ps_env (sn_threshold sn) s) gen_pend_step_where.
(* _SELECT_NTOTAL *)
Definition in_ntotal (sn : snap) (s : stepr) : bool :=
  sholds (ps_env (sn_threshold sn) s) gen_ntotal_where.
Definition U (sn : snap) : list stepr := filter (in_U sn) (sn_steps sn).
Definition U_ids (sn : snap) : list N := map s_id (U sn).
Definition s_unsafe (s : stepr) : bool := sholds (ps_env 0 s) gen_pend_step_unsafe.

Definition is_failed (s : stepr) : bool := s_state s =? SS_FAILED.

Fixpoint dedup_files (l : list filer) : list filer :=
  match l with
  | [] => []
  | f :: r => if existsb (fun g => f_id g =? f_id f) r then dedup_files r else f :: dedup_files r
  end.

(* One row of pend_step JOIN dependency JOIN file JOIN node LEFT JOIN dynamic_dep.  dynamic_dep.i
   is only ever tested for NULL (the translator checks this): a non-NULL id is modelled as 1. *)
Definition fb_env_raw (state : N) (detached dynamic deferred unsafe : bool) (c : fbcol) : option N :=
  match c with
  | FB_state => Some state | FB_detached => ob detached
  | FB_dyn => if dynamic then Some 1 else None
  | FB_ps_deferred => ob deferred | FB_ps_unsafe => ob unsafe
  end.
Definition fb_env (u : stepr) (f : filer) (d : depr) : fbcol -> option N :=
  fb_env_raw (f_state f) (f_detached f) (d_dyn d) (s_deferred u) (s_unsafe u).
(* step.UNAVAILABLE_INPUT_WHERE: the dispatch test (scheduler.RECOMPUTE_READY) *)
Definition unavailable_input (state : N) (detached dynamic : bool) : bool :=
  sholds (fb_env_raw state detached dynamic false false) gen_unavailable_input.
Definition file_blocks (u : stepr) (f : filer) (d : depr) : bool :=
  sholds (fb_env u f d) gen_file_block_where.

(* _INSERT_PEND_FILE_BLOCK, restricted to one sink step *)
Definition blocking_files (sn : snap) (u : stepr) : list filer :=
  dedup_files (flat_map (fun d =>
    if d_sink d =? s_id u then
      match find_file sn (d_src d) with
      | Some f => if file_blocks u f d then [f] else []
      | None => []
      end
    else []) (sn_deps sn)).

(* dependency-edge producers of a file that are steps *)
Definition producers (sn : snap) (fid : N) : list stepr :=
  flat_map (fun d => if d_sink d =? fid then
                       match find_step sn (d_src d) with Some p => [p] | None => [] end
                     else []) (sn_deps sn).

(* Rows of the candidate relations: the columns a WHERE clause may read, the projected label
   (src_label), the node label of the source and the source id. *)
Definition benv := bcol -> option N.
Record brow := mk_brow { br_env : benv; br_label : str; br_node_label : str; br_src : N }.

(* a source that is a step p, seen from the destination u *)
Definition prod_env (sn : snap) (dst_in_U : bool) (p : stepr) : benv :=
  fun c => match c with
           | B_src_state => Some (s_state p) | B_src_in_U => ob (in_U sn p) | B_src_is_step => Some 1
           | B_dst_in_U => ob dst_in_U
           | _ => None
           end.

(* _INSERT_PEND_DEAD_FILE: no producer passes the translated live-producer test *)
Definition dead_file (sn : snap) (f : filer) : bool :=
  negb (existsb (fun p => sholds (prod_env sn true p) gen_live_producer) (producers sn (f_id f))).

(* _INSERT_PEND_UNSAFE_ANC: the recursive walk up node.creator.  Seed condition (on the pend_step row),
   continue-through condition and stop condition (on the ancestor's step row) are the translated
   WHERE clauses; a row without a step (the root's creator) ends the walk. *)
Definition self_env (u : stepr) (has_fb : bool) : benv :=
  fun c => match c with
           | B_ps_deferred => ob (s_deferred u) | B_ps_unsafe => ob (s_unsafe u)
           | B_has_file_block => ob has_fb
           | _ => None
           end.
Definition anc_gate (u : stepr) : bool := sholds (self_env u false) gen_anc_seed_where.
Definition chain_ok (p : stepr) : bool := sholds (ps_env 0 p) gen_anc_cont_where.
Definition anc_stop (p : stepr) : bool := sholds (ps_env 0 p) gen_anc_stop_where.
Fixpoint anc_walk (sn : snap) (fuel : nat) (a : option N) : option stepr :=
  match fuel with
  | O => None
  | S k => match a with
           | None => None
           | Some i => match find_step sn i with
                       | None => None
                       | Some p => if chain_ok p then anc_walk sn k (s_creator p)
                                   else if anc_stop p then Some p else None
                       end
           end
  end.
Definition unsafe_anc (sn : snap) (u : stepr) : option stepr :=
  if anc_gate u then anc_walk sn (S (length (sn_steps sn))) (s_creator u) else None.

(* _INSERT_PEND_RESOURCE / the RESOURCE arm *)
Fixpoint lookup_str (k : str) (l : list (str * N)) : option N :=
  match l with [] => None | (k', v) :: r => if str_eqb k k' then Some v else lookup_str k r end.
Definition res_env (sn : snap) (dst_in_U : bool) (req : str * N) : benv :=
  fun c => match c with
           | B_dst_in_U => ob dst_in_U
           | B_avail_name => match lookup_str (fst req) (sn_avail sn) with Some _ => Some 1 | None => None end
           | B_avail_units => lookup_str (fst req) (sn_avail sn)
           | B_req_units => Some (snd req)
           | _ => None
           end.
Definition unsat (sn : snap) (req : str * N) : bool := sholds (res_env sn true req) gen_pend_resource_where.
Definition unsat_reqs (sn : snap) (u : stepr) : list (str * N) := filter (unsat sn) (s_req u).
(* names in pend_resource *)
Definition pend_resource_names (sn : snap) : list str := map fst (flat_map (unsat_reqs sn) (U sn)).
Definition mem_str (x : str) (l : list str) : bool := existsb (str_eqb x) l.

Definition file_env (sn : snap) (dst_in_U : bool) (f : filer) : benv :=
  fun c => match c with
           | B_file_state => Some (f_state f) | B_file_detached => ob (f_detached f)
           | B_dst_in_U => ob dst_in_U
           | _ => None
           end.
Definition step_row (sn : snap) (du : bool) (p : stepr) (with_label : bool) : brow :=
  mk_brow (prod_env sn du p) (if with_label then s_label p else []) (s_label p) (s_id p).

(* the rows with dst_step = u of every relation except pend_step_block *)
Definition base_rows (sn : snap) (u : stepr) (r : rel) : list brow :=
  let bf := blocking_files sn u in
  let du := in_U sn u in
  match r with
  | RDeadFile => map (fun f => mk_brow (file_env sn du f) (f_label f) (f_label f) (f_id f)) (filter (dead_file sn) bf)
  | RResource => map (fun r => mk_brow (res_env sn du r) (fst r) (fst r) 0)
                     (filter (fun r => mem_str (fst r) (pend_resource_names sn)) (s_req u))
  | RFailedProd | RProd => flat_map (fun f => map (fun p => step_row sn du p true) (producers sn (f_id f))) bf
  | RAncStep => match unsafe_anc sn u with Some a => [step_row sn du a true] | None => [] end
  | RAncBare => match unsafe_anc sn u with Some a => [step_row sn du a false] | None => [] end
  | RSelf => [mk_brow (self_env u (match bf with [] => false | _ => true end)) [] (s_label u) (s_id u)]
  | RStepBlock => []
  end.
Definition arm_rows_of (rows : rel -> list brow) (a : arm) : list brow :=
  filter (fun row => sholds (br_env row) (a_where a)) (rows (a_rel a)).
(* _INSERT_PEND_STEP_BLOCK (rows with dst_step = u), then pend_step_block JOIN node *)
Definition step_block_rows (sn : snap) (u : stepr) : list brow :=
  map (fun row => mk_brow (fun _ => None) (br_node_label row) (br_node_label row) (br_src row))
      (flat_map (arm_rows_of (base_rows sn u)) gen_step_block_arms).
Definition rel_rows (sn : snap) (u : stepr) (r : rel) : list brow :=
  match r with RStepBlock => step_block_rows sn u | _ => base_rows sn u r end.

(* A candidate blocker: (kind, src_label, src). *)
Definition cand := (N * str * N)%type.
Definition c_kind (c : cand) : N := fst (fst c).
Definition c_label (c : cand) : str := snd (fst c).
Definition c_src (c : cand) : N := snd c.

(* the UNION ALL of _INSERT_PEND_BLOCKER: every arm as translated from pending.py *)
Definition arm_cands (sn : snap) (u : stepr) (a : arm) : list cand :=
  map (fun row => (a_kind a, br_label row, br_src row)) (arm_rows_of (rel_rows sn u) a).
Definition cands (sn : snap) (u : stepr) : list cand := flat_map (arm_cands sn u) gen_blocker_arms.

(* The same relation written out by hand, as the comments of pending.py describe it (the
   reference the translated arms are proved equal to: PendingSound.cands_is_spec). *)
Definition cands_spec (sn : snap) (u : stepr) : list cand :=
  let bf := blocking_files sn u in
  let anc := unsafe_anc sn u in
  (* FILE *)
  map (fun f => (K_ROOT_FILE, f_label f, f_id f)) (filter (dead_file sn) bf)
  (* RESOURCE (the surrogate id of pend_resource is not modelled: names are unique) *)
  ++ map (fun r => (K_ROOT_RESOURCE, fst r, 0)) (unsat_reqs sn u)
  (* FAILED producer of a blocking input *)
  ++ flat_map (fun f => map (fun p => (K_ROOT_FAILED, s_label p, s_id p))
                            (filter is_failed (producers sn (f_id f)))) bf
  (* FAILED chain-broken ancestor *)
  ++ match anc with Some a => if is_failed a then [(K_ROOT_FAILED, s_label a, s_id a)] else [] | None => [] end
  (* DEFERRED without blocking input *)
  ++ (if s_deferred u && match bf with [] => true | _ => false end then [(K_ROOT_DEFERRED, [], s_id u)] else [])
  (* OTHER: ancestor outside U and not FAILED *)
  ++ match anc with
     | Some a => if negb (in_U sn a) && negb (is_failed a) then [(K_ROOT_OTHER, [], s_id a)] else []
     | None => [] end
  (* BLOCK_STEP: _INSERT_PEND_STEP_BLOCK *)
  ++ flat_map (fun f => map (fun p => (K_BLOCK_STEP, s_label p, s_id p))
                            (filter (in_U sn) (producers sn (f_id f)))) bf
  ++ match anc with Some a => if in_U sn a then [(K_BLOCK_STEP, s_label a, s_id a)] else [] | None => [] end.

(* ORDER BY kind, src_label, src *)
Definition cand_lt (a b : cand) : bool :=
  (c_kind a <? c_kind b)
  || ((c_kind a =? c_kind b)
      && (lex_lt (c_label a) (c_label b)
          || (str_eqb (c_label a) (c_label b) && (c_src a <? c_src b)))).

Fixpoint cand_min (c : cand) (l : list cand) : cand :=
  match l with [] => c | x :: r => cand_min (if cand_lt x c then x else c) r end.

(* _INSERT_PEND_BLOCKER + _INSERT_PEND_BLOCKER_RUNNABLE *)
Definition primary (sn : snap) (u : stepr) : cand :=
  match cands sn u with
  | [] => (K_ROOT_RUNNABLE, [], s_id u)
  | c :: r => cand_min c r
  end.

(* the pend_blocker table: (dst_step, (kind, label, src)) *)
Definition blocker_rows (sn : snap) : list (N * cand) := map (fun u => (s_id u, primary sn u)) (U sn).

(* _INSERT_PEND_ATTRIBUTED: breadth-first evaluation of the recursive CTE with UNION ALL.
   A row (i, root) says step i is attributed to root. *)
Definition w_env (row : N * cand) (walk_i : option N) (c : wcol) : option N :=
  match c with
  | W_kind => Some (c_kind (snd row)) | W_src => Some (c_src (snd row)) | W_dst => Some (fst row)
  | W_walk_i => walk_i
  end.
(* seed rows and the join condition of the recursive step, as translated *)
Definition is_seed (row : N * cand) : bool := sholds (w_env row None) gen_attr_seed_where.
Definition is_child (i : N) (row : N * cand) : bool := sholds (w_env row (Some i)) gen_attr_join.
Definition seeds (B : list (N * cand)) : list (N * cand) := filter is_seed B.
Definition children (B : list (N * cand)) (i : N) : list N := map fst (filter (is_child i) B).
Definition wstep (B : list (N * cand)) (F : list (N * cand)) : list (N * cand) :=
  flat_map (fun ir => map (fun d => (d, snd ir)) (children B (fst ir))) F.
Fixpoint walk (B : list (N * cand)) (fuel : nat) (F : list (N * cand)) : list (N * cand) :=
  match fuel with
  | O => []
  | S k => F ++ walk B k (wstep B F)
  end.

Definition attributed_of (B : list (N * cand)) : list (N * cand) := walk B (S (length B)) (seeds B).
Definition attributed (sn : snap) : list (N * cand) := attributed_of (blocker_rows sn).

(* Buckets *)
Definition count_kind (k : N) (A : list (N * cand)) : N :=
  N.of_nat (length (filter (fun row => c_kind (snd row) =? k) A)).
Definition a_env (kind param : N) (is_attributed : bool) (c : acol) : option N :=
  match c with A_root_kind => Some kind | A_param => Some param | A_attributed => ob is_attributed end.
(* _cyclic_bucket: WHERE clause as translated *)
Definition cyclic_ids (sn : snap) : list N :=
  filter (fun u => sholds (a_env 0 0 (memN u (map fst (attributed sn)))) gen_cyclic_where) (U_ids sn).
Definition root_kinds : list N :=
  [K_ROOT_FILE; K_ROOT_RESOURCE; K_ROOT_FAILED; K_ROOT_DEFERRED; K_ROOT_OTHER; K_ROOT_RUNNABLE].
Definition sumN (l : list N) : N := fold_right N.add 0 l.

(* The class a pending step is reported under: Some kind, or None = cyclic. *)
Definition class_of (sn : snap) (u : N) : option N :=
  match find (fun row => fst row =? u) (attributed sn) with
  | Some row => Some (c_kind (snd row))
  | None => None
  end.

(* Inputs of report_unbuilt that are functions of the snapshot. *)
Definition n_failed_attached (sn : snap) : N :=
  N.of_nat (length (filter (fun s => is_failed s && negb (s_detached s)) (sn_steps sn))).
Definition ru_of_snap (sn : snap) (draining : bool) (mt md gw ge : N) : ru_in :=
  mk_ru (n_failed_attached sn) draining (N.of_nat (length (filter (in_ntotal sn) (sn_steps sn)))) mt md gw ge.
Definition required (sn : snap) (s : stepr) : bool :=
  (sn_threshold sn <? s_ineed s) && negb (s_detached s).

(* ------------------------------------------------------------------------------------------ *)
(* Helpers for the correspondence (canonical, sorted views)                                    *)
(* ------------------------------------------------------------------------------------------ *)

Fixpoint insert_row (x : N * cand) (l : list (N * cand)) : list (N * cand) :=
  match l with
  | [] => [x]
  | y :: r => if fst x <=? fst y then x :: l else y :: insert_row x r
  end.
Definition sort_rows (l : list (N * cand)) : list (N * cand) := fold_right insert_row [] l.

Definition cand_eqb (a b : cand) : bool :=
  (c_kind a =? c_kind b) && str_eqb (c_label a) (c_label b) && (c_src a =? c_src b).
Fixpoint rows_eqb (a b : list (N * cand)) : bool :=
  match a, b with
  | [], [] => true
  | x :: a', y :: b' => (fst x =? fst y) && cand_eqb (snd x) (snd y) && rows_eqb a' b'
  | _, _ => false
  end.

Definition label_of (sn : snap) (i : N) : str :=
  match find_step sn i with Some s => s_label s | None => [] end.
Fixpoint min_label (l : list str) : option str :=
  match l with
  | [] => None
  | x :: r => match min_label r with
              | None => Some x
              | Some m => Some (if lex_lt x m then x else m)
              end
  end.
Definition bucket (sn : snap) (k : N) : N * option str :=
  let rows := filter (fun row => sholds (a_env (c_kind (snd row)) k true) gen_bucket_where) (attributed sn) in
  (N.of_nat (length rows), min_label (map (fun row => label_of sn (fst row)) rows)).
Definition cyclic_bucket (sn : snap) : N * option str :=
  let ids := cyclic_ids sn in (N.of_nat (length ids), min_label (map (label_of sn) ids)).

Definition ostr_eqb (a b : option str) : bool :=
  match a, b with Some x, Some y => str_eqb x y | None, None => true | _, _ => false end.
Definition bucket_eqb (a b : N * option str) : bool := (fst a =? fst b) && ostr_eqb (snd a) (snd b).

(* dead-end input files over all of U, as (label, state, detached), sorted by label, no dups *)
Fixpoint insert_file (x : filer) (l : list filer) : list filer :=
  match l with
  | [] => [x]
  | y :: r => if str_eqb (f_label x) (f_label y) then l
              else if lex_lt (f_label x) (f_label y) then x :: l else y :: insert_file x r
  end.
Definition dead_files (sn : snap) : list filer :=
  fold_right insert_file [] (flat_map (fun u => filter (dead_file sn) (blocking_files sn u)) (U sn)).
Fixpoint files_eqb (a : list filer) (b : list (str * N * bool)) : bool :=
  match a, b with
  | [], [] => true
  | f :: a', (l, s, d) :: b' => str_eqb (f_label f) l && (f_state f =? s) && Bool.eqb (f_detached f) d && files_eqb a' b'
  | _, _ => false
  end.

(* pend_resource: (name, units_needed = MAX over blocked requirements, units_available) by name *)
Fixpoint insert_res (x : str * N) (l : list (str * N)) : list (str * N) :=
  match l with
  | [] => [x]
  | y :: r => if str_eqb (fst x) (fst y) then (fst y, N.max (snd x) (snd y)) :: r
              else if lex_lt (fst x) (fst y) then x :: l else y :: insert_res x r
  end.
Definition unsat_resources (sn : snap) : list (str * N * option N) :=
  map (fun r => (fst r, snd r, lookup_str (fst r) (sn_avail sn)))
      (fold_right insert_res [] (flat_map (unsat_reqs sn) (U sn))).
Definition oN_eqb (a b : option N) : bool :=
  match a, b with Some x, Some y => x =? y | None, None => true | _, _ => false end.
Fixpoint res_eqb (a b : list (str * N * option N)) : bool :=
  match a, b with
  | [], [] => true
  | (n1, u1, a1) :: a', (n2, u2, a2) :: b' => str_eqb n1 n2 && (u1 =? u2) && oN_eqb a1 a2 && res_eqb a' b'
  | _, _ => false
  end.

(* Exact transitive counts (_exact_counts): closure over the full step->step blocking relation. *)
Definition step_block_succ (sn : snap) (i : N) : list N :=
  (* steps of U that i blocks: i is a BLOCK_STEP candidate of them *)
  map s_id (filter (fun u => existsb (fun c => (c_kind c =? K_BLOCK_STEP) && (c_src c =? i)) (cands sn u)) (U sn)).
Definition addN (x : N) (l : list N) : list N := if memN x l then l else x :: l.
Fixpoint closure (sn : snap) (fuel : nat) (seen front : list N) : list N :=
  match fuel with
  | O => seen
  | S k =>
    let new := fold_right addN [] (filter (fun y => negb (memN y seen)) (flat_map (step_block_succ sn) front)) in
    match new with
    | [] => seen
    | _ => closure sn k (new ++ seen) new
    end
  end.
Definition exact_count (sn : snap) (is_root_of : stepr -> bool) : N :=
  let s0 := map s_id (filter is_root_of (U sn)) in
  N.of_nat (length (closure sn (S (length (U sn))) s0 s0)).
Definition exact_file (sn : snap) (fid : N) : N :=
  exact_count sn (fun u => existsb (fun f => (f_id f =? fid) && dead_file sn f) (blocking_files sn u)).
Definition exact_resource (sn : snap) (name : str) : N :=
  exact_count sn (fun u => existsb (fun r => str_eqb (fst r) name) (unsat_reqs sn u)).

(* ------------------------------------------------------------------------------------------ *)
(* Executable checks used by the harness to look for a counterexample inside Coq when a lemma  *)
(* about the translated clauses no longer holds (proofs/PendingGenSpec.v)                       *)
(* ------------------------------------------------------------------------------------------ *)

Definition fb_sweep : list (N * (bool * (bool * bool))) :=
  flat_map (fun st => flat_map (fun det => flat_map (fun dyn => map (fun defr => (st, (det, (dyn, defr))))
    [false; true]) [false; true]) [false; true])
    [0; FS_UNDECLARED; FS_UNCONFIRMED; FS_MISSING; FS_CONFIRMED; FS_PLANNED; FS_BUILT; FS_OUTDATED; FS_VOLATILE; 99].
(* inputs dispatch refuses that _INSERT_PEND_FILE_BLOCK does not list (file_block_complete) *)
Definition fb_gap_complete : list (N * (bool * (bool * bool))) :=
  filter (fun t => let '(st, (det, (dyn, defr))) := t in
            unavailable_input st det dyn && negb (sholds (fb_env_raw st det dyn defr false) gen_file_block_where))
         fb_sweep.
(* rows of _INSERT_PEND_FILE_BLOCK that are neither refused by dispatch nor unbuilt dynamic inputs
   of a deferred step (file_block_sound) *)
Definition fb_gap_sound : list (N * (bool * (bool * bool))) :=
  filter (fun t => let '(st, (det, (dyn, defr))) := t in
            sholds (fb_env_raw st det dyn defr false) gen_file_block_where
            && negb (unavailable_input st det dyn
                     || (defr && dyn && negb (st =? FS_CONFIRMED) && negb (st =? FS_BUILT))))
         fb_sweep.
Fixpoint cands_eqb (a b : list cand) : bool :=
  match a, b with
  | [], [] => true
  | x :: a', y :: b' => cand_eqb x y && cands_eqb a' b'
  | _, _ => false
  end.
(* the steps of U on which the translated arms and the hand-written relation differ (cands_is_spec) *)
Definition cands_disagree (sn : snap) : list N :=
  map s_id (filter (fun u => negb (cands_eqb (cands sn u) (cands_spec sn u))) (U sn)).
(* the same for the universe itself and the safety column *)
Definition universe_disagree (sn : snap) : list N :=
  map s_id (filter (fun s => negb (Bool.eqb (in_U sn s)
      ((s_state s =? SS_PENDING) && (sn_threshold sn <? s_ineed s) && negb (s_detached s)))
    || negb (Bool.eqb (in_ntotal sn s) (in_U sn s))
    || negb (Bool.eqb (s_unsafe s) (negb (s_safe s || (s_has_hash s && s_safe_nh s))))) (sn_steps sn)).
