(* C20 model: what "designates the same file" means, the environment a step runs in, and the
   composite operations of api.py, all on top of the functions generated from path.py
   (gen/GenPath.v).  Definitions only. *)
From Coq Require Import List NArith Bool.
From SV Require Import lib.Bytes lib.PosixPath gen.GenPath.
Import ListNotations.
Open Scope N_scope.

Definition k_STEPUP_ROOT : str := [83;84;69;80;85;80;95;82;79;79;84].
Definition k_HERE : str := [72;69;82;69].
Definition s_dotslash : str := [46;47].
Definition s_slash : str := [47].

(* The environment of a process that calls the API: STEPUP_ROOT and HERE are set. *)
Definition mkenv (root here : str) : environ := [(k_STEPUP_ROOT, root); (k_HERE, here)].

(* A project root as the director exports it (str(Path.cwd())): absolute and normalised. *)
Definition wf_root (root : str) : bool := abs_normalized root.

(* The directory relative to which the caller of translate(path, workdir) means `path`:
   root / HERE / workdir, resolved lexically. *)
Definition caller_dir (root here wd : str) : str := resolve (resolve root here) wd.

(* Executor._run_command: the director runs in [root]; a step with stored working directory [wd]
   is launched with cwd = root/wd and the environment below (STEPUP_ROOT comes from infra_env). *)
Definition step_cwd (root wd : str) : str := resolve root wd.
Definition step_HERE (root wd : str) : str := exec_HERE root [] wd.
Definition step_ROOT (root wd : str) : str := exec_ROOT root [] wd.
Definition step_env (root wd : str) : environ := mkenv root (step_HERE root wd).

(* api.py call shapes *)
Definition api_translate (cwd : str) (env : environ) (p : str) : str :=
  translate cwd env p translate_default_workdir.
Definition api_translate_back (cwd : str) (env : environ) (p : str) : str :=
  translate_back cwd env p translate_back_default_workdir.
Definition keep_translate (cwd : str) (env : environ) (p : str) : pyres str :=
  keep_affixes p (api_translate cwd env).
Definition keep_translate_back (cwd : str) (env : environ) (p : str) : pyres str :=
  keep_affixes p (api_translate_back cwd env).
Definition keep_normpath (p : str) : pyres str := keep_affixes p normpath.

(* Explicit characterisation of apply_affixes, raising cases included. *)
Definition apply_affixes_spec (q l t : str) : pyres str :=
  if negb (str_eqb l []) && negb (str_eqb l s_dotslash) then Raise 1
  else if negb (str_eqb l []) && (starts_with q s_slash || starts_with q s_dotslash) then Raise 2
  else if negb (str_eqb t []) && negb (str_eqb t s_slash) then Raise 3
  else if negb (str_eqb t []) && ends_with (l ++ q) s_slash then Raise 4
  else Ok (l ++ q ++ t).

(* translate() as it was before repo commit 5ab2cfe (finding D11): with an absolute working
   directory the joined path was returned without normalisation.  Kept (hand-written) so that the
   refutation of that variant stays machine-checked and a regression is explained by the search. *)
Definition translate_pre_D11 (cwd : str) (env : environ) (path workdir : str) : str :=
  let path := normpath path in
  if negb (isabs path) then
    let workdir := normpath workdir in
    let path := join2 workdir path in
    if negb (isabs workdir) then
      let root := get_stepup_root cwd env in
      let here := getenv env k_HERE (plib_relpath cwd s_dot root) in
      plib_relpath cwd (normpath (join2 (join2 root here) path)) root
    else path
  else path.

(* A relative normalised path that does not leave its base directory (no leading ".."). *)
Definition inside_normalized (q : str) : bool := rel_normalized q && forallb name (norm_comps q).

Definition res_eqb (a b : pyres str) : bool :=
  match a, b with
  | Ok x, Ok y => str_eqb x y
  | Raise n, Raise m => Nat.eqb n m
  | _, _ => false
  end.
Definition pair_eqb (a b : str * str) : bool := str_eqb (fst a) (fst b) && str_eqb (snd a) (snd b).

(* ---------- `stepup build TARGET`: tui._normalize_targets and its call site ---------- *)
(* One raw target when os.getcwd() is `seen`: Path(raw).absolute().relpath(root).normpath()
   (the trailing separator of a directory target is re-attached and does not change the file). *)
Definition normalize_target (seen root raw : str) : str :=
  normpath (plib_relpath seen (abspath seen raw) root).
(* The working directory _normalize_targets sees at its call sites: the directory the command was typed
   in while no call site comes after a `cd`, the project root (where _async_build changes to) otherwise.
   targets_normalized_in_user_cwd is generated from tui.py. *)
Definition seen_cwd (user_cwd root : str) : str :=
  if targets_normalized_in_user_cwd then user_cwd else root.
Definition cli_target (user_cwd root raw : str) : str := normalize_target (seen_cwd user_cwd root) root raw.

(* ---------- paths the director hands back to a step over RPC (api.get_info) ---------- *)
(* what api.py does to a root-relative path q of an RPC result field, by the mapping found in the source;
   an unrecognised mapping is modelled as "handed on as it is" *)
Definition back_apply (m : back_map) (cwd : str) (env : environ) (q : str) : str :=
  match m with
  | BackTranslate => translate_back cwd env q translate_back_default_workdir
  | BackUnknown => q
  end.
Definition is_back_translate (m : back_map) : bool := match m with BackTranslate => true | BackUnknown => false end.

(* ---------- api.amend: the history of what was amended before (step-side state) ---------- *)
(* The history holds what the generated HWrite statements put there for the earlier requests; a new request p is
   dropped before it reaches the director when one of the generated HRead statements finds it in the history,
   each comparing p in the frame the source gives it: translated (root-relative) or raw (as the step wrote it). *)
Definition in_frame (f : frame) (cwd : str) (env : environ) (p : str) : option str :=
  match f with
  | FTranslated => Some (translate cwd env p translate_default_workdir)
  | FRaw => Some p
  | FNotPath => None
  end.
Definition str_in (x : str) (l : list str) : bool := existsb (str_eqb x) l.
Definition frames_of (op : hist_op) : list frame :=
  flat_map (fun u => match fst (snd u), op with
                     | HRead, HRead | HWrite, HWrite => match snd (snd u) with FNotPath => [] | f => [f] end
                     | _, _ => [] end) amend_history_uses.
Definition nodup_frames (l : list frame) : list frame :=
  (if existsb (fun f => match f with FTranslated => true | _ => false end) l then [FTranslated] else [])
  ++ (if existsb (fun f => match f with FRaw => true | _ => false end) l then [FRaw] else []).
Definition amend_history (cwd : str) (env : environ) (earlier : list str) : list str :=
  flat_map (fun f => flat_map (fun p => match in_frame f cwd env p with Some q => [q] | None => [] end) earlier)
           (nodup_frames (frames_of HWrite)).
Definition amend_dropped (cwd : str) (env : environ) (earlier : list str) (p : str) : bool :=
  existsb (fun f => match in_frame f cwd env p with
                    | Some q => str_in q (amend_history cwd env earlier)
                    | None => false end) (nodup_frames (frames_of HRead)).
(* both sides of every comparison with / addition to the history are root-relative *)
Definition amend_frames_ok : bool :=
  forallb (fun u => match snd (snd u) with FRaw => false | _ => true end) amend_history_uses.
