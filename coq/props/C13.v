(* C13 Change detection by hashes is sound.
   Property theorems only; proofs live in proofs/HashProofs.v, the model in model/Hash.v, the
   word sequences, marker bytes and widths in gen/GenHash.v (regenerated from hash.py).

   inp_digest = SHA256 (inp_preimage c), out_digest = SHA256 (out_preimage m).  SHA-256 is not
   modelled; its collision resistance on the pre-images compared is an assumption.  The JSON
   save/load round trip is validated by the harness only (tested-only).

   Second part ("call sites"): the step from the configuration of a step as the system sees it
   (syscfg: command, working directory, shell flag, input files, tracked variable names, the
   director's environment and infra_env, overrides) to the ingredient maps that executor.py hands
   to StepHash.from_inp (site_inp_cfg / site_full_cfg, regenerated from executor.py, step.py into
   gen/GenHashSites.v) is inside the model.

   Third part ("skip decision", end to end): compute_inp_hashes / compute_out_hashes refreshing the
   recorded file hashes against the disk, the guard that keeps a changed / vanished / missing input
   away from from_inp, the two digest comparisons of Executor.try_skip_job (gen/GenHashSkip.v) and
   the stored form of the hashes (gen/GenHashJson.v: cattrs' JSON converter, Base85). *)
From Coq Require Import List NArith Bool Permutation.
From SV Require Import lib.Bytes lib.KeySort model.HashTypes gen.GenHash model.Hash proofs.HashProofs
  model.HashSiteTypes gen.GenHashSites model.HashSites proofs.HashSitesProofs
  model.HashSkipTypes gen.GenHashSkip model.HashSkip proofs.HashSkipProofs
  lib.Base85 model.HashJsonTypes gen.GenHashJson model.HashJson proofs.HashJsonProofs.
Import ListNotations.
Open Scope N_scope.

(* ---------- the full statements (what the property asks for) ---------- *)
Definition C13_inp_full : Prop :=
  forall c1 c2, wf c1 = true -> wf c2 = true ->
    inp_preimage c1 = inp_preimage c2 -> cfg_equiv c1 c2.

Definition C13_out_full : Prop :=
  forall m1 m2, wf_files m1 = true -> wf_files m2 = true ->
    out_preimage m1 = out_preimage m2 -> Permutation m1 m2.

(* ---------- what is proved on the current code (both defects D2 and D2b are open known
   findings): the full statements under the extra hypotheses that exclude exactly the two
   ambiguities of the current encoding.
   digests_ok md m, for either way md of reading a digest word:
     md = Fixed:      no file hash of m is unknown   (always true for the inputs the executor passes
                                                      to from_inp; vacuous once unknown digests are
                                                      hashed as the missing-word marker)
     md = Lookahead:  no known digest of m starts with the bytes 75 00 01
   inp_ok md c = digests_ok md (inputs of c) && env_names_ok c (&& a static shape condition), with
     env_names_ok c:  no tracked environment variable is named like the str word
                      "__env_overrides__" that opens a non-empty override section (an override
                      VALUE equal to the keyword is allowed; vacuous once that word is a bytes word).
   ---------- *)
Theorem C13_inp_preimage_injective_partial :
  forall (md : dmode) (c1 c2 : cfg),
    wf c1 = true -> wf c2 = true -> inp_ok md c1 = true -> inp_ok md c2 = true ->
    inp_preimage c1 = inp_preimage c2 -> cfg_equiv c1 c2.
Proof. exact inp_preimage_injective. Qed.

Theorem C13_out_preimage_injective_partial :
  forall (md : dmode) (m1 m2 : list (str * fsig)),
    wf_files m1 = true -> wf_files m2 = true ->
    digests_ok md m1 = true -> digests_ok md m2 = true ->
    out_preimage m1 = out_preimage m2 -> Permutation m1 m2.
Proof. exact out_preimage_injective. Qed.

(* The way the injectivity is proved: a decoder that inverts the encoder up to the order of the
   supplied association lists. *)
Theorem C13_decode_inp_inverts_encode :
  forall (md : dmode) (c : cfg),
    wf c = true -> inp_ok md c = true -> decode_inp md (inp_preimage c) = Some (canon c).
Proof. exact decode_inp_ok. Qed.

Theorem C13_decode_out_inverts_encode :
  forall (md : dmode) (m : list (str * fsig)),
    wf_files m = true -> digests_ok md m = true ->
    decode_out md (out_preimage m) = Some (sort_keys m).
Proof. exact decode_out_ok. Qed.

(* The full statements follow for the generated word sequences as soon as the shape conditions
   hold; both are computed from gen/GenHash.v.  On the current code unknown_as_none = false and
   kw_ovr_is_str = true (see the refutations below).  On a tree repaired by
   findings.d/C13-D2.patch and findings.d/C13-D2b.patch (or C13-D2b-alt.patch) they evaluate to
   true / false and "C13_inp_preimage_injective : C13_inp_full" closes with the proof term
   (C13_inp_full_when_repaired eq_refl eq_refl), "C13_out_preimage_injective : C13_out_full" with
   (C13_out_full_when_repaired eq_refl); the harness compiles these two terms on every run and
   records whether they close (evidence: full_statements_close). *)
Theorem C13_inp_full_when_repaired :
  unknown_as_none = true -> kw_ovr_is_str = false -> C13_inp_full.
Proof. exact inp_preimage_injective_when_repaired. Qed.

Theorem C13_out_full_when_repaired : unknown_as_none = true -> C13_out_full.
Proof. exact out_preimage_injective_when_repaired. Qed.

(* with D2 repaired only, the input digest needs env_names_ok and nothing else *)
Theorem C13_inp_partial_env_only_when_D2_repaired :
  unknown_as_none = true ->
  forall c1 c2 : cfg,
    wf c1 = true -> wf c2 = true -> env_names_ok c1 = true -> env_names_ok c2 = true ->
    inp_preimage c1 = inp_preimage c2 -> cfg_equiv c1 c2.
Proof. exact inp_preimage_injective_env_when_d2_repaired. Qed.

(* ---------- the digests do not depend on the order in which ingredients are supplied ---------- *)
Theorem C13_inp_order_independent :
  forall c1 c2 : cfg,
    nodup_keys (cfg_inps c1) = true -> nodup_keys (cfg_envs c1) = true ->
    nodup_keys (cfg_ovrs c1) = true ->
    cfg_equiv c1 c2 -> inp_preimage c1 = inp_preimage c2.
Proof. exact inp_order_independent. Qed.

Theorem C13_out_order_independent :
  forall m1 m2 : list (str * fsig),
    nodup_keys m1 = true -> Permutation m1 m2 -> out_preimage m1 = out_preimage m2.
Proof. exact out_order_independent. Qed.

(* cfg_equiv says "same finite maps": equal lookups for every key. For the environment map
   lookup gives None (not tracked), Some None (tracked, not defined) or Some (Some value). *)
Theorem C13_cfg_equiv_same_finite_maps :
  forall c1 c2 : cfg,
    nodup_keys (cfg_inps c1) = true -> nodup_keys (cfg_envs c1) = true ->
    nodup_keys (cfg_ovrs c1) = true -> cfg_equiv c1 c2 ->
    cfg_label c1 = cfg_label c2 /\ cfg_shell c1 = cfg_shell c2 /\
    forall k, lookup k (cfg_inps c1) = lookup k (cfg_inps c2)
              /\ lookup k (cfg_envs c1) = lookup k (cfg_envs c2)
              /\ lookup k (cfg_ovrs c1) = lookup k (cfg_ovrs c2).
Proof. exact cfg_equiv_same_maps. Qed.

(* ---------- refutations of the full statements on the current encoding.  The premises are
   computed from gen/GenHash.v and hold today (the harness records unknown_as_none = false,
   kw_ovr_is_str = true and replays the witnesses on the real functions); they are stated as
   premises so that this file still compiles once a defect is repaired. ---------- *)
(* D2 (open): an unknown digest is hashed as the one-byte bytes word b"u". *)
Theorem C13_out_full_refuted :
  unknown_as_none = false ->
  exists m1 m2, wf_files m1 = true /\ wf_files m2 = true /\ ~ Permutation m1 m2
                /\ out_preimage m1 = out_preimage m2.
Proof. exact out_preimage_injective_refuted. Qed.

Theorem C13_inp_full_refuted_unknown_digest :
  unknown_as_none = false ->
  exists c1 c2, wf c1 = true /\ wf c2 = true /\ env_names_ok c1 = true /\ env_names_ok c2 = true
                /\ ~ cfg_equiv c1 c2 /\ inp_preimage c1 = inp_preimage c2.
Proof. exact inp_preimage_injective_refuted_unknown. Qed.

(* D2b (open): the override section is opened by the ordinary str word "__env_overrides__".
   The premise holds on the current tree (kw3_of in gen/GenHash.v is the constant str word; the
   harness records kw_ovr_is_str and replays the witness on the real from_inp), so C13_inp_full
   is false today.  It is stated as a premise so that this file still compiles once D2b is
   repaired. *)
Theorem C13_inp_full_refuted_section_keyword :
  (forall nonempty_overrides : bool, kw_ovr_of nonempty_overrides = WStr d2b_K) ->
  exists c1 c2, wf c1 = true /\ wf c2 = true
                /\ digests_ok Fixed (cfg_inps c1) = true /\ digests_ok Fixed (cfg_inps c2) = true
                /\ ~ cfg_equiv c1 c2 /\ inp_preimage c1 = inp_preimage c2.
Proof. exact inp_preimage_injective_refuted_keyword. Qed.

(* ---------- FileHash.refreshed (H is SHA-256 of the file content) ---------- *)
Theorem C13_refreshed_detects :
  forall (H : str -> str) (old : fhash) (st : fstat) (data : str),
    (fh_mode old <> st_mode st \/ fh_mtime old <> st_mtime st \/ fh_size old <> st_size st
     \/ fh_inode old <> st_ino st) ->
    refreshed H old (Some (st, data))
    = mk_fhash (H data) (st_mode st) (st_mtime st) (st_size st) (st_ino st).
Proof. exact refreshed_detects. Qed.

Theorem C13_refreshed_reports_change :
  forall (H : str -> str) (old : fhash) (st : fstat) (data : str),
    (fh_mode old <> st_mode st \/ fh_mtime old <> st_mtime st \/ fh_size old <> st_size st
     \/ fh_inode old <> st_ino st) ->
    fh_eqb (refreshed H old (Some (st, data))) old
    = str_eqb (H data) (fh_digest old) && (st_mode st =? fh_mode old) && (st_size st =? fh_size old).
Proof. exact refreshed_reports_change. Qed.

(* The case in which the old hash is returned for a present file: mode, mtime, size and inode
   are all the recorded ones; the content is then not read. *)
Theorem C13_refreshed_returns_old_when_stat_same :
  forall (H : str -> str) (old : fhash) (st : fstat) (data : str),
    stat_same old st = true -> refreshed H old (Some (st, data)) = old.
Proof. exact refreshed_returns_old_iff_stat_same. Qed.

Theorem C13_refreshed_missing_file :
  forall (H : str -> str) (old : fhash),
    refreshed H old None = (if fh_is_unknown old then old else fh_unknown)
    /\ fh_is_unknown (refreshed H old None) = true.
Proof. exact refreshed_missing. Qed.

(* ---------- call sites: configurations of a step as the system sees them ----------
   sys_equiv s1 s2: same command, same working directory, same shell flag, same input files
   (path, content digest, mode, size), same set of tracked variables, every tracked variable has
   the same value or is undefined in both (effective_env: what the command of the step would see;
   None = not defined, Some [] = defined and empty), same overrides.
   sys_wf: NUL-free strings, the command accepted by Step.adjust_label, duplicate-free maps. *)
Definition C13_site_inp_full : Prop :=
  forall s1 s2 : syscfg, sys_wf s1 = true -> sys_wf s2 = true ->
    inp_preimage (site_inp_cfg s1) = inp_preimage (site_inp_cfg s2) -> sys_equiv s1 s2.

(* the ingredient maps built by the call site determine the system-level configuration *)
Theorem C13_site_cfg_injective :
  forall s1 s2 : syscfg, sys_wf s1 = true -> sys_wf s2 = true ->
    cfg_equiv (site_inp_cfg s1) (site_inp_cfg s2) -> sys_equiv s1 s2.
Proof. exact site_cfg_injective. Qed.

Theorem C13_site_cfg_wf : forall s : syscfg, sys_wf s = true -> wf (site_inp_cfg s) = true.
Proof. exact site_wf. Qed.

(* the label carries command and working directory (Step.adjust_label refuses a command that
   contains the marker "  # wd=") *)
Theorem C13_label_determines_command_and_workdir :
  forall c1 w1 c2 w2 : str,
    label_rejected c1 = false -> label_rejected c2 = false ->
    adjust_label c1 w1 = adjust_label c2 w2 -> c1 = c2 /\ w1 = w2.
Proof. exact adjust_label_inj. Qed.

(* composed with the injectivity of the pre-image: system-level configurations that share an
   input digest pre-image are the same configuration.  Partial for the same reason as
   C13_inp_preimage_injective_partial (inp_ok: D2). *)
Theorem C13_site_inp_injective_partial :
  forall (md : dmode) (s1 s2 : syscfg),
    sys_wf s1 = true -> sys_wf s2 = true ->
    inp_ok md (site_inp_cfg s1) = true -> inp_ok md (site_inp_cfg s2) = true ->
    inp_preimage (site_inp_cfg s1) = inp_preimage (site_inp_cfg s2) -> sys_equiv s1 s2.
Proof. exact site_inp_injective. Qed.

(* the second call site (after the command ran) and the comparison across the two sites *)
Theorem C13_site_full_injective_partial :
  forall (md : dmode) (s1 s2 : syscfg),
    sys_wf s1 = true -> sys_wf s2 = true ->
    inp_ok md (site_full_cfg s1) = true -> inp_ok md (site_full_cfg s2) = true ->
    inp_preimage (site_full_cfg s1) = inp_preimage (site_full_cfg s2) -> sys_equiv s1 s2.
Proof. exact site_full_injective. Qed.

Theorem C13_site_inp_vs_full_injective_partial :
  forall (md : dmode) (s1 s2 : syscfg),
    sys_wf s1 = true -> sys_wf s2 = true ->
    inp_ok md (site_inp_cfg s1) = true -> inp_ok md (site_full_cfg s2) = true ->
    inp_preimage (site_inp_cfg s1) = inp_preimage (site_full_cfg s2) -> sys_equiv s1 s2.
Proof. exact site_inp_full_injective. Qed.

(* With the override section opened by a bytes word (kw_ovr_is_str = false: holds today, computed
   from gen/GenHash.v and recorded by the harness) the only hypothesis left is one the executor
   guarantees: the inputs whose hashes reach from_inp exist (sys_inputs_known). *)
Theorem C13_site_inp_injective_known_inputs :
  kw_ovr_is_str = false ->
  forall s1 s2 : syscfg,
    sys_wf s1 = true -> sys_wf s2 = true ->
    sys_inputs_known s1 = true -> sys_inputs_known s2 = true ->
    inp_preimage (site_inp_cfg s1) = inp_preimage (site_inp_cfg s2) -> sys_equiv s1 s2.
Proof. intros K s1 s2. exact (site_inp_injective_known s1 s2 K). Qed.

(* the converse: the same system-level configuration always gets the same pre-image *)
Theorem C13_site_inp_order_independent :
  forall s1 s2 : syscfg, sys_wf s1 = true -> sys_equiv s1 s2 ->
    inp_preimage (site_inp_cfg s1) = inp_preimage (site_inp_cfg s2).
Proof. exact site_inp_order_independent. Qed.

Theorem C13_site_out_injective_partial :
  forall (md : dmode) (s1 s2 : syscfg),
    wf_files (sys_outs s1) = true -> wf_files (sys_outs s2) = true ->
    digests_ok md (sys_outs s1) = true -> digests_ok md (sys_outs s2) = true ->
    out_preimage (site_out_outs s1) = out_preimage (site_out_outs s2) -> sys_out_equiv s1 s2.
Proof. exact site_out_injective. Qed.

(* the clauses of the property text, one ingredient at a time *)
Theorem C13_site_differ_command :
  forall (md : dmode) (s1 s2 : syscfg),
    sys_wf s1 = true -> sys_wf s2 = true ->
    inp_ok md (site_inp_cfg s1) = true -> inp_ok md (site_inp_cfg s2) = true ->
    sys_command s1 <> sys_command s2 ->
    inp_preimage (site_inp_cfg s1) <> inp_preimage (site_inp_cfg s2).
Proof. exact differ_command. Qed.

Theorem C13_site_differ_workdir :
  forall (md : dmode) (s1 s2 : syscfg),
    sys_wf s1 = true -> sys_wf s2 = true ->
    inp_ok md (site_inp_cfg s1) = true -> inp_ok md (site_inp_cfg s2) = true ->
    sys_workdir s1 <> sys_workdir s2 ->
    inp_preimage (site_inp_cfg s1) <> inp_preimage (site_inp_cfg s2).
Proof. exact differ_workdir. Qed.

Theorem C13_site_differ_shell :
  forall (md : dmode) (s1 s2 : syscfg),
    sys_wf s1 = true -> sys_wf s2 = true ->
    inp_ok md (site_inp_cfg s1) = true -> inp_ok md (site_inp_cfg s2) = true ->
    sys_shell s1 <> sys_shell s2 ->
    inp_preimage (site_inp_cfg s1) <> inp_preimage (site_inp_cfg s2).
Proof. exact differ_shell. Qed.

Theorem C13_site_differ_inputs :
  forall (md : dmode) (s1 s2 : syscfg),
    sys_wf s1 = true -> sys_wf s2 = true ->
    inp_ok md (site_inp_cfg s1) = true -> inp_ok md (site_inp_cfg s2) = true ->
    ~ Permutation (sys_inps s1) (sys_inps s2) ->
    inp_preimage (site_inp_cfg s1) <> inp_preimage (site_inp_cfg s2).
Proof. exact differ_inputs. Qed.

Theorem C13_site_differ_tracked_set :
  forall (md : dmode) (s1 s2 : syscfg),
    sys_wf s1 = true -> sys_wf s2 = true ->
    inp_ok md (site_inp_cfg s1) = true -> inp_ok md (site_inp_cfg s2) = true ->
    ~ Permutation (sys_env_deps s1) (sys_env_deps s2) ->
    inp_preimage (site_inp_cfg s1) <> inp_preimage (site_inp_cfg s2).
Proof. exact differ_tracked_set. Qed.

(* value or definedness of a tracked variable *)
Theorem C13_site_differ_env_value_or_definedness :
  forall (md : dmode) (s1 s2 : syscfg),
    sys_wf s1 = true -> sys_wf s2 = true ->
    inp_ok md (site_inp_cfg s1) = true -> inp_ok md (site_inp_cfg s2) = true ->
    forall name : str,
      In name (sys_env_deps s1) -> effective_env s1 name <> effective_env s2 name ->
      inp_preimage (site_inp_cfg s1) <> inp_preimage (site_inp_cfg s2).
Proof. exact differ_env. Qed.

Theorem C13_site_differ_overrides :
  forall (md : dmode) (s1 s2 : syscfg),
    sys_wf s1 = true -> sys_wf s2 = true ->
    inp_ok md (site_inp_cfg s1) = true -> inp_ok md (site_inp_cfg s2) = true ->
    ~ Permutation (sys_ovrs s1) (sys_ovrs s2) ->
    inp_preimage (site_inp_cfg s1) <> inp_preimage (site_inp_cfg s2).
Proof. exact differ_overrides. Qed.

(* ---------- the skip decision, end to end (H is SHA-256) ----------
   full_step_hash: what Executor._compute_full_step_hash records after the command of the step ran
   (the configuration rs it was computed from: ingredients s0, recorded file hashes io0 / oo0
   refreshed against the disk d0); try_skip: Executor.try_skip_job on the recorded hash, the
   ingredients s, the recorded file hashes io / oo and the disk d now.
   The input map that reaches StepHash.from_inp is the recorded one and holds no unknown hash
   (a changed, vanished or missing input is a message or a ConsistencyError): the hypothesis
   sys_inputs_known of C13_site_inp_injective_known_inputs is discharged. *)
Theorem C13_inputs_reaching_from_inp_are_recorded_and_known :
  forall (H : str -> str) (d : disk) (olds : list (str * fhash)) (inps : list (str * fsig)),
    observed_inps H d olds = Some inps ->
    inps = sigs (sort_keys olds)
    /\ forallb (fun e => negb (fs_is_unknown (snd e))) inps = true.
Proof. exact observed_inps_recorded_and_known. Qed.

(* inp_unchanged H d e: FileHash.refreshed returns (does not raise) a hash that compares equal to
   the recorded one.  Anything else -- changed, vanished, never present, or no longer hashable --
   keeps the step away from from_inp. *)
Theorem C13_changed_input_never_reaches_from_inp :
  forall (H : str -> str) (d : disk) (olds : list (str * fhash)) (e : str * fhash),
    In e (sort_keys olds) -> inp_unchanged H d e = false -> observed_inps H d olds = None.
Proof. exact changed_input_is_reported. Qed.

(* an input that was replaced by a directory or lost its read permission (os.stat works, hashing
   raises) never reaches from_inp as unchanged, unless all four stat fields are the recorded ones
   (then refreshed does not touch the content at all) *)
Theorem C13_unreadable_input_never_reaches_from_inp :
  forall (H : str -> str) (d : disk) (olds : list (str * fhash)) (e : str * fhash) (st : fstat),
    In e (sort_keys olds) -> d (fst e) = DUnreadable st -> refreshed_same (snd e) st = false ->
    observed_inps H d olds = None.
Proof. exact unreadable_input_is_reported. Qed.

(* The full statement for the skip decision: "unchanged" only for the recorded configuration,
   modulo SHA-256 collisions on the two pairs of pre-images compared.  False today for the output
   part (D2, C13_out_full_refuted). *)
Definition C13_skip_full : Prop :=
  forall (H : str -> str) (s0 : syscfg) (d0 : disk) (io0 oo0 : list (str * fhash)) (rec : shash) (rs : syscfg),
    full_step_hash H s0 d0 io0 oo0 = Some (rec, rs) ->
    forall (s : syscfg) (d : disk) (io oo : list (str * fhash)) (h : shash),
      try_skip H rec s d io oo = Some (true, h) ->
      forall inps outs, observed_inps H d io = Some inps -> observed_outs H d oo = Some outs ->
      let now := with_outs (with_inps s inps) outs in
      sys_wf rs = true -> sys_wf now = true ->
      wf_files (sys_outs rs) = true -> wf_files (sys_outs now) = true ->
      no_collision H (inp_preimage (site_inp_cfg rs)) (inp_preimage (site_inp_cfg now)) ->
      no_collision H (out_preimage (sys_outs rs)) (out_preimage (sys_outs now)) ->
      sys_equiv rs now /\ sys_out_equiv rs now.

(* D2 (open) at the level of the skip decision: with SHA-256 replaced by the identity (no collision
   at all), one step with the outputs a and b -- recorded: a missing, b present; now: a present, b
   missing, contents chosen so that both output pre-images are the same bytes -- is skipped.
   skip_counterexample spells out every premise of C13_skip_full and ~ Permutation of the outputs. *)
Theorem C13_skip_full_refuted : unknown_as_none = false -> skip_counterexample.
Proof. exact skip_full_refuted. Qed.

Theorem C13_skip_full_is_false : unknown_as_none = false -> ~ C13_skip_full.
Proof. exact skip_full_is_false. Qed.

(* Proved: the same with the residue of D2 for the OUTPUT digest (no content digest of an output,
   recorded or current, starts with the bytes 75 00 01).  The INPUT part needs no extra hypothesis:
   label (command, working directory), shell flag, every input's (digest, mode, size), the set of
   tracked variables and the definedness + value of each, and every override are the recorded
   ones.  kw_ovr_is_str = false is computed from gen/GenHash.v (holds today: eq_refl, see the
   Example below). *)
Theorem C13_skip_unchanged_sound_partial :
  kw_ovr_is_str = false ->
  forall (H : str -> str) (s0 : syscfg) (d0 : disk) (io0 oo0 : list (str * fhash)) (rec : shash) (rs : syscfg),
    full_step_hash H s0 d0 io0 oo0 = Some (rec, rs) ->
    forall (s : syscfg) (d : disk) (io oo : list (str * fhash)) (h : shash),
      try_skip H rec s d io oo = Some (true, h) ->
      forall inps outs, observed_inps H d io = Some inps -> observed_outs H d oo = Some outs ->
      let now := with_outs (with_inps s inps) outs in
      sys_wf rs = true -> sys_wf now = true ->
      wf_files (sys_outs rs) = true -> wf_files (sys_outs now) = true ->
      digests_ok Lookahead (sys_outs rs) = true -> digests_ok Lookahead (sys_outs now) = true ->
      no_collision H (inp_preimage (site_inp_cfg rs)) (inp_preimage (site_inp_cfg now)) ->
      no_collision H (out_preimage (sys_outs rs)) (out_preimage (sys_outs now)) ->
      sys_equiv rs now /\ sys_out_equiv rs now /\ h = rec.
Proof. intros K H. exact (try_skip_unchanged_sound H K). Qed.

(* the input half alone is full: no hypothesis about digests *)
Theorem C13_skip_inputs_sound :
  kw_ovr_is_str = false ->
  forall (H : str -> str) (s0 : syscfg) (d0 : disk) (io0 oo0 : list (str * fhash)) (rec : shash) (rs : syscfg),
    full_step_hash H s0 d0 io0 oo0 = Some (rec, rs) ->
    forall (s : syscfg) (d : disk) (io oo : list (str * fhash)) (b : bool) (h : shash) inps,
      observed_inps H d io = Some inps ->
      try_skip H rec s d io oo = Some (b, h) ->
      sh_inp h = sh_inp rec ->
      sys_wf rs = true -> sys_wf (with_inps s inps) = true ->
      no_collision H (inp_preimage (site_inp_cfg rs)) (inp_preimage (site_inp_cfg (with_inps s inps))) ->
      sys_equiv rs (with_inps s inps).
Proof. intros K H. exact (try_skip_inputs_sound H K). Qed.

(* conversely an unchanged configuration is skipped, whatever the supply order *)
Theorem C13_skip_unchanged_complete :
  forall (H : str -> str) (s0 : syscfg) (d0 : disk) (io0 oo0 : list (str * fhash)) (rec : shash) (rs : syscfg),
    full_step_hash H s0 d0 io0 oo0 = Some (rec, rs) ->
    forall (s : syscfg) (d : disk) (io oo : list (str * fhash)) inps outs,
      observed_inps H d io = Some inps -> observed_outs H d oo = Some outs ->
      let now := with_outs (with_inps s inps) outs in
      sys_wf rs = true -> nodup_keys (sys_outs rs) = true ->
      sys_equiv rs now -> sys_out_equiv rs now ->
      try_skip H rec s d io oo = Some (true, rec).
Proof. exact try_skip_unchanged_complete. Qed.

(* ---------- stored hashes survive a save and a load ----------
   FileHash.to_json / from_json and StepHash.to_json / from_json through cattrs' JSON converter
   (bytes as Base85, field names and order generated from the attrs classes); the text layer
   json.dumps / json.loads is exercised by the harness.  digest_json_ok: a digest is a byte string
   (elements below 256), of any length; fh_canonical: an unknown hash
   is FileHash.unknown() (to_json stores NULL for it). *)
Theorem C13_base85_round_trip :
  forall (alphabet : str) (n : nat) (b : str),
    alphabet_ok alphabet = true -> length b = (4 * n)%nat -> is_bytes b = true ->
    b85_decode alphabet (b85_encode alphabet b) = Some b.
Proof. exact b85_round_trip. Qed.

(* any length: a last group of 1-3 bytes is padded with zero bytes, its digits cut, and read back
   with the digit 84 as padding *)
Theorem C13_base85_round_trip_any_length :
  forall (alphabet : str) (b : str),
    alphabet_ok alphabet = true -> is_bytes b = true ->
    b85_decode alphabet (b85_encode alphabet b) = Some b.
Proof. exact b85_round_trip_all. Qed.

Theorem C13_filehash_json_round_trip :
  forall h : fhash, fh_json_ok h = true -> fh_canonical h = true -> fh_from_json (fh_to_json h) = Some h.
Proof. exact fh_json_round_trip. Qed.

Theorem C13_stephash_json_round_trip :
  forall x : stephash, sx_json_ok x = true -> sx_from_json (Some (sx_to_json x)) = Some (Some x).
Proof. exact sx_json_round_trip. Qed.

(* ... so the digests try_skip_job compares are the recorded ones *)
Theorem C13_stored_digests_survive :
  forall x y : stephash,
    sx_json_ok x = true -> sx_from_json (Some (sx_to_json x)) = Some (Some y) -> shash_of y = shash_of x.
Proof. exact stored_digests_survive. Qed.

(* ---------- non-vacuity ---------- *)
(* label "é x  # wd=d/", shell, two inputs (non-ASCII path, one 32-byte digest with zero bytes
   and marker look-alikes inside, mode 0o100644, sizes up to 2^40), one defined and one undefined
   environment variable, one override: satisfies wf and both forms of the extra hypothesis. *)
Definition ex_digest1 : str :=
  [0;1;0;0;0;2;117;0;2;255;254;1;2;3;4;5;6;7;8;9;10;11;12;13;14;15;16;17;18;19;20;21].
Definition ex_digest2 : str :=
  [222;173;190;239;0;0;0;0;0;0;0;0;0;0;0;0;0;0;0;0;0;0;0;0;0;0;0;0;0;0;0;1].
Definition ex_cfg : cfg :=
  mk_cfg [195;169;32;120;32;32;35;32;119;100;61;100;47] true
         [ ([115;114;99;47;195;169;46;116;120;116], mk_fsig ex_digest1 33188 1099511627776);
           ([97;46;99], mk_fsig ex_digest2 33261 0) ]
         [ ([80;65;84;72], Some [47;98;105;110]); ([72;79;77;69], None) ]
         [ ([76;65;78;71], [67]) ].

Example C13_example_wf :
  wf ex_cfg = true /\ env_names_ok ex_cfg = true /\ inp_ok Fixed ex_cfg = true /\ inp_ok Lookahead ex_cfg = true
  /\ decode_inp Fixed (inp_preimage ex_cfg) = Some (canon ex_cfg)
  /\ decode_inp Lookahead (inp_preimage ex_cfg) = Some (canon ex_cfg)
  /\ decode_out Lookahead (out_preimage (cfg_inps ex_cfg)) = Some (sort_keys (cfg_inps ex_cfg)).
Proof. vm_compute. repeat split; reflexivity. Qed.

(* an output map with a missing output (unknown hash) satisfies the Lookahead hypothesis *)
Example C13_example_unknown_output :
  let m := [ ([111;117;116], mk_fsig unknown_digest 0 0); ([97], mk_fsig ex_digest1 33188 3) ] in
  wf_files m = true /\ digests_ok Lookahead m = true
  /\ decode_out Lookahead (out_preimage m) = Some (sort_keys m).
Proof. vm_compute. repeat split; reflexivity. Qed.

(* call sites: command `make x` in `sub/`, shell, one input, the tracked variables FLAGS (defined
   and EMPTY in the director's environment), HOME (not defined) and LANG (defined by infra_env,
   which wins over os.environ), one override.  ex_sys_unset differs only in FLAGS being undefined:
   the two are well-formed, satisfy the extra hypothesis, are not sys_equiv, and (by the theorem)
   do not share a pre-image. *)
Definition ex_sys (flags : list (str * str)) : syscfg :=
  mk_sys [109;97;107;101;32;120] [115;117;98;47] true
         [ ([97;46;99], mk_fsig ex_digest2 33261 0) ]
         [ [70;76;65;71;83]; [72;79;77;69]; [76;65;78;71] ]
         (flags ++ [ ([76;65;78;71], [67]); ([80;65;84;72], [47;98;105;110]) ])
         [ ([76;65;78;71], [101;110]) ]
         [ ([79;77;80], [52]) ]
         [ ([111;117;116], mk_fsig unknown_digest 0 0) ].
Definition ex_sys_empty : syscfg := ex_sys [ ([70;76;65;71;83], []) ].
Definition ex_sys_unset : syscfg := ex_sys [].

Example C13_example_site :
  sys_wf ex_sys_empty = true /\ sys_wf ex_sys_unset = true
  /\ sys_inputs_known ex_sys_empty = true /\ sys_inputs_known ex_sys_unset = true
  /\ inp_ok Fixed (site_inp_cfg ex_sys_empty) = true /\ inp_ok Fixed (site_inp_cfg ex_sys_unset) = true
  /\ effective_env ex_sys_empty [70;76;65;71;83] = Some []
  /\ effective_env ex_sys_unset [70;76;65;71;83] = None
  /\ effective_env ex_sys_empty [76;65;78;71] = Some [101;110]
  /\ cfg_envs (site_inp_cfg ex_sys_empty)
     = [ ([70;76;65;71;83], Some []); ([72;79;77;69], None); ([76;65;78;71], Some [101;110]) ]
  /\ cfg_label (site_inp_cfg ex_sys_empty) = [109;97;107;101;32;120;32;32;35;32;119;100;61;115;117;98;47].
Proof. vm_compute. repeat split; reflexivity. Qed.

Example C13_example_site_empty_vs_unset :
  inp_preimage (site_inp_cfg ex_sys_empty) <> inp_preimage (site_inp_cfg ex_sys_unset).
Proof.
  apply (C13_site_differ_env_value_or_definedness Fixed) with (name := [70;76;65;71;83]);
    try (vm_compute; reflexivity).
  - vm_compute. left. reflexivity.
  - vm_compute. discriminate.
Qed.

(* skip decision: the premise kw_ovr_is_str = false holds on the current tree, and the theorem is
   not vacuous: with H := the identity on pre-images (collision-free), a step recorded with the
   input a.c present and then checked again with the same disk is skipped; with FLAGS undefined
   instead of empty it is not; with the input gone or replaced by a directory the step fails early
   (compute_inp_hashes reports it in `messages`). *)
Example C13_example_premise : kw_ovr_is_str = false.
Proof. vm_compute. reflexivity. Qed.

Definition ex_H : str -> str := fun x => x.
Definition ex_old : fhash := mk_fhash ex_digest2 33261 7 0 42.
Definition ex_disk : disk :=
  fun p => if str_eqb p [97;46;99] then DFile (mk_fstat 33261 7 0 42) [] else DMissing.
(* a.c replaced by a directory (mode 0o40755, other inode) *)
Definition ex_disk_dir : disk :=
  fun p => if str_eqb p [97;46;99] then DUnreadable (mk_fstat 16877 9 4096 43) else DMissing.
Definition ex_io : list (str * fhash) := [ ([97;46;99], ex_old) ].
Definition ex_oo : list (str * fhash) := [ ([111;117;116], fh_unknown) ].

Example C13_example_skip :
  match full_step_hash ex_H ex_sys_empty ex_disk ex_io ex_oo with
  | Some (rec, rs) =>
      sys_wf rs = true /\ sys_inputs_known rs = true
      /\ digests_ok Lookahead (sys_outs rs) = true
      /\ option_map fst (try_skip ex_H rec ex_sys_empty ex_disk ex_io ex_oo) = Some true
      /\ option_map fst (try_skip ex_H rec ex_sys_unset ex_disk ex_io ex_oo) = Some false
      /\ try_skip ex_H rec ex_sys_empty (fun _ => DMissing) ex_io ex_oo = None
      /\ try_skip ex_H rec ex_sys_empty ex_disk_dir ex_io ex_oo = None
      /\ option_map fst (compute_inp_hashes ex_H ex_disk_dir ex_io) = Some true
  | None => False
  end.
Proof. vm_compute. repeat split; reflexivity. Qed.

(* stored hashes: an explained step hash with a known input, an undefined and an empty variable,
   an override and a missing output is well-formed for the round trip; the stored form of the
   unknown digest is the two characters "bp" *)
Definition ex_stephash : stephash :=
  mk_sx ex_digest1
        (Some (mk_ii [ ([97;46;99], ex_old) ] [ ([72;79;77;69], None); ([70], Some []) ] [ ([79], [52]) ]))
        (Some ex_digest2)
        (Some (mk_oi [ ([111;117;116], fh_unknown) ])).

Example C13_example_json :
  sx_json_ok ex_stephash = true /\ fh_json_ok ex_old = true /\ fh_canonical ex_old = true
  /\ fh_canonical fh_unknown = true /\ fh_to_json fh_unknown = None
  /\ b85_encode b85_alphabet unknown_digest = [98;112]
  /\ sx_from_json (Some (sx_to_json ex_stephash)) = Some (Some ex_stephash)
  /\ shash_of ex_stephash = mk_shash ex_digest1 (Some ex_digest2).
Proof. vm_compute. repeat split; reflexivity. Qed.
