(* C07 A successful build leaves no orphaned outputs behind.
   Property theorems only; proofs live in proofs/TrellisDDProofs.v and proofs/CleanProofs.v. *)
From Coq Require Import List NArith Bool.
From SV Require Import lib.Bytes.
From SV Require Import gen.GenClean.
From SV Require Import model.TrellisDD.
From SV Require Import model.Clean.
From SV Require Import proofs.TrellisDDProofs.
From SV Require Import proofs.CleanProofs.
Import ListNotations.
Open Scope N_scope.

(* After Trellis.delete_detached (and after the Workflow override) no node of the result is
   detached, product-free and sink-free at the same time: the loop really reached its fixed point,
   for every graph, whatever its shape. *)
Theorem C07_dd_fixpoint :
  forall g n, In n (gnodes (dd_g (trellis_dd g))) -> eligible (dd_g (trellis_dd g)) n = false.
Proof. exact dd_fixpoint. Qed.

Theorem C07_workflow_dd_fixpoint :
  forall g n, In n (gnodes (dd_g (workflow_dd g))) -> eligible (dd_g (workflow_dd g)) n = false.
Proof. exact workflow_dd_fixpoint. Qed.

(* The fuel of the model loop (the number of node rows) is always sufficient: more fuel changes
   nothing and the result is settled. *)
Theorem C07_dd_terminates :
  forall g extra, dd_loop (dd_fuel g + extra) g [] = dd_raw g /\
                  (forall n, In n (gnodes (fst (dd_raw g))) -> eligible (fst (dd_raw g)) n = false).
Proof. exact dd_terminates. Qed.

(* Running it again deletes nothing, invalidates no step hash and raises nothing. *)
Theorem C07_dd_idempotent :
  forall g, trellis_dd (dd_g (trellis_dd g)) = mkDD (dd_g (trellis_dd g)) [] false.
Proof. exact dd_idempotent. Qed.

(* Survivors: under the constraints of the node and dependency tables (unique keys, sinks exist),
   a node survives iff it belongs to a set of nodes each of which is attached or has a product or
   a sink inside the set (the greatest such set: what an attached node or a creator/dependency
   cycle holds, directly or indirectly). In particular the result does not depend on the order in
   which the SQL cursor meets the rows. *)
Theorem C07_dd_survivors :
  forall g, NoDup (map nkey (gnodes g)) ->
    (forall d, In d (gdeps g) -> exists n, In n (gnodes g) /\ nkey n = snd d) ->
    forall k, In k (map nkey (gnodes (dd_g (trellis_dd g)))) <-> exists S, self_supporting g S /\ In k S.
Proof. exact dd_survivors. Qed.

(* Path form, "if" half: what reaches an attached node along product and sink edges survives ... *)
Theorem C07_dd_survives_if_reaches_attached :
  forall g k l n, NoDup (map nkey (gnodes g)) ->
    (forall d, In d (gdeps g) -> exists n, In n (gnodes g) /\ nkey n = snd d) ->
    reaches g k l -> In n (gnodes g) -> nkey n = l -> ndet n = false ->
    In k (map nkey (gnodes (dd_g (trellis_dd g)))).
Proof. exact dd_survives_if_reaches_attached. Qed.

(* ... and so does what reaches a cycle of creator and dependency edges. *)
Theorem C07_dd_survives_if_reaches_cycle :
  forall g k l m, NoDup (map nkey (gnodes g)) ->
    (forall d, In d (gdeps g) -> exists n, In n (gnodes g) /\ nkey n = snd d) ->
    reaches g k l -> succ_of g l m -> reaches g m l ->
    In k (map nkey (gnodes (dd_g (trellis_dd g)))).
Proof. exact dd_survives_if_reaches_cycle. Qed.

(* Path form as an equivalence, kept visible and NOT proved in the "only if" direction (it needs a
   pigeonhole argument over successor chains of the settled graph); the "if" direction is the two
   theorems above, the greatest-fixed-point form C07_dd_survivors is proved in both directions. *)
Definition C07_dd_survivors_path_full : Prop :=
  forall g, NoDup (map nkey (gnodes g)) ->
    (forall d, In d (gdeps g) -> exists n, In n (gnodes g) /\ nkey n = snd d) ->
    forall k, In k (map nkey (gnodes (dd_g (trellis_dd g)))) <->
      exists l, reaches g k l /\
        ((exists n, In n (gnodes g) /\ nkey n = l /\ ndet n = false) \/
         (exists m, succ_of g l m /\ reaches g m l)).

(* After the cleanup of a successful unrestricted build with cleaning enabled (no guard of the
   regenerated chain fires): a detached file node that File.before_delete would queue (VOLATILE: v =
   None; BUILT/OUTDATED with recorded hash h: v = Some h), that is not an output of an attached
   optional step, that is on the abstract disk with exactly the recorded content, and that nothing
   holds (no attached node and no cycle is reachable from it along product and sink edges, i.e. it
   lies in no self-supporting set; an attached consumer would be such a holder) is absent from the
   graph and from the disk afterwards. *)
Theorem C07_orphans_removed :
  forall c g f n v h,
    existsb (guard_fires c) finalize_guards = false ->
    NoDup (map nkey (gnodes g)) ->
    (forall d, In d (gdeps g) -> exists m, In m (gnodes g) /\ nkey m = snd d) ->
    In n (gnodes g) -> nkind n = KFILE -> ndet n = true ->
    is_revert_target g n = false ->
    bd_value n = Some v -> (v = None \/ v = Some h) ->
    fs_get f (nlabel n) = Some (FFile h) ->
    (~ exists S, self_supporting g S /\ In (nkey n) S) ->
    let r := finalize c (init_state g f) in
    ~ In (nkey n) (map nkey (gnodes (s_g r))) /\ fs_get (s_fs r) (nlabel n) = None.
Proof. exact orphans_removed. Qed.

(* Directories. Full statement, NOT proved (validated by the E1 correspondences on real trees and by
   the oracle): no directory marked for removal is an empty directory when the cleanup ends. *)
Definition C07_dirs_pruned_when_empty_full : Prop :=
  forall q f d, In d (qdirs q) ->
    let r := remove_deletable_files q f in
    ~ (fs_get (r_fs r) d = Some FDir /\ dir_empty (r_fs r) d = true).

(* Proved part: a marked directory that is an empty directory once the queued files are gone (a
   directory that held nothing but removed outputs) is removed. The missing case is a directory
   that only becomes empty through the removal of sub-directories during the walk towards the root. *)
Theorem C07_dirs_pruned_when_empty_partial :
  forall q f d, In d (qdirs q) ->
    let f1 := fst (rdf_files q (sort_desc (dedup (map fst (qfiles q)))) f []) in
    fs_get f1 d = Some FDir -> dir_empty f1 d = true ->
    fs_get (r_fs (remove_deletable_files q f)) d = None.
Proof. exact dirs_pruned_when_empty_partial. Qed.

(* ... and the parent directory of every deleted file node is marked, unless it is the project root
   or (when the source says so) belongs to an attached static tree. *)
Theorem C07_deleted_file_parent_marked :
  forall trees x q, nkind x = KFILE ->
    let d := normdir (dirname (nlabel x)) in
    is_dot d || (mark_dir_skips_static_trees && owned_by_tree trees d) = false ->
    In d (qdirs (before_delete trees x q)).
Proof. exact before_delete_marks_parent. Qed.

(* Finding (volatile output forgotten): a detached, creator-less file that is supplied as an input of
   another step is re-created through File.initialize_row with UNDECLARED requested. For BUILT/OUTDATED
   rows the keep rule preserves the state, so the cleanup still removes the file later; for VOLATILE
   rows it does not (unless the second arm of the keep rule exists: flag regenerated from file.py), the
   row becomes UNDECLARED, File.before_delete queues nothing, and the volatile file stays on disk for
   good after the node is deleted. Reproduced on the real serve(): step mkA renames its volatile output
   while a new step names the old path as input (build incomplete), third build succeeds. *)
Definition C07_supply_keeps_cleanup_memory : Prop :=
  forall s, queued_on_delete s = true -> queued_on_delete (init_row_state FS_UNDECLARED s) = true.

Theorem C07_supply_keeps_cleanup_memory_hashed :
  forall s, memN s bd_hashed_states = true -> queued_on_delete (init_row_state FS_UNDECLARED s) = true.
Proof. exact supply_keeps_cleanup_memory_hashed. Qed.

Theorem C07_supply_keeps_cleanup_memory_refuted :
  keep_volatile_on_supply = false -> ~ C07_supply_keeps_cleanup_memory.
Proof. exact supply_keeps_cleanup_memory_refuted. Qed.

Theorem C07_supply_keeps_cleanup_memory_fixed :
  keep_volatile_on_supply = true -> C07_supply_keeps_cleanup_memory.
Proof. exact supply_keeps_cleanup_memory_fixed. Qed.

(* Non-vacuity: root -> step s (detached) creates step t creates file o, s has o as amended input
   (a cycle s -> t -> o -> s), plus a detached orphan file x. The cycle survives, x is deleted and
   queued with its recorded hash, its directory is marked. *)
Example C07_example :
  let root := (KROOT, []) in let s := (KSTEP, [115]) in let t := (KSTEP, [116]) in
  let o := (KFILE, [111]) in let x := (KFILE, [100; 47; 120]) in
  let g := mkGraph [mkNode root (Some root) false 0 None false 0 0;
                    mkNode s None true 0 None true 32 23;
                    mkNode t (Some s) true 0 None true 32 23;
                    mkNode o (Some t) true FS_BUILT (Some 7) false 0 0;
                    mkNode x None true FS_BUILT (Some 9) false 0 0]
                   [(t, o); (o, s)] in
  let r := workflow_dd g in
  map nkey (gnodes (dd_g r)) = [root; s; t; o] /\ map nkey (dd_deleted r) = [x] /\ dd_err r = false /\
  qfiles (queue_deleted [] (dd_deleted r) empty_queue) = [([100; 47; 120], Some 9)] /\
  qdirs (queue_deleted [] (dd_deleted r) empty_queue) = [[100]].
Proof. vm_compute. repeat split; reflexivity. Qed.
