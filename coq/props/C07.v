(* C07 A successful build leaves no orphaned outputs behind.
   Property theorems only; proofs live in proofs/TrellisDDProofs.v, TrellisDDPath.v, CleanProofs.v,
   CleanDirs.v and CleanOptional.v. *)
From Coq Require Import List NArith Bool.
From SV Require Import lib.Bytes.
From SV Require Import gen.GenClean.
From SV Require Import model.TrellisDD.
From SV Require Import model.Clean.
From SV Require Import proofs.TrellisDDProofs.
From SV Require Import proofs.CleanProofs.
From SV Require Import proofs.TrellisDDPath.
From SV Require Import proofs.CleanDirs.
From SV Require Import proofs.CleanOptional.
From SV Require Import proofs.CleanLinks.
From SV Require Import proofs.CleanPrune.
From SV Require Import proofs.CleanPruneFull.
Import ListNotations.
Open Scope N_scope.

(* After Trellis.delete_detached (and after the Workflow override) no node of the result is
   detached, product-free and sink-free at the same time: the loop really reached its fixed point,
   for every graph, whatever its shape. *)
Theorem C07_dd_fixpoint :
  forall g n, In n (gnodes (dd_g (trellis_dd g))) -> eligible (dd_g (trellis_dd g)) n = false.
Proof. exact dd_fixpoint. Qed.

Theorem C07_workflow_dd_fixpoint :
  forall g n, In n (gnodes (dd_g (workflow_dd g))) -> eligible (dd_g (workflow_dd g)) n = false.
Proof. exact workflow_dd_fixpoint. Qed.

(* The fuel of the model loop (the number of node rows) is always sufficient: more fuel changes
   nothing and the result is settled. *)
Theorem C07_dd_terminates :
  forall g extra, dd_loop (dd_fuel g + extra) g [] = dd_raw g /\
                  (forall n, In n (gnodes (fst (dd_raw g))) -> eligible (fst (dd_raw g)) n = false).
Proof. exact dd_terminates. Qed.

(* Running it again deletes nothing, invalidates no step hash and raises nothing. *)
Theorem C07_dd_idempotent :
  forall g, trellis_dd (dd_g (trellis_dd g)) = mkDD (dd_g (trellis_dd g)) [] false.
Proof. exact dd_idempotent. Qed.

(* Survivors: under the constraints of the node and dependency tables (unique keys, sinks exist),
   a node survives iff it belongs to a set of nodes each of which is attached or has a product or
   a sink inside the set (the greatest such set: what an attached node or a creator/dependency
   cycle holds, directly or indirectly). In particular the result does not depend on the order in
   which the SQL cursor meets the rows. *)
Theorem C07_dd_survivors :
  forall g, NoDup (map nkey (gnodes g)) ->
    (forall d, In d (gdeps g) -> exists n, In n (gnodes g) /\ nkey n = snd d) ->
    forall k, In k (map nkey (gnodes (dd_g (trellis_dd g)))) <-> exists S, self_supporting g S /\ In k S.
Proof. exact dd_survivors. Qed.

(* Path form, "if" half: what reaches an attached node along product and sink edges survives ... *)
Theorem C07_dd_survives_if_reaches_attached :
  forall g k l n, NoDup (map nkey (gnodes g)) ->
    (forall d, In d (gdeps g) -> exists n, In n (gnodes g) /\ nkey n = snd d) ->
    reaches g k l -> In n (gnodes g) -> nkey n = l -> ndet n = false ->
    In k (map nkey (gnodes (dd_g (trellis_dd g)))).
Proof. exact dd_survives_if_reaches_attached. Qed.

(* ... and so does what reaches a cycle of creator and dependency edges. *)
Theorem C07_dd_survives_if_reaches_cycle :
  forall g k l m, NoDup (map nkey (gnodes g)) ->
    (forall d, In d (gdeps g) -> exists n, In n (gnodes g) /\ nkey n = snd d) ->
    reaches g k l -> succ_of g l m -> reaches g m l ->
    In k (map nkey (gnodes (dd_g (trellis_dd g)))).
Proof. exact dd_survives_if_reaches_cycle. Qed.

(* Path form as an equivalence: a node survives iff it reaches, along product and sink edges, an
   attached node or a node that lies on a cycle of creator and dependency edges.  "If" is the two
   theorems above; "only if" follows successors inside the greatest self-supporting set until an
   attached node or a repeated key is met (pigeonhole: proofs/TrellisDDPath.v, ss_walk). *)
Theorem C07_dd_survivors_path_full :
  forall g, NoDup (map nkey (gnodes g)) ->
    (forall d, In d (gdeps g) -> exists n, In n (gnodes g) /\ nkey n = snd d) ->
    forall k, In k (map nkey (gnodes (dd_g (trellis_dd g)))) <->
      exists l, reaches g k l /\
        ((exists n, In n (gnodes g) /\ nkey n = l /\ ndet n = false) \/
         (exists m, succ_of g l m /\ reaches g m l)).
Proof. exact dd_survivors_path. Qed.

(* After the cleanup of a successful unrestricted build with cleaning enabled (no guard of the
   regenerated chain fires): a detached file node that File.before_delete would queue (VOLATILE: v =
   None; BUILT/OUTDATED with recorded hash h: v = Some h), that is not an output of an attached
   optional step, that is on the abstract disk with exactly the recorded content, and that nothing
   holds (no attached node and no cycle is reachable from it along product and sink edges, i.e. it
   lies in no self-supporting set; an attached consumer would be such a holder) is absent from the
   graph and from the disk afterwards. *)
Theorem C07_orphans_removed :
  forall c g f n v h,
    existsb (guard_fires c) finalize_guards = false ->
    NoDup (map nkey (gnodes g)) ->
    (forall d, In d (gdeps g) -> exists m, In m (gnodes g) /\ nkey m = snd d) ->
    In n (gnodes g) -> nkind n = KFILE -> ndet n = true ->
    is_revert_target g n = false ->
    bd_value n = Some v -> (v = None \/ v = Some h) ->
    fs_get f (nlabel n) = Some (FFile h) ->
    (~ exists S, self_supporting g S /\ In (nkey n) S) ->
    let r := finalize c (init_state g f) in
    ~ In (nkey n) (map nkey (gnodes (s_g r))) /\ fs_get (s_fs r) (nlabel n) = None.
Proof. exact orphans_removed. Qed.

(* Outputs of attached optional steps that are not needed (step._implied_need = OPTIONAL, the rows
   revert_optional_steps selects: VOLATILE / BUILT / OUTDATED sinks of such a step): after the cleanup
   of a successful unrestricted build with cleaning, such a file that is on the abstract disk with
   exactly the recorded content (any content when VOLATILE: v = None) is gone from disk, and its node,
   if still in the graph, is back to PLANNED without a hash (a VOLATILE row stays VOLATILE). *)
Theorem C07_optional_outputs_removed :
  forall c g f n v h,
    existsb (guard_fires c) finalize_guards = false ->
    NoDup (map nkey (gnodes g)) ->
    In n (gnodes g) -> is_revert_target g n = true ->
    rq_value n = Some v -> (v = None \/ v = Some h) ->
    fs_get f (nlabel n) = Some (FFile h) ->
    let r := finalize c (init_state g f) in
    fs_get (s_fs r) (nlabel n) = None /\
    forall n', In n' (gnodes (s_g r)) -> nkey n' = nkey n ->
      nfstate n' = (if nfstate n =? revert_exempt then nfstate n else revert_to) /\
      nfhash n' = (if nfstate n =? revert_exempt then nfhash n else None).
Proof. exact optional_outputs_removed. Qed.

(* ... and the unneeded optional steps themselves are PENDING again. *)
Theorem C07_optional_steps_reverted :
  forall c g f s,
    existsb (guard_fires c) finalize_guards = false -> NoDup (map nkey (gnodes g)) ->
    In s (gnodes g) -> is_optional_step s = true ->
    let r := finalize c (init_state g f) in
    forall s', In s' (gnodes (s_g r)) -> nkey s' = nkey s -> nsstate s' = revert_step_to.
Proof. exact optional_steps_reverted. Qed.

(* Directories: no directory marked for removal is an empty directory when the cleanup ends -- also
   when it became empty only through the removal of sub-directories during the walk towards the
   root (proofs/CleanDirs.v: the stack is in descending code-point order, a pushed parent is popped
   next, and after the last occurrence of d on the stack nothing at or below d is touched). *)
Theorem C07_dirs_pruned_when_empty_full :
  forall q f d, In d (qdirs q) ->
    let r := remove_deletable_files q f in
    ~ (fs_get (r_fs r) d = Some FDir /\ dir_empty (r_fs r) d = true).
Proof. exact dirs_pruned_when_empty_full_holds. Qed.

(* Special case kept for reference: a marked directory that is an empty directory once the queued
   files are gone (a directory that held nothing but removed outputs) is removed. *)
Theorem C07_dirs_pruned_when_empty_partial :
  forall q f d, In d (qdirs q) ->
    let f1 := fst (rdf_files q (sort_desc (dedup (map fst (qfiles q)))) f []) in
    fs_get f1 d = Some FDir -> dir_empty f1 d = true ->
    fs_get (r_fs (remove_deletable_files q f)) d = None.
Proof. exact dirs_pruned_when_empty_partial. Qed.

(* ... and the parent directory of every deleted file node is marked, unless it is the project root
   or (when the source says so) belongs to an attached static tree. *)
Theorem C07_deleted_file_parent_marked :
  forall trees x q, nkind x = KFILE ->
    let d := normdir (dirname (nlabel x)) in
    is_dot d || (mark_dir_skips_static_trees && owned_by_tree trees d) = false ->
    In d (qdirs (before_delete trees x q)).
Proof. exact before_delete_marks_parent. Qed.

(* Finding (volatile output forgotten): a detached, creator-less file that is supplied as an input of
   another step is re-created through File.initialize_row with UNDECLARED requested. For BUILT/OUTDATED
   rows the keep rule preserves the state, so the cleanup still removes the file later; for VOLATILE
   rows it does not (unless the second arm of the keep rule exists: flag regenerated from file.py), the
   row becomes UNDECLARED, File.before_delete queues nothing, and the volatile file stays on disk for
   good after the node is deleted. Reproduced on the real serve(): step mkA renames its volatile output
   while a new step names the old path as input (build incomplete), third build succeeds. *)
Definition C07_supply_keeps_cleanup_memory : Prop :=
  forall s, queued_on_delete s = true -> queued_on_delete (init_row_state FS_UNDECLARED s) = true.

Theorem C07_supply_keeps_cleanup_memory_hashed :
  forall s, memN s bd_hashed_states = true -> queued_on_delete (init_row_state FS_UNDECLARED s) = true.
Proof. exact supply_keeps_cleanup_memory_hashed. Qed.

Theorem C07_supply_keeps_cleanup_memory_refuted :
  keep_volatile_on_supply = false -> ~ C07_supply_keeps_cleanup_memory.
Proof. exact supply_keeps_cleanup_memory_refuted. Qed.

Theorem C07_supply_keeps_cleanup_memory_fixed :
  keep_volatile_on_supply = true -> C07_supply_keeps_cleanup_memory.
Proof. exact supply_keeps_cleanup_memory_fixed. Qed.

(* Finding (volatile-redeclared-regular, findings.d/C07-volatile-redeclared-regular.json): the same memory over a
   re-declaration as a regular output, File.initialize_row(PLANNED): kept for BUILT / OUTDATED, LOST for VOLATILE. *)
Theorem C07_redeclare_keeps_cleanup_memory_hashed :
  forall s, memN s bd_hashed_states = true -> queued_on_delete (init_row_state FS_PLANNED s) = true.
Proof. exact redeclare_keeps_cleanup_memory_hashed. Qed.

Theorem C07_redeclare_keeps_cleanup_memory_refuted : ~ redeclare_keeps_cleanup_memory.
Proof. exact redeclare_keeps_cleanup_memory_refuted. Qed.

(* Finding (symlink-output-left-dangling, findings.d/C07-symlink-output-left-dangling.json): "whatever is queued, can
   be unlinked and -- unless volatile -- reads as exactly the recorded hash when the cleanup starts, is gone when
   remove_deletable_files ends".  True for regular files whatever the shape of the loop (C07_orphans_removed);
   FALSE for an output that a step made as a symbolic link to another queued output whose name sorts after the
   link's: the single loop removes the target first, the link then hashes as "unknown", is skipped and stays behind,
   dangling, for good.  TRUE for every kind of path when every decision is taken before the first removal (two
   loops; flag rdf_decide_first regenerated from the AST of remove_deletable_files). *)
Definition C07_unmodified_queued_removed : Prop :=
  forall q f p v, qfile_get q p = Some v ->
    (v = None \/ exists h, v = Some h /\ stat f p = SFile h) ->
    is_unlinkable (fs_get f p) = true ->
    fs_get (r_fs (remove_deletable_files q f)) p = None.

Theorem C07_unmodified_queued_removed_refuted : rdf_decide_first = false -> ~ C07_unmodified_queued_removed.
Proof. exact unmodified_queued_removed_refuted. Qed.

Theorem C07_unmodified_queued_removed_fixed : rdf_decide_first = true -> C07_unmodified_queued_removed.
Proof. exact unmodified_queued_removed_two_pass. Qed.

(* With the decisions taken first, C07_orphans_removed holds for outputs of any kind that os.remove can take away
   (a regular file or a symbolic link made by the step): no guard fires; n is a detached file node that
   before_delete queues with value v, not an output of an attached optional step, nothing holds it; what is at its
   path can be unlinked and -- unless volatile -- reads (stat, following links) as exactly the recorded hash.
   Then after finalize its key is not in the graph and its path is not on disk. *)
Theorem C07_orphans_removed_any_kind_fixed :
  forall c g f n v,
    rdf_decide_first = true ->
    existsb (guard_fires c) finalize_guards = false ->
    keys_nodup g -> deps_closed g ->
    In n (gnodes g) -> nkind n = KFILE -> ndet n = true ->
    is_revert_target g n = false ->
    bd_value n = Some v ->
    (v = None \/ exists h, v = Some h /\ stat f (nlabel n) = SFile h) ->
    is_unlinkable (fs_get f (nlabel n)) = true ->
    (~ exists S, self_supporting g S /\ In (nkey n) S) ->
    let r := finalize c (init_state g f) in
    ~ In (nkey n) (map nkey (gnodes (s_g r))) /\ fs_get (s_fs r) (nlabel n) = None.
Proof. exact orphans_removed_any_kind. Qed.

(* Likewise for C07_optional_outputs_removed (disk part): an output of an attached step with _implied_need = OPTIONAL
   that can be unlinked and -- unless VOLATILE -- reads as exactly the recorded hash is not on disk after finalize. *)
Theorem C07_optional_outputs_removed_any_kind_fixed :
  forall c g f n v,
    rdf_decide_first = true ->
    existsb (guard_fires c) finalize_guards = false ->
    keys_nodup g ->
    In n (gnodes g) -> is_revert_target g n = true ->
    rq_value n = Some v ->
    (v = None \/ exists h, v = Some h /\ stat f (nlabel n) = SFile h) ->
    is_unlinkable (fs_get f (nlabel n)) = true ->
    fs_get (s_fs (finalize c (init_state g f))) (nlabel n) = None.
Proof. exact optional_outputs_removed_any_kind. Qed.

(* "... together with the directories StepUp created for it that became empty", above the marked directories:
   _prune_empty_dirs is translated statement by statement (pop the deepest, remove it if it is an empty directory,
   push its parent; flag prune_visits_once: is a path examined at most once?).  Statement: in a tree as a file system
   has it (fs_closedb: whatever exists has no directory part or lies in a directory that exists), whenever a
   directory is removed its parent -- unless that is the project root -- is not left
   behind as an empty directory; by induction up the tree every ancestor that became empty is gone.
   The variant with a `seen` set is REFUTED (two sibling directories r/a, r/b below r: r is examined while r/a is
   still there, and skipped when it is pushed again after r/a went); checked on every run. *)
Theorem C07_emptied_parents_pruned_full : emptied_parents_pruned false.
Proof. exact emptied_parents_pruned_holds. Qed.

(* The same for the whole cleanup of the code as it is (the file removals keep the tree closed): whenever
   remove_deletable_files removes a directory x, the parent of x -- unless it is the project root -- is not left behind
   as an empty directory.  With C07_dirs_pruned_when_empty_full (no MARKED directory is left empty) this is the
   induction up the tree: a marked directory that became empty is removed, then its parent if that became empty,
   and so on; every ancestor that became empty is gone. *)
Theorem C07_rdf_emptied_parents_pruned :
  forall q f, fs_closedb f = true ->
    forall x, In x (r_dirs (remove_deletable_files q f)) -> parent_ok (dirname x) = true ->
      ~ (fs_get (r_fs (remove_deletable_files q f)) (dirname x) = Some FDir /\
         dir_empty (r_fs (remove_deletable_files q f)) (dirname x) = true).
Proof. exact rdf_emptied_parents_pruned. Qed.

Theorem C07_emptied_parents_pruned_seen_set_refuted : ~ emptied_parents_pruned true.
Proof. exact emptied_parents_pruned_seen_set_refuted. Qed.

Theorem C07_seen_set_variant_is_the_code :
  prune_visits_once = true -> ~ emptied_parents_pruned prune_visits_once.
Proof. exact seen_set_variant_is_the_code. Qed.

(* the shape of the loop today: a pushed parent is examined again (regenerated) *)
Theorem C07_prune_revisits_parents : prune_visits_once = false.
Proof. exact gen_prune_revisits. Qed.

Example C07_example_siblings : fst (prune_dirs_gen false [sib_ra; sib_rb] sib_fs) = [].
Proof. exact siblings_pruned_by_the_revisiting_loop. Qed.

(* Non-vacuity: root -> step s (detached) creates step t creates file o, s has o as amended input
   (a cycle s -> t -> o -> s), plus a detached orphan file x. The cycle survives, x is deleted and
   queued with its recorded hash, its directory is marked. *)
Example C07_example :
  let root := (KROOT, []) in let s := (KSTEP, [115]) in let t := (KSTEP, [116]) in
  let o := (KFILE, [111]) in let x := (KFILE, [100; 47; 120]) in
  let g := mkGraph [mkNode root (Some root) false 0 None false 0 0;
                    mkNode s None true 0 None true 32 23;
                    mkNode t (Some s) true 0 None true 32 23;
                    mkNode o (Some t) true FS_BUILT (Some 7) false 0 0;
                    mkNode x None true FS_BUILT (Some 9) false 0 0]
                   [(t, o); (o, s)] in
  let r := workflow_dd g in
  map nkey (gnodes (dd_g r)) = [root; s; t; o] /\ map nkey (dd_deleted r) = [x] /\ dd_err r = false /\
  qfiles (queue_deleted [] (dd_deleted r) empty_queue) = [([100; 47; 120], Some 9)] /\
  qdirs (queue_deleted [] (dd_deleted r) empty_queue) = [[100]].
Proof. vm_compute. repeat split; reflexivity. Qed.

(* Non-vacuity, directories: only the deepest directory is marked (its file was the queued output); the
   two levels above become empty one after the other during the walk towards the root and go as well;
   a directory with a user file stays. *)
Example C07_example_dirs :
  let a := [97] in let ab := [97; 47; 98] in let abc := [97; 47; 98; 47; 99] in
  let o := [97; 47; 98; 47; 99; 47; 111] in let u := [117] in let ux := [117; 47; 120] in
  let q := mkQ [(o, Some 1)] [abc; u] in
  let f := [(a, FDir); (ab, FDir); (abc, FDir); (o, FFile 1); (u, FDir); (ux, FFile 2)] in
  let r := remove_deletable_files q f in
  r_files r = [o] /\ r_dirs r = [abc; ab; a] /\ r_fs r = [(u, FDir); (ux, FFile 2)].
Proof. vm_compute. repeat split; reflexivity. Qed.

(* Non-vacuity, optional steps: the attached optional step p (_implied_need = OPTIONAL, SUCCEEDED) has a
   BUILT output o (unmodified on disk) and a VOLATILE output v; a mandatory step m keeps its output. *)
Example C07_example_optional :
  let root := (KROOT, []) in let p := (KSTEP, [112]) in let m := (KSTEP, [109]) in
  let o := (KFILE, [111]) in let v := (KFILE, [118]) in let k := (KFILE, [107]) in
  let g := mkGraph [mkNode root (Some root) false 0 None false 0 0;
                    mkNode p (Some root) false 0 None true 31 23;
                    mkNode m (Some root) false 0 None true 32 23;
                    mkNode o (Some p) false FS_BUILT (Some 7) false 0 0;
                    mkNode v (Some p) false FS_VOLATILE None false 0 0;
                    mkNode k (Some m) false FS_BUILT (Some 9) false 0 0]
                   [(p, o); (p, v); (m, k)] in
  let f := [([111], FFile 7); ([118], FFile 3); ([107], FFile 9)] in
  let r := finalize (mkCtx false 0 true) (init_state g f) in
  is_revert_target g (mkNode o (Some p) false FS_BUILT (Some 7) false 0 0) = true /\
  s_files r = [[118]; [111]] /\ s_fs r = [([107], FFile 9)] /\
  map (fun n => (nkey n, nfstate n, nfhash n, nsstate n)) (gnodes (s_g r)) =
    [(root, 0, None, 0); (p, 0, None, 21); (m, 0, None, 23); (o, FS_PLANNED, None, 0);
     (v, FS_VOLATILE, None, 0); (k, FS_BUILT, Some 9, 0)].
Proof. vm_compute. repeat split; reflexivity. Qed.
