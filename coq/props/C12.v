(* C12 Job, resource and hold limits are never exceeded.
   Property theorems only; proofs live in proofs/LimitsProofs.v; the model in model/Limits.v is
   assembled from fragments regenerated from the source on every run (gen/GenLimits.v). *)
From Coq Require Import List Arith NArith ZArith Bool.
From SV Require Import gen.GenLimits model.Limits proofs.LimitsProofs.
Import ListNotations.

(* ---- job limit ---------------------------------------------------------------------------- *)

(* For every job limit n and every sequence of job-loop events (hash start, pop begin/end, task
   done, AMEND BEGIN/END = a running step task parks in / leaves Builder.run_promoted_hash_jobs
   while its command is blocked in amend(), promoted hash start/done, drain, wake) starting from the
   empty loop: at most n tasks (step tasks and hash tasks together) occupy slots, hence at most n
   step commands execute (commands are only launched inside TJob tasks, and a command blocked in
   amend() still counts); promoted hash jobs are a separate counter. lstep uses the two tests of
   Builder.job_loop as translated from the source (gen.GenLimits.hash_slot_free / job_slot_free,
   functions of len(running_tasks), the number of parked amend calls and njob). *)
Theorem C12_running_le_njob :
  forall (n : nat) (evs : list lev),
    let l := lrun (loop_init n) evs in
    length (running l) <= n /\ command_tasks l <= n /\ njob l = n /\ overrun l = false.
Proof. exact running_le_njob_proof. Qed.

(* The same for ANY pair of tests that admit a start only when fewer than njob tasks are tracked,
   whatever the number of parked tasks (sound_test) ... *)
Theorem C12_running_le_njob_of_sound_tests :
  forall hg jg, sound_test hg -> sound_test jg ->
  forall (n : nat) (evs : list lev),
    let l := lrun_gen hg jg (loop_init n) evs in
    length (running l) <= n /\ command_tasks l <= n /\ njob l = n /\ overrun l = false.
Proof. exact running_le_njob_of_sound. Qed.

(* For the bound on step COMMANDS the test in front of pop_next_job / start_task alone matters: with
   any test whatsoever in front of start_hash_task (hash tasks execute no command). *)
Theorem C12_commands_le_njob_of_sound_job_test :
  forall hg jg, sound_test jg ->
  forall (n : nat) (evs : list lev),
    let l := lrun_gen hg jg (loop_init n) evs in command_tasks l <= n /\ overrun l = false.
Proof. exact commands_le_njob_of_sound_job_test. Qed.

(* ... which the generated tests are. *)
Theorem C12_slot_tests_sound : sound_test hash_slot_free /\ sound_test job_slot_free.
Proof. exact (conj hash_slot_free_sound job_slot_free_sound). Qed.

(* A command parked in amend() is one of the counted commands. *)
Theorem C12_parked_commands_counted :
  forall (n : nat) (evs : list lev),
    let l := lrun (loop_init n) evs in
    forall j, existsb (task_eqb (TJob j)) (running l) = true -> 1 <= command_tasks l <= n.
Proof. exact parked_commands_counted. Qed.

(* The model's counterexample search finds no overrun at any depth (it is evaluated by the check on
   every run; a hit is exactly an unsound test). *)
Theorem C12_search_finds_no_overrun : forall n t d, shortest_overrun n d t = None.
Proof. exact shortest_overrun_none. Qed.

(* The test that lends the slot of a parked step to the job loop (len(running_tasks) -
   waiting_tasks < njob) is unsound; the search returns a 5-event history with two commands
   executing under njob = 1, also when only the test in front of pop_next_job is changed. *)
Theorem C12_lend_test_refuted :
  ~ sound_test lend_slot_free /\
  shortest_overrun_gen lend_slot_free lend_slot_free 1 0 8 = Some lend_witness /\
  command_tasks (lrun_gen lend_slot_free lend_slot_free (loop_init 1) lend_witness) = 2 /\
  overrun (lrun_gen hash_slot_free lend_slot_free (loop_init 1) lend_witness) = true.
Proof. exact (conj lend_test_unsound lend_test_refuted). Qed.

(* ---- resources ---------------------------------------------------------------------------- *)

(* The two shape flags are generated from the source (Step.after_recycle, Step.initialize_row,
   Workflow.define_step): recycle_keeps_inflight = a step whose job is in flight keeps state, _holding and
   step_resource rows when it is declared again; define_rejects_inflight = such a declaration is refused.
   step / apply / run / quiet are the model instantiated with the generated flags. *)
Definition C12_repaired : bool := recycle_keeps_inflight || define_rejects_inflight.

(* Step.after_recycle is translated statement by statement (gen.GenLimits.after_recycle_ops) and interpreted by
   the model (run_ops). FRAME FACTS, for every statement list:
   - Workflow.mark_step_pending (the statement `self.graph.mark_step_pending(self)`, under whatever condition:
     FAILED state, changed env_overrides) never touches the claims or the executing commands of the row; on a
     row in flight (RUNNING/CHECKING) it changes nothing; otherwise it writes PENDING and the trigger zeroes
     _holding;
   - a list whose writes of _holding / step_resource are all under `not in_flight` (the only lists for which
     the translator sets recycle_keeps_inflight) returns a row in flight exactly as it got it. *)
Theorem C12_mark_pending_translated : forall s,
  mark_pending_writes (code s) = if sstate_eqb s Running || sstate_eqb s Checking then None else Some code_PENDING.
Proof. exact mark_pending_translated. Qed.

Theorem C12_mark_pending_frame : forall z,
  cmds (mark_pending_row z) = cmds z /\ rclaims (mark_pending_row z) = rclaims z /\
  (in_flight z = true -> mark_pending_row z = z) /\
  (in_flight z = false -> st (mark_pending_row z) = Pending /\ holding (mark_pending_row z) = 0%N).
Proof. exact mark_pending_frame. Qed.

Theorem C12_after_recycle_frame :
  (forall k eo cl ops y, cmds (run_ops k eo cl ops y) = cmds y) /\
  (forall eo cl ops y, ops_guarded ops = true -> in_flight y = true -> run_ops true eo cl ops y = y) /\
  (recycle_keeps_inflight = true -> ops_guarded after_recycle_ops = true).
Proof. exact (conj run_ops_cmds (conj guarded_ops_frame keeps_inflight_guarded)). Qed.

(* FULL statement (all histories of the faithful model): *)
Definition C12_resources_full : Prop :=
  forall (s0 : sys) (evs : list event), Inv s0 ->
    forall r, (cmd_used r (db (run s0 evs)) <= availz (avail s0) r)%N.

(* It holds exactly when the source has one of the repaired shapes ... *)
Theorem C12_resources_full_iff_repaired : C12_resources_full <-> C12_repaired = true.
Proof. exact (resources_full_iff_repaired recycle_keeps_inflight define_rejects_inflight). Qed.

(* ... in particular, with either repair, for every start state satisfying Inv and EVERY history
   (no hypothesis on the history): units held by executing commands never exceed what is available. *)
Theorem C12_resources_never_overcommitted :
  forall keep rej, keep || rej = true ->
  forall (s0 : sys) (evs : list event), Inv s0 ->
    forall r, (cmd_used r (db (run_gen keep rej s0 evs)) <= availz (avail s0) r)%N.
Proof. exact resources_full_of_repaired. Qed.

(* It is FALSE of the unrepaired shape (the code of /repo as long as both flags are false, finding D21):
   Workflow.define_step recycles a detached step whose command is still executing (Step.after_recycle
   replaces its step_resource rows; Step.initialize_row resets its row to PENDING). Two witnesses,
   both replayed on the real serve() by the oracle. *)
Theorem C12_resources_full_refuted_claims_replaced :
  exists (s0 : sys) (evs : list event) (r : N),
    Inv s0 /\ (availz (avail s0) r < cmd_used r (db (run_gen false false s0 evs)))%N.
Proof. exact resources_full_refuted_claims_replaced. Qed.

Theorem C12_resources_full_refuted_row_reset :
  exists (s0 : sys) (evs : list event) (r : N),
    Inv s0 /\ (availz (avail s0) r < cmd_used r (db (run_gen false false s0 evs)))%N /\
    exists x, nth_error (db (run_gen false false s0 evs)) 2 = Some x /\ length (cmds x) = 2.
Proof. exact resources_full_refuted_row_reset. Qed.

(* Fourth witness (the hash-check job in flight): after a partial recycle of a CHECKING step the verdict of the job
   that is still in flight reaches a row that has moved on (late_verdict = what Executor.try_skip_job writes,
   whatever the state of the row; on a CHECKING row it is ECheckDone: C12_checkdone_is_verdict). The second
   verdict resets the RUNNING row to PENDING and the step is dispatched again while its first command executes:
   2 units of gpu held of 1. Replayed on the real Workflow by the scripted E2 history `late-verdict`. Harmless
   under either repair. *)
Theorem C12_checkdone_is_verdict : forall keep rej s i c x, nth_error (db s) i = Some x -> st x = Checking ->
  step_gen keep rej s (ECheckDone i c) = Some (late_verdict s i c).
Proof. exact checkdone_is_verdict. Qed.

Theorem C12_resources_full_refuted_late_verdict :
  Inv sys0 /\
  (exists x, nth_error (db (run_gen false false sys0 late_h1)) 2 = Some x /\ st x = Running /\ length (cmds x) = 1) /\
  (availz (avail sys0) 1 <
   cmd_used 1 (db (run_gen false false (late_verdict (run_gen false false sys0 late_h1) 2 CMismatch) late_h2)))%N.
Proof. exact late_verdict_refuted. Qed.

Theorem C12_late_verdict_harmless_when_repaired : forall keep rej, keep || rej = true ->
  (cmd_used 1 (db (run_gen keep rej sys0 (late_h1 ++ late_h2))) <= 1)%N.
Proof. exact late_verdict_harmless_when_repaired. Qed.

(* PARTIAL (whatever the shape): for every start state satisfying Inv (tables agree with what executes,
   resource names per step distinct, nothing over-committed) and every history in which no step whose job
   is in flight (command executing, or hash check under way) is declared again (`quiet`): for every
   resource r the units held by executing commands never exceed what was made available (undefined = 0).
   Covers dispatch (guard), completion with any outcome, hash-check verdicts, reset_for_rerun, define
   (new, full and partial recycle of non-executing steps), hold/release, mark_step_pending. *)
Theorem C12_resources_never_overcommitted_partial :
  forall (s0 : sys) (evs : list event), Inv s0 -> quiet s0 evs ->
    forall r, (cmd_used r (db (run s0 evs)) <= availz (avail s0) r)%N.
Proof.
  exact (fun s0 evs HI Hq =>
    resources_never_overcommitted_partial_proof recycle_keeps_inflight define_rejects_inflight s0 evs HI
      (or_intror (quiet_calm _ _ evs s0 Hq))).
Qed.

(* and the SUM computed by the dispatch guard is then the true usage *)
Theorem C12_db_sum_within_availability_partial :
  forall (s0 : sys) (evs : list event), Inv s0 -> quiet s0 evs ->
    forall r, used r (db (run s0 evs)) = cmd_used r (db (run s0 evs)) /\
              (used r (db (run s0 evs)) <= availz (avail s0) r)%N.
Proof.
  exact (fun s0 evs HI Hq =>
    db_sum_within_availability_partial recycle_keeps_inflight define_rejects_inflight s0 evs HI
      (or_intror (quiet_calm _ _ evs s0 Hq))).
Qed.

(* with either repair the SUM of the guard is the true usage in EVERY history *)
Theorem C12_db_sum_within_availability :
  forall keep rej, keep || rej = true ->
  forall (s0 : sys) (evs : list event), Inv s0 ->
    forall r, used r (db (run_gen keep rej s0 evs)) = cmd_used r (db (run_gen keep rej s0 evs)) /\
              (used r (db (run_gen keep rej s0 evs)) <= availz (avail s0) r)%N.
Proof.
  exact (fun keep rej H s0 evs HI => db_sum_within_availability_partial keep rej s0 evs HI (or_introl H)).
Qed.

(* CALM histories (weaker than quiet, whatever the shape): a step whose job is in flight MAY be declared
   again, provided the declaration is a full recycle (same outputs) and either only its hash check is under
   way, or its command executes outside any hold block and the declaration asks for the same resources:
   the ordinary "a deferred plan runs again while its children still execute". Everything quiet is calm. *)
Theorem C12_resources_never_overcommitted_calm :
  forall (s0 : sys) (evs : list event), Inv s0 -> calm s0 evs ->
    forall r, (cmd_used r (db (run s0 evs)) <= availz (avail s0) r)%N.
Proof.
  exact (fun s0 evs HI Hq =>
    resources_never_overcommitted_partial_proof recycle_keeps_inflight define_rejects_inflight s0 evs HI (or_intror Hq)).
Qed.

Theorem C12_db_sum_within_availability_calm :
  forall (s0 : sys) (evs : list event), Inv s0 -> calm s0 evs ->
    forall r, used r (db (run s0 evs)) = cmd_used r (db (run s0 evs)) /\
              (used r (db (run s0 evs)) <= availz (avail s0) r)%N.
Proof.
  exact (fun s0 evs HI Hq =>
    db_sum_within_availability_partial recycle_keeps_inflight define_rejects_inflight s0 evs HI (or_intror Hq)).
Qed.

Theorem C12_quiet_is_calm : forall s0 evs, quiet s0 evs -> calm s0 evs.
Proof. exact (fun s0 evs H => quiet_calm recycle_keeps_inflight define_rejects_inflight evs s0 H). Qed.

(* Unconditional (all histories, recycling included): an executing command never holds a unit of
   a resource that is not defined, and the dispatch decision rejects such a step. *)
Theorem C12_undefined_resource_never_runs :
  forall (s0 : sys) (evs : list event),
    Uall (avail s0) (db s0) ->
    forall x m e, In x (db (run s0 evs)) -> In m (cmds x) -> In e (held m) -> lookup (fst e) (avail s0) <> None.
Proof. exact (undefined_resource_never_runs_proof recycle_keeps_inflight define_rejects_inflight). Qed.

Theorem C12_undefined_blocks_dispatch :
  forall s i x e, nth_error (db s) i = Some x -> has_hash x = false -> In e (rclaims x) ->
    lookup (fst e) (avail s) = None -> step s (EDispatch i) = None.
Proof. exact (undefined_blocks_dispatch recycle_keeps_inflight define_rejects_inflight). Qed.

(* ---- holds -------------------------------------------------------------------------------- *)

(* Unconditional, in terms of the tables: whenever the dispatch decision moves a step to RUNNING
   (no stored hash), the step was PENDING and attached, and EVERY step ancestor along the creator
   chain is RUNNING or SUCCEEDED and has _holding = 0. *)
Theorem C12_held_step_does_not_run :
  forall s i x, nth_error (db s) i = Some x -> has_hash x = false -> step s (EDispatch i) <> None ->
    st x = Pending /\ attached x = true /\
    forall a, anc (db s) i a ->
      exists ax, nth_error (db s) a = Some ax /\ holding ax = 0%N /\ (st ax = Running \/ st ax = Succeeded).
Proof. exact (dispatch_running_ancestors_ok recycle_keeps_inflight define_rejects_inflight). Qed.

(* The hash-check bypass (_has_hash AND _safe_ignoring_hold): the step goes to CHECKING, no
   command is started anywhere, every ancestor is RUNNING or SUCCEEDED; a mismatch drops the
   stored hash and returns the step to PENDING, so that only the full guard can dispatch it. *)
Theorem C12_checking_runs_no_command :
  forall s i x s', nth_error (db s) i = Some x -> has_hash x = true -> step s (EDispatch i) = Some s' ->
    map cmds (db s') = map cmds (db s) /\
    (exists y, nth_error (db s') i = Some y /\ st y = Checking) /\
    forall a, anc (db s) i a -> exists ax, nth_error (db s) a = Some ax /\ (st ax = Running \/ st ax = Succeeded).
Proof. exact (checking_runs_no_command recycle_keeps_inflight define_rejects_inflight). Qed.

Theorem C12_mismatch_drops_hash :
  forall s i s', step s (ECheckDone i CMismatch) = Some s' ->
    exists y, nth_error (db s') i = Some y /\ has_hash y = false /\ st y = Pending.
Proof. exact (mismatch_drops_hash recycle_keeps_inflight define_rejects_inflight). Qed.

(* FULL statement in terms of what the property talks about (open hold blocks of executing
   commands): *)
Definition C12_hold_full : Prop :=
  forall (s0 : sys) (evs : list event), Inv s0 ->
    let s := run s0 evs in
    forall i x, nth_error (db s) i = Some x -> has_hash x = false -> step s (EDispatch i) <> None ->
      forall a ax m, anc (db s) i a -> nth_error (db s) a = Some ax -> In m (cmds ax) -> depth m = 0%N.

Theorem C12_hold_full_iff_repaired : C12_hold_full <-> C12_repaired = true.
Proof. exact (hold_full_iff_repaired recycle_keeps_inflight define_rejects_inflight). Qed.

(* with either repair, for EVERY history of hold / release / define / recycle / complete / reset /
   dispatch events: when a command starts, no ancestor's executing command has an open hold block *)
Theorem C12_held_step_does_not_run_all_histories :
  forall keep rej, keep || rej = true ->
  forall (s0 : sys) (evs : list event), Inv s0 ->
    let s := run_gen keep rej s0 evs in
    forall i x, nth_error (db s) i = Some x -> has_hash x = false -> step_gen keep rej s (EDispatch i) <> None ->
      forall a ax m, anc (db s) i a -> nth_error (db s) a = Some ax -> In m (cmds ax) -> depth m = 0%N.
Proof. exact hold_full_of_repaired. Qed.

(* FALSE of the unrepaired shape: after_recycle zeroes _holding of an executing step inside its hold block. *)
Theorem C12_hold_full_refuted :
  exists (s0 : sys) (evs : list event) (i a : nat) (x ax : row) (m : cmd),
    Inv s0 /\ let s := run_gen false false s0 evs in
    nth_error (db s) i = Some x /\ has_hash x = false /\ step_gen false false s (EDispatch i) <> None /\
    creator x = Some a /\ nth_error (db s) a = Some ax /\ In m (cmds ax) /\ depth m = 1%N.
Proof. exact hold_full_refuted. Qed.

(* PARTIAL (whatever the shape): same hypothesis as for resources. *)
Theorem C12_held_step_does_not_run_partial :
  forall (s0 : sys) (evs : list event), Inv s0 -> quiet s0 evs ->
    let s := run s0 evs in
    forall i x, nth_error (db s) i = Some x -> has_hash x = false -> step s (EDispatch i) <> None ->
      forall a ax m, anc (db s) i a -> nth_error (db s) a = Some ax -> In m (cmds ax) -> depth m = 0%N.
Proof.
  exact (fun s0 evs HI Hq =>
    held_step_does_not_run_partial_proof recycle_keeps_inflight define_rejects_inflight s0 evs HI
      (or_intror (quiet_calm _ _ evs s0 Hq))).
Qed.

(* ... and for calm histories *)
Theorem C12_held_step_does_not_run_calm :
  forall (s0 : sys) (evs : list event), Inv s0 -> calm s0 evs ->
    let s := run s0 evs in
    forall i x, nth_error (db s) i = Some x -> has_hash x = false -> step s (EDispatch i) <> None ->
      forall a ax m, anc (db s) i a -> nth_error (db s) a = Some ax -> In m (cmds ax) -> depth m = 0%N.
Proof.
  exact (fun s0 evs HI Hq =>
    held_step_does_not_run_partial_proof recycle_keeps_inflight define_rejects_inflight s0 evs HI (or_intror Hq)).
Qed.

(* the three refuting histories are harmless under either repair *)
Theorem C12_witnesses_harmless_when_repaired :
  forall keep rej, keep || rej = true ->
    (cmd_used 1 (db (run_gen keep rej sys0 witness_claims_replaced)) <= 1)%N /\
    (cmd_used 1 (db (run_gen keep rej sys0 witness_row_reset)) <= 1)%N /\
    step_gen keep rej (run_gen keep rej sys0 witness_hold_zeroed) (EDispatch 3) = None.
Proof. exact witnesses_harmless_when_repaired. Qed.

Theorem C12_release_below_zero_rejected :
  forall s i k x, nth_error (db s) i = Some x -> holding x = 0%N ->
    step s (ERelease i k) = None /\ apply s (ERelease i k) = s.
Proof. exact (release_below_zero_rejected_proof recycle_keeps_inflight define_rejects_inflight). Qed.

Theorem C12_hold_release_counter :
  forall s i k x m, nth_error (db s) i = Some x -> nth_error (cmds x) k = Some m ->
    (exists y, nth_error (db (apply s (EHold i k))) i = Some y /\ holding y = (holding x + 1)%N) /\
    (holding x <> 0%N ->
       exists y, nth_error (db (apply s (ERelease i k))) i = Some y /\ holding y = (holding x - 1)%N).
Proof. exact (hold_release_counter recycle_keeps_inflight define_rejects_inflight). Qed.

(* Trigger step_reset_holding: every write of a state other than RUNNING leaves _holding = 0; in
   particular after a command ended with any outcome (failure inside a hold block included). *)
Theorem C12_holding_reset_on_leaving_running :
  (forall ns x, ns <> Running -> holding (set_state_tr ns x) = 0%N) /\
  (forall s i k o s', step s (EComplete i k o) = Some s' ->
     exists y, nth_error (db s') i = Some y /\ holding y = 0%N /\ st y = state_of_outcome o /\ st y <> Running).
Proof. exact (holding_reset_on_leaving_running_proof recycle_keeps_inflight define_rejects_inflight). Qed.

(* ... and a zeroed counter does not free the children of a FAILED (or PENDING, CHECKING) creator *)
Theorem C12_failed_creator_blocks_children :
  forall s i x c cx, nth_error (db s) i = Some x -> has_hash x = false -> creator x = Some c ->
    nth_error (db s) c = Some cx -> (st cx = Failed \/ st cx = Pending \/ st cx = Checking) ->
    step s (EDispatch i) = None.
Proof. exact (failed_creator_blocks_children recycle_keeps_inflight define_rejects_inflight). Qed.

(* The seed expressions of FILL_SAFE_UPDATE agree with its recursive expressions. *)
Theorem C12_safe_formulas_consistent :
  forall cs csn cst ch sst sh,
  seed_safe false cs csn cst ch sst sh = rec_chain cs csn cst ch /\
  seed_safe_nh false cs csn cst ch sst sh = rec_chain_nh cs csn cst ch /\
  seed_chain false cs csn cst ch sst sh = rec_chain (rec_chain cs csn cst ch) false sst sh /\
  seed_chain_nh false cs csn cst ch sst sh = rec_chain_nh false (rec_chain_nh cs csn cst ch) sst sh.
Proof. exact seed_rec_consistent. Qed.

(* ---- non-vacuity -------------------------------------------------------------------------- *)

(* The hypotheses are satisfiable: sys0 (boot plan executing, gpu:1 available) satisfies Inv and U,
   and a quiet history exists in which two steps compete for the gpu: the second is refused while
   the first runs and accepted after it completed. *)
Example C12_example_inv : Inv sys0 /\ Uall (avail sys0) (db sys0).
Proof. split; [exact sys0_inv|exact sys0_U]. Qed.

Definition ex_hist : list event :=
  [ EDefine 0 1 0 [(1%N, 1%N)] need_DEFAULT false; EDefine 0 2 0 [(1%N, 1%N)] need_DEFAULT false;
    EDefine 0 3 0 [(7%N, 1%N)] need_DEFAULT false; meta_all; EDispatch 1 ].

Example C12_example_guard :
  step (run sys0 ex_hist) (EDispatch 2) = None /\
  step (run sys0 ex_hist) (EDispatch 3) = None /\
  step (run sys0 (ex_hist ++ [EComplete 1 0 OSucc])) (EDispatch 2) <> None /\
  cmd_used 1 (db (run sys0 ex_hist)) = 1%N.
Proof. vm_compute. repeat split; try reflexivity. discriminate. Qed.

Example C12_example_quiet : quiet sys0 (ex_hist ++ [EComplete 1 0 OSucc; EDispatch 2]).
Proof. vm_compute. repeat split; try discriminate. Qed.

(* calm is strictly weaker than quiet: the benign re-declaration of an executing step *)
Example C12_example_calm :
  calm_gen false false sys0 history_benign_redeclare /\ ~ quiet_gen false false sys0 history_benign_redeclare /\
  step_gen false false (run_gen false false sys0 history_benign_redeclare) (EDispatch 3) = None /\
  cmd_used 1 (db (run_gen false false sys0 history_benign_redeclare)) = 1%N.
Proof.
  split; [|split; [|split]].
  - vm_compute. repeat split; try discriminate; try (left; split; [reflexivity|discriminate]).
    all: try (right; repeat split; right; split; reflexivity).
  - vm_compute. intuition discriminate.
  - vm_compute. reflexivity.
  - vm_compute. reflexivity.
Qed.

(* full recycle of a SUCCEEDED step: it keeps its state unless the env_overrides of the new declaration differ
   (then PENDING, hash kept: it is checked again); a step in flight is not touched by that statement *)
Definition ex_env (eo : bool) : list event :=
  [ EDefine 0 1 0 [] need_DEFAULT false; meta_all; EDispatch 1; EReset 1;
    EDefine 1 2 0 [] need_DEFAULT false; meta_all; EDispatch 2; EReset 2; EComplete 2 0 OSucc;
    EComplete 1 0 ODefer; meta_all; EDispatch 1; EReset 1; EDefine 1 2 0 [] need_DEFAULT eo ].

Example C12_example_env_overrides :
  map (fun x => (st x, has_hash x)) (skipn 2 (db (run_gen false false sys0 (ex_env false)))) = [(Succeeded, true)] /\
  map (fun x => (st x, has_hash x)) (skipn 2 (db (run_gen false false sys0 (ex_env true)))) = [(Pending, true)] /\
  forall cl nd y, in_flight y = true -> holding y = 0%N -> cl = rclaims y ->
    core (recycle_full_row false cl nd true y) = core y.
Proof.
  split; [vm_compute; reflexivity|split; [vm_compute; reflexivity|]].
  intros cl nd y Hf Hh Hcl. unfold recycle_full_row.
  apply (run_ops_same_core false true cl y after_recycle_ops y Hf Hh Hcl eq_refl).
Qed.

(* hold: a child declared under an open hold is refused until the release *)
Definition ex_hold : list event :=
  [ EHold 0 0; EDefine 0 1 0 [] need_DEFAULT false; meta_all ].

Example C12_example_hold :
  step (run sys0 ex_hold) (EDispatch 1) = None /\
  step (run sys0 (ex_hold ++ [ERelease 0 0])) (EDispatch 1) <> None.
Proof. vm_compute. split; [reflexivity|discriminate]. Qed.

Example C12_example_loop :
  length (running (lrun (loop_init 2) [LPopBegin; LPopEnd (Some 1); LHashStart 7; LPopBegin; LHashStart 8; LPromotedStart])) = 2.
Proof. vm_compute. reflexivity. Qed.

(* njob = 1: job 1 runs and parks in amend(); neither a hash task nor a second job is started next
   to it, and its promoted hash job is not a slot; after it ended, job 2 starts *)
Example C12_example_amend :
  let l := lrun (loop_init 1) [LPopBegin; LPopEnd (Some 1); LAmendBegin 1; LPromotedStart; LHashStart 7; LPopBegin; LPopEnd (Some 2)] in
  running l = [TJob 1] /\ amending l = [1] /\ promoted l = 1 /\
  running (lrun l [LPromotedDone; LAmendEnd 1; LTaskDone (TJob 1); LPopBegin; LPopEnd (Some 2)]) = [TJob 2].
Proof. vm_compute. repeat split; reflexivity. Qed.
