(* C20 A path means the same file to a step and to the director.
   Property theorems only; proofs live in proofs/PathProofs.v and lib/PosixPath.v.

   translate, translate_back, get_affixes, apply_affixes, keep_affixes (= api._keep_affixes),
   get_stepup_root, exec_ROOT, exec_HERE (= the two expressions of Executor._run_command) are
   GENERATED from the Python source on every run (gen/GenPath.v).

   resolve dir p = normpath (join dir p): the file that the string p designates for a process whose
   working directory is dir (lexical resolution, no symbolic links).  For absolute normalised
   strings, equality of strings is equality of component lists.
   mkenv root here = the environment {STEPUP_ROOT: root, HERE: here}.
   wf_root root   = root is absolute and normalised (this is what str(Path.cwd()) yields).
   No hypothesis on HERE, on the working directory argument, or on the path: relative, absolute,
   with ".", "..", repeated slashes, trailing slash, leading "./", two leading slashes, empty. *)
From Coq Require Import List NArith Bool.
From SV Require Import lib.Bytes lib.PosixPath gen.GenPath model.PathModel proofs.PathProofs.
Import ListNotations.
Open Scope N_scope.

(* 1. A path passed to an API function by a caller in directory root/HERE/workdir is recorded as a
      path that designates the same file from the project root. *)
Theorem C20_translate_designates_same :
  forall cwd root here wd p, wf_root root = true ->
    resolve root (translate cwd (mkenv root here) p wd) = resolve (caller_dir root here wd) p.
Proof. exact translate_designates_same. Qed.

(* 2. Absolute paths are only normalised. *)
Theorem C20_translate_abs_stable :
  forall cwd env p wd, isabs p = true -> translate cwd env p wd = normpath p.
Proof. exact translate_abs_stable. Qed.

(* 3. The recorded path is normalised. *)
Theorem C20_translate_normalized :
  forall cwd root here wd p, wf_root root = true ->
    normalized (translate cwd (mkenv root here) p wd) = true.
Proof. exact translate_normalized. Qed.

(* The first clause of C20 in full: same file AND normalised, for every root, HERE, working directory
   and path.  (Refuted on the tree before repo commit 5ab2cfe, finding D11; proved since.) *)
Definition C20_full : Prop :=
  forall cwd root here wd p, wf_root root = true ->
    resolve root (translate cwd (mkenv root here) p wd) = resolve (caller_dir root here wd) p /\
    normalized (translate cwd (mkenv root here) p wd) = true.

Theorem C20_full_holds : C20_full.
Proof. exact translate_full. Qed.

(* The variant of translate before the fix (absolute working directory: workdir/path returned as
   joined) does NOT satisfy C20_full.  witness: root "/r", HERE ".", workdir "/egg", path "../x"
   -> "/egg/../x".  Replayed on the implementation as the first oracle case on every run. *)
Theorem C20_translate_pre_D11_refuted :
  exists cwd root here wd p, wf_root root = true /\
    normalized (translate_pre_D11 cwd (mkenv root here) p wd) = false.
Proof. exact translate_pre_D11_refuted. Qed.

(* 4. Paths handed back to the step designate, from the step's directory, the file that the stored
      path designates from the root. *)
Theorem C20_translate_back_designates_same :
  forall cwd root here wd q, wf_root root = true ->
    resolve (caller_dir root here wd) (translate_back cwd (mkenv root here) q wd) = resolve root q.
Proof. exact translate_back_designates_same. Qed.

(* 5. Translation leaves a normalised root-relative path that stays inside the root unchanged. *)
Theorem C20_translate_fixpoint :
  forall cwd root q, wf_root root = true -> inside_normalized q = true ->
    translate cwd (mkenv root s_dot) q s_dot = q.
Proof. exact translate_fixpoint. Qed.

(* In general the result is the canonical relative path of the designated file ... *)
Theorem C20_translate_root_relative_canonical :
  forall cwd root q, wf_root root = true -> isabs q = false ->
    translate cwd (mkenv root s_dot) q s_dot = plib_relpathto cwd root (resolve root q).
Proof. exact translate_root_relative. Qed.

(* ... so a normalised relative path that leaves the root and re-enters it is rewritten (to the same
   file, by theorem 1): the fixpoint clause read for ALL normalised relative paths is false.
   witness: root "/r", path "../r/x" -> "x".  This is canonicalisation, not a defect. *)
Theorem C20_translate_fixpoint_outside_root_refuted :
  exists cwd root q, wf_root root = true /\ rel_normalized q = true /\
    translate cwd (mkenv root s_dot) q s_dot <> q.
Proof.
  exists [47], [47;114], [46;46;47;114;47;120]. repeat split; try reflexivity.
  vm_compute. discriminate.
Qed.

(* 6. Affixes.  apply_affixes is exactly the explicit function apply_affixes_spec (four raise sites);
      get_affixes reads back what apply_affixes put on; _keep_affixes preserves the affixes of its
      argument whenever the transform yields a normalised path other than "/" or "//", and its
      raising cases are characterised. *)
Theorem C20_apply_affixes_characterised :
  forall q l t, apply_affixes q l t = apply_affixes_spec q l t.
Proof. exact apply_affixes_eq. Qed.

Theorem C20_get_affixes_of_apply_affixes :
  forall q l t r, apply_affixes q l t = Ok r ->
    q <> [] -> ends_with q s_slash = false -> starts_with q s_dotslash = false ->
    get_affixes r = (l, t).
Proof. exact get_affixes_apply. Qed.

Theorem C20_keep_affixes_preserves :
  forall (f : str -> str) p r,
    normalized (f p) = true -> ends_with (f p) s_slash = false ->
    keep_affixes p f = Ok r -> get_affixes r = get_affixes p.
Proof. exact keep_affixes_preserves. Qed.

Theorem C20_keep_affixes_result :
  forall (f : str -> str) p, normalized (f p) = true ->
    keep_affixes p f =
      let l := fst (get_affixes p) in let t := snd (get_affixes p) in
      if negb (str_eqb l []) && isabs (f p) then Raise 2
      else if negb (str_eqb t []) && ends_with (f p) s_slash then Raise 4
      else Ok (l ++ f p ++ t).
Proof. exact keep_affixes_result. Qed.

Theorem C20_keep_normpath_result :
  forall p, keep_normpath p =
    if negb (str_eqb (snd (get_affixes p)) []) && ends_with (normpath p) s_slash then Raise 4
    else Ok (fst (get_affixes p) ++ normpath p ++ snd (get_affixes p)).
Proof. exact keep_normpath_result. Qed.

(* 7. The environment built by Executor._run_command for a step with stored working directory wd
      (director running in root, step launched in root/wd): ROOT leads from the step's directory to
      the root, HERE leads from the root to the step's directory. *)
Theorem C20_exec_ROOT_HERE :
  forall root env wd, wf_root root = true ->
    resolve (step_cwd root wd) (exec_ROOT root env wd) = root /\
    resolve root (exec_HERE root env wd) = step_cwd root wd.
Proof. exact exec_env_resolves. Qed.

(* 8. End to end: in the environment the executor gives it, what a step means by p (from its actual
      working directory) is what the director means by translate(p), and conversely. *)
Theorem C20_step_translate_end_to_end :
  forall cwd root wd p, wf_root root = true ->
    resolve root (translate cwd (step_env root wd) p s_dot) = resolve (step_cwd root wd) p.
Proof. exact step_translate_end_to_end. Qed.

Theorem C20_step_translate_back_end_to_end :
  forall cwd root wd q, wf_root root = true ->
    resolve (step_cwd root wd) (translate_back cwd (step_env root wd) q s_dot) = resolve root q.
Proof. exact step_translate_back_end_to_end. Qed.

(* 9. The affixes restored by _keep_affixes do not change the designated file: what api.static /
      api.glob record for "./sub/" is the same directory the caller means. *)
Theorem C20_apply_affixes_same_file :
  forall d q l t r, apply_affixes q l t = Ok r -> q <> [] -> resolve d r = resolve d q.
Proof. exact apply_affixes_same_file. Qed.

Theorem C20_keep_translate_designates_same :
  forall cwd root here p r, wf_root root = true -> keep_translate cwd (mkenv root here) p = Ok r ->
    resolve root r = resolve (caller_dir root here s_dot) p.
Proof. exact keep_translate_designates_same. Qed.

Theorem C20_keep_normpath_same_file :
  forall d p r, keep_normpath p = Ok r -> resolve d r = resolve d p.
Proof. exact keep_normpath_same_file. Qed.

(* 10. Nothing set in the environment (a script started by hand in the project root cwd): path.py
       falls back to root = os.getcwd() and HERE = relpath(".", root) = ".". *)
Theorem C20_translate_designates_same_noenv :
  forall cwd wd p, wf_root cwd = true ->
    resolve cwd (translate cwd [] p wd) = resolve (resolve cwd wd) p.
Proof. exact translate_designates_same_noenv. Qed.

Theorem C20_translate_back_designates_same_noenv :
  forall cwd wd q, wf_root cwd = true ->
    resolve (resolve cwd wd) (translate_back cwd [] q wd) = resolve cwd q.
Proof. exact translate_back_designates_same_noenv. Qed.

(* 11. Declaration time versus execution time.  A step running in stored working directory wd1
       declares a sub-step (workdir wd2, path p): the recorded path is the file p designates from
       wd2 inside the step's real directory.  And what api.step records (tr_workdir = translate(wd),
       paths translate(p, wd)) is consistent with where the executor later runs the command. *)
Theorem C20_nested_step_translate :
  forall cwd root wd1 wd2 p, wf_root root = true ->
    resolve root (translate cwd (step_env root wd1) p wd2) = resolve (resolve (step_cwd root wd1) wd2) p.
Proof. exact nested_step_translate. Qed.

Theorem C20_declared_paths_match_execution :
  forall cwd root here wd p, wf_root root = true ->
    resolve root (translate cwd (mkenv root here) p wd)
    = resolve (step_cwd root (translate cwd (mkenv root here) wd translate_default_workdir)) p.
Proof. exact declared_paths_match_execution. Qed.

(* ---------- Examples: the hypotheses are satisfiable, the functions compute ---------- *)
(* root "/r/proj" *)
Definition ex_root : str := [47;114;47;112;114;111;106].

(* `stepup build TARGET` typed in any directory: tui._normalize_targets resolves the raw target against the
   working directory it sees at its call sites (generated: targets_normalized_in_user_cwd says every call comes
   before the `cd` to the project root).  The recorded target designates, from the root, the file the user
   named from the directory the command was typed in; and it is normalized.  For all roots, directories and
   raw targets (relative, absolute, with `..`).  The proof needs the generated boolean to be `true`: with the
   call after the `cd` the statement is false (second example below). *)
Theorem C20_cli_target_designates_same :
  forall user_cwd root raw, wf_root root = true -> wf_root user_cwd = true ->
    resolve root (cli_target user_cwd root raw) = resolve user_cwd raw
    /\ normalized (cli_target user_cwd root raw) = true.
Proof.
  intros u r raw Hr Hu. split; [apply cli_target_designates_same; assumption|apply normalize_target_normalized].
Qed.

(* Paths the director hands back to a step over RPC (api.get_info: StepInfo.inp / out / vol).  The list of path
   fields of RPC results that api.py uses, with the function api.py maps them back with, is generated from api.py;
   every one of them goes through translate_back, so the path the step receives designates, from the step's
   working directory (root / HERE), the file the director recorded as root-relative q.  All roots, HERE, q. *)
Theorem C20_rpc_paths_designate_same :
  forallb (fun f => is_back_translate (snd f)) rpc_back_fields = true /\ rpc_back_fields <> [] /\
  forall site m, In (site, m) rpc_back_fields ->
    forall cwd root here q, wf_root root = true ->
      resolve (caller_dir root here s_dot) (back_apply m cwd (mkenv root here) q) = resolve root q.
Proof. split; [exact rpc_back_all_translate|]. split; [discriminate|exact rpc_paths_designate_same]. Qed.

(* api.amend() remembers what it amended before (_AMEND_HISTORY, state of the step process) and drops repeated
   requests before they reach the director.  The statements that compare a path set with the history or add it to
   the history, and the frame of the set (after translate(): root-relative; before: as the step wrote it), are
   generated from api.py.  All of them work on translated paths, hence: a request is dropped ONLY when an earlier
   request of the same process designates the same file (from the step's directory root/HERE), and a repeated
   request IS dropped.  For all roots, HERE, earlier requests and paths. *)
Theorem C20_amend_history_frames : amend_frames_ok = true /\ amend_history_uses <> [].
Proof. split; [exact amend_frames_ok_true|discriminate]. Qed.

Theorem C20_amend_drops_only_same_file :
  forall cwd root here earlier p, wf_root root = true ->
    (amend_dropped cwd (mkenv root here) earlier p = true ->
       exists p', In p' earlier /\
         resolve (caller_dir root here s_dot) p' = resolve (caller_dir root here s_dot) p)
    /\ (In p earlier -> amend_dropped cwd (mkenv root here) earlier p = true).
Proof.
  intros cwd root here earlier p Hr. split; [apply amend_drops_only_same_file; exact Hr|apply amend_drops_repeats].
Qed.

(* Non-vacuity, and why the frames matter: step in /r/proj/W (HERE = W); "p" was amended (recorded W/p); the later
   request "W/p" names /r/proj/W/W/p, another file, and is not dropped - while its spelling equals the recorded
   path of the first request, which is what a comparison of raw paths with the history would look at. *)
Example C20_ex_amend_history :
  amend_dropped [47] (mkenv [47;114;47;112;114;111;106] [87]) [[112]] [87;47;112] = false /\
  amend_dropped [47] (mkenv [47;114;47;112;114;111;106] [87]) [[112]] [46;47;112] = true /\
  amend_history [47] (mkenv [47;114;47;112;114;111;106] [87]) [[112]] = [[87;47;112]] /\
  str_in [87;47;112] (amend_history [47] (mkenv [47;114;47;112;114;111;106] [87]) [[112]]) = true.
Proof. vm_compute. repeat split; reflexivity. Qed.

Theorem C20_target_call_sites_before_cd : targets_normalized_in_user_cwd = true /\ target_call_sites <> [].
Proof. split; [exact target_flag_true|discriminate]. Qed.

(* root /r/proj, command typed in /r/proj/sub, target "here.txt": recorded "sub/here.txt"; had the call seen the
   root as working directory it would record "here.txt", which is /r/proj/here.txt, another file. *)
Example C20_ex_cli_target :
  cli_target [47;114;47;112;114;111;106;47;115;117;98] [47;114;47;112;114;111;106] [104;101;114;101;46;116;120;116] = [115;117;98;47;104;101;114;101;46;116;120;116] /\
  cli_target [47;114;47;112;114;111;106;47;115;117;98] [47;114;47;112;114;111;106] [46;46;47;100;47] = [100] /\
  normalize_target [47;114;47;112;114;111;106] [47;114;47;112;114;111;106] [104;101;114;101;46;116;120;116] = [104;101;114;101;46;116;120;116] /\
  resolve [47;114;47;112;114;111;106] [104;101;114;101;46;116;120;116] <> resolve [47;114;47;112;114;111;106;47;115;117;98] [104;101;114;101;46;116;120;116].
Proof. vm_compute. repeat split; try reflexivity. discriminate. Qed.

Example C20_ex_wf_root : wf_root ex_root = true /\ wf_root [47] = true /\ wf_root [47;47;110;101;116] = true.
Proof. vm_compute. repeat split. Qed.

(* nested: HERE "a/b", workdir ".", "x.txt" -> "a/b/x.txt" *)
Example C20_ex_nested :
  translate [47] (mkenv ex_root [97;47;98]) [120;46;116;120;116] [46] = [97;47;98;47;120;46;116;120;116].
Proof. vm_compute. reflexivity. Qed.

(* sibling: HERE "a", workdir "../b", "../x.txt" -> "x.txt"; and "x" in workdir "../b" -> "b/x" *)
Example C20_ex_sibling :
  translate [47] (mkenv ex_root [97]) [46;46;47;120;46;116;120;116] [46;46;47;98] = [120;46;116;120;116] /\
  translate [47] (mkenv ex_root [97]) [120] [46;46;47;98] = [98;47;120].
Proof. vm_compute. split; reflexivity. Qed.

(* outside the root: absolute path "/etc/x"; absolute workdir "/egg" with "x" -> "/egg/x";
   HERE "../../bar/egg" under root "/home/dude/project/source": translate_back "../public" ->
   "../../project/public" (tests/test_paths.py::test_translate_back_outside) *)
Example C20_ex_outside :
  translate [47] (mkenv ex_root [97]) [47;101;116;99;47;120] [46] = [47;101;116;99;47;120] /\
  translate [47] (mkenv ex_root [97]) [120] [47;101;103;103] = [47;101;103;103;47;120] /\
  translate_back [47] (mkenv [47;104;111;109;101;47;100;117;100;101;47;112;114;111;106;101;99;116;47;115;111;117;114;99;101]
                             [46;46;47;46;46;47;98;97;114;47;101;103;103]) [46;46;47;112;117;98;108;105;99] [46]
    = [46;46;47;46;46;47;112;114;111;106;101;99;116;47;112;117;98;108;105;99].
Proof. vm_compute. repeat split; reflexivity. Qed.

(* executor: workdir "a/b" -> ROOT "../..", HERE "a/b"; workdir "../x" -> ROOT "../proj", HERE "../x" *)
Example C20_ex_exec :
  exec_ROOT ex_root [] [97;47;98] = [46;46;47;46;46] /\ exec_HERE ex_root [] [97;47;98] = [97;47;98] /\
  exec_ROOT ex_root [] [46;46;47;120] = [46;46;47;112;114;111;106] /\ exec_HERE ex_root [] [46;46;47;120] = [46;46;47;120].
Proof. vm_compute. repeat split; reflexivity. Qed.

(* affixes: "./sub/" with HERE "a" -> "./a/sub/"; "a//b/./c/" normalises to "a/b/c/";
   "/" raises (site 4: trailing slash on "/"); "/." loses nothing but gains the slash of "/". *)
Example C20_ex_affixes :
  keep_translate [47] (mkenv ex_root [97]) [46;47;115;117;98;47] = Ok [46;47;97;47;115;117;98;47] /\
  keep_normpath [97;47;47;98;47;46;47;99;47] = Ok [97;47;98;47;99;47] /\
  keep_normpath [47] = Raise 4 /\
  keep_normpath [47;46] = Ok [47] /\
  get_affixes [46;47] = ([], [47]) /\
  inside_normalized [97;47;98] = true /\ inside_normalized [46] = true /\ inside_normalized [46;46;47;120] = false.
Proof. vm_compute. repeat split; reflexivity. Qed.
