(* C16 Remote calls are answered exactly once and correctly paired.
   Property theorems only; proofs live in proofs/RpcProofs.v; the model is model/Rpc.v; the facts
   read from stepup/core/rpc.py and director.py are in gen/GenRpc.v (regenerated every run). *)
From Coq Require Import List Arith NArith Bool Lia.
From SV Require Import lib.Bytes.
From SV Require Import lib.RpcTypes.
From SV Require Import gen.GenRpc.
From SV Require Import model.Rpc.
From SV Require Import proofs.RpcProofs.
From SV Require Import proofs.RpcLive.
Import ListNotations.
Open Scope N_scope.

(* Framing.  For ALL lists of messages whose call id fits the id field and whose body is not
   larger than MAX_BODY_SIZE, and for ALL ways of cutting the byte stream into the fragments that
   successive reads return, the reader (readexactly(HEADER_SIZE), _decode_header,
   readexactly(size)) yields exactly these messages, in order, and ends idle with nothing left
   over.  No bound on the number or the size of messages or fragments.
   wf_msg (id, body) := id < 2^(8*FIELD_SIZE) /\ body_size body <= MAX_BODY_SIZE;
   item_of (id, body) := IMsg id (normalise body), where an empty body is read back as None. *)
Theorem C16_framing_any_fragmentation :
  forall (msgs : list (N * option str)) (frags : list str),
    Forall wf_msg msgs ->
    concat frags = concat (map (fun m => encode_msg (fst m) (snd m)) msgs) ->
    feed_frags reader_idle frags = (reader_idle, map item_of msgs).
Proof. exact framing_any_fragmentation. Qed.

(* Cutting the reads anywhere delivers a prefix of the messages first and the rest afterwards. *)
Theorem C16_framing_prefix_then_rest :
  forall (msgs : list (N * option str)) (f1 f2 : list str),
    Forall wf_msg msgs ->
    concat (f1 ++ f2) = concat (map (fun m => encode_msg (fst m) (snd m)) msgs) ->
    exists st i1 i2, feed_frags reader_idle f1 = (st, i1) /\ feed_frags st f2 = (reader_idle, i2)
                     /\ i1 ++ i2 = map item_of msgs.
Proof. exact framing_prefix_then_rest. Qed.

(* Any HEADER_SIZE bytes that announce a body larger than MAX_BODY_SIZE are rejected as soon as
   the last header byte is read: one IOversize item, the reader is dead, nothing after is read. *)
Theorem C16_oversized_header_rejected :
  forall (h rest : str),
    length h = HEADER_SIZE ->
    oversized (snd (decode_header h)) = true ->
    feed reader_idle (h ++ rest)
    = (RDead, [IOversize (fst (decode_header h)) (snd (decode_header h))]).
Proof. exact oversized_header_rejected. Qed.

(* ... and on a connection this is a failure of the receive loop (never "peer gone"): the
   handlers in flight are cancelled and nothing more is written. *)
Theorem C16_oversized_header_fails_connection :
  forall classify handler (c : conn) (h rest : str),
    c_recv c = RRun -> c_fail c = FNone -> c_rd c = reader_idle ->
    length h = HEADER_SIZE -> oversized (snd (decode_header h)) = true ->
    let c' := step classify handler c (EvRecv (h ++ rest)) in
    status_of c' = StFailedRecv /\ c_wire c' = c_wire c /\ c_inflight c' = [] /\ c_queue c' = [].
Proof. exact oversized_header_fails_connection. Qed.

(* An empty body (None, or b"" which is framed identically) is the sentinel: read back as None;
   from the client it is the close request (stop, no reply, no task, what follows is not read);
   to the client it tells the pending call with that id that no reply is coming. *)
Theorem C16_empty_body_is_sentinel :
  forall id, id < 2 ^ (8 * N.of_nat FIELD_SIZE) ->
    encode_msg id (Some []) = encode_msg id None
    /\ feed reader_idle (encode_msg id (Some [])) = (reader_idle, [IMsg id None])
    /\ (forall classify handler rest,
          let c := step classify handler conn_init (EvRecv (encode_msg id None ++ rest)) in
          c_stop c = true /\ c_recv c = REnded /\ c_received c = [] /\ reply_ids c = []
          /\ status_of c = StClosed)
    /\ (forall k w rest, k_alive k = true -> pop_pending id (k_pending k) = Some (w, rest) ->
          client_items [IMsg id None] k
          = mk_client (k_rd k) true false (k_counter k) rest
                      (if w then k_done k ++ [(id, CRBody None)] else k_done k)).
Proof. exact empty_body_is_sentinel. Qed.

(* Exactly once, correctly paired.  For ARBITRARY event lists of one connection (any bytes in any
   fragmentation, any completion order, any number of calls in flight, drains finishing or
   failing at any point, peer gone / garbage / stop anywhere), with
   reply_ids c = call ids of all reply objects (written ++ queued ++ dropped), and
   cnt id l = number of occurrences of id in l:
   (1) per call id, replies + handlers in flight = requests received: no request ever has two
       replies, and one whose handler is no longer in flight has exactly one reply object;
   (2) a reply carries the call id of a received request;
   (3) with distinct call ids, at most one reply per call id;
   (4) while the connection is up (receiving, not stopped, sender alive) nothing is dropped:
       every request not in flight has its reply written or queued, exactly once. *)
Theorem C16_reply_exactly_once :
  forall classify handler (evs : list event),
    let c := run classify handler conn_init evs in
    (forall id, (cnt id (reply_ids c) + cnt id (inflight_ids c))%nat = cnt id (c_received c))
    /\ (forall id, In id (reply_ids c) -> In id (c_received c))
    /\ (NoDup (c_received c) -> forall id, (cnt id (reply_ids c) <= 1)%nat)
    /\ (conn_up c = true ->
        c_dropped c = [] /\
        forall id, (cnt id (map fst (c_wire c) ++ map fst (c_queue c)) + cnt id (inflight_ids c))%nat
                   = cnt id (c_received c)).
Proof. exact reply_exactly_once. Qed.

(* A failure inside a handler (any exception, also a cancellation) is an ordinary completion:
   it changes nothing but its own call. *)
Theorem C16_handler_failure_is_local :
  forall classify handler (c : conn) id usage n rest,
    take_inflight id (c_inflight c) = Some (n, rest) ->
    let c' := step classify handler c (EvComplete id (ORaise usage)) in
    c_inflight c' = rest /\ c_fail c' = c_fail c /\ c_recv c' = c_recv c /\ c_stop c' = c_stop c
    /\ c_cancelled c' = c_cancelled c /\ c_received c' = c_received c.
Proof. exact handler_failure_is_local. Qed.

(* The one exception, as the code stands: a handler whose RESULT cannot be pickled.  The caller
   gets the sentinel, but the connection is torn down and the sibling calls are cancelled. *)
Theorem C16_unpicklable_result_disturbs_siblings_refuted :
  exists classify handler evs,
    let c := run classify handler conn_init evs in
    c_wire c = [(2, KSentinel)] /\ c_cancelled c = [1; 3] /\ status_of c = StFailedSend.
Proof. exact unpicklable_result_disturbs_siblings. Qed.

(* Client side.  A response resolves exactly the pending call with its id; a response with an
   unknown id ends the loop and fails every waiting caller; when the connection ends all pending
   calls are failed; over ANY client history each issued call id has at most one entry, pending
   or delivered, never both, and none exists for an id that was not issued. *)
Theorem C16_client_pairs_by_id :
  (forall k id body w rest, k_alive k = true -> pop_pending id (k_pending k) = Some (w, rest) ->
     client_items [IMsg id body] k
     = mk_client (k_rd k) true false (k_counter k) rest
                 (if w then k_done k ++ [(id, CRBody body)] else k_done k)
     /\ exists l1 l2, k_pending k = l1 ++ (id, w) :: l2 /\ rest = l1 ++ l2 /\ ~ In id (map fst l1))
  /\ (forall k id body, k_alive k = true -> ~ In id (map fst (k_pending k)) ->
     client_items [IMsg id body] k = fail_all true k)
  /\ (forall k f, k_pending (fail_all f k) = [] /\ k_alive (fail_all f k) = false /\
      forall id, In (id, true) (k_pending k) -> In (id, CRConnLost) (k_done (fail_all f k)))
  /\ (forall evs, client_ok (crun client_init evs)).
Proof. exact client_pairs_by_id. Qed.

(* The synchronous client returns a body only for the response with the id it waits for. *)
Theorem C16_sync_client_checks_id :
  forall expected id body rest,
    wf_msg (id, body) ->
    fst (fst (fst (sync_recv expected reader_idle [] ((encode_msg id body ++ rest) :: []))))
    = if id =? expected then SyOk (normalise body) else SyMismatch id.
Proof. exact sync_client_checks_id. Qed.

(* Only procedures the handler exposes are ever invoked, on every history; for the director
   these are exactly the generated @allow_rpc names.  The decision of _call_procedure. *)
Theorem C16_only_allowed_invoked :
  (forall classify handler (evs : list event),
     Forall (fun n => handler n = LAllowed) (c_invoked (run classify handler conn_init evs)))
  /\ (forall classify (evs : list event),
     Forall (fun n => In n director_allowed) (c_invoked (run classify director_handler conn_init evs)))
  /\ (forall lk ok, dispatch lk ok = DInvoke <-> lk = LAllowed /\ ok = true).
Proof.
  exact (conj only_allowed_invoked (conj director_invokes_only_exposed dispatch_invoke)).
Qed.

(* Failure classes: a UsageError subclass that the client can rebuild comes back as the same
   class; anything else (internal errors, refusals of _call_procedure, STEPUP_DEBUG) as the
   generic RPCError. *)
Theorem C16_failure_class_mapping :
  (forall e, ex_usage e = true -> ex_importable e = true -> ex_subclass e = true ->
             ex_ctor_ok e = true -> client_raises false e = CESame)
  /\ (forall e debug, ex_usage e = false -> client_raises debug e = CEGeneric)
  /\ (forall e, client_raises true e = CEGeneric)
  /\ (forall u, kind_of (result_of (ORaise u)) = if u then KUsage else KGeneric)
  /\ (forall lk ok, dispatch lk ok = DInvoke \/ dispatch lk ok = DRefuse ERPCError).
Proof. exact failure_class_mapping. Qed.

(* Connections are independent: the state of connection j after any interleaved history is the
   state it reaches on its own events alone. *)
Theorem C16_connections_independent :
  forall classify handler (evs : list (nat * event)) (d : director) j,
    nth_error (run_director classify handler d evs) j =
    option_map (fun c => run classify handler c (events_for j evs)) (nth_error d j).
Proof. exact connections_independent. Qed.

(* Non-interference over the product system (the director = all its connections): events on OTHER
   connections (garbage, oversized headers, a peer vanishing mid-frame, stop, failing drains, anything),
   inserted anywhere in a history, leave connection a (its replies written, queued and dropped, its
   handlers in flight, its status) exactly as without them.  Rests on the generated fact
   connection_state_per_instance (each connection creates its own _tasks / _completed / _stop_event and
   the server hands in nothing shared); with a shared task set the product step cancels the other
   connections' handlers and this no longer holds. *)
Theorem C16_other_connections_do_not_interfere :
  forall classify handler (d : director) (evs1 evs2 noise : list (nat * event)) a,
    Forall (fun ie => fst ie <> a) noise ->
    nth_error (run_director classify handler d (evs1 ++ noise ++ evs2)) a =
    nth_error (run_director classify handler d (evs1 ++ evs2)) a.
Proof. exact other_connections_do_not_interfere. Qed.

(* No stuck state: every event is accepted in every state (step is a total function), and from
   every reachable state the connection can still end: after stop(), one failing drain and the
   completion of the handlers in flight, serve() has returned or raised.
   completes c = one EvComplete per handler in flight. *)
Theorem C16_never_stuck :
  forall classify handler (evs : list event),
    let c := run classify handler conn_init evs in
    status_of (run classify handler c ([EvStop; EvSendFail] ++ completes c)) <> StUp.
Proof. exact never_stuck. Qed.

(* Liveness under fairness.  The environment is ANY infinite schedule of events (bytes in any
   fragmentation, completions in any order, stop / garbage / peer gone at any time); st n is the
   connection after the first n events.  Hypotheses (about the environment, not about rpc.py):
   (1) a handler in flight eventually ends (handlers terminate, a cancelled one too);
   (2) a pending writer.drain() eventually returns or raises ConnectionError;
   (3) the client does not reuse a call id on this connection (_next_call_id counts up).
   Then every request a task was created for is eventually answered on the wire, or its reply is
   dropped on a connection that is no longer up (stop(), peer gone, send failure or a failed
   loop): the peer then sees the connection end, and the client fails every pending call with
   ConnectionResetError (C16_client_pairs_by_id, third part). *)
Theorem C16_eventually_answered_or_connection_down :
  forall classify handler (sched : nat -> event),
    let st := RpcLive.st classify handler sched in
    (forall n id, In id (inflight_ids (st n)) -> exists d o, sched (n + d)%nat = EvComplete id o) ->
    (forall n, draining (st n) = true ->
               exists d, sched (n + d)%nat = EvSent \/ sched (n + d)%nat = EvSendFail) ->
    (forall n, NoDup (c_received (st n))) ->
    forall n id, In id (c_received (st n)) ->
      exists m, (n <= m)%nat /\
        (In id (map fst (c_wire (st m)))
         \/ (In id (map fst (c_dropped (st m))) /\ conn_up (st m) = false)).
Proof. exact eventually_answered_or_down. Qed.

(* The queue of completed calls waiting for the send loop is unbounded (generated from the field
   definition of RPCServerConnection._completed): handing over a completed call never fails, however
   many calls of one connection complete while the send loop waits in drain(). *)
Theorem C16_completed_queue_never_full : forall c : conn, queue_full c = false.
Proof. exact completed_queue_unbounded. Qed.

(* Two facts the liveness argument rests on, for arbitrary finite histories: a reply object, once
   produced, is never destroyed (it only moves queue -> wire or queue -> dropped), and replies
   wait in the queue only while a drain is pending. *)
Theorem C16_reply_objects_persist :
  forall classify handler (c : conn) (e : event) id,
    (cnt id (reply_ids c) <= cnt id (reply_ids (step classify handler c e)))%nat.
Proof. exact step_R. Qed.

Theorem C16_queue_only_while_draining :
  forall classify handler (c : conn) (e : event),
    qinv c /\ ainv c -> qinv (step classify handler c e) /\ ainv (step classify handler c e).
Proof. exact step_inv. Qed.

(* ---------- the hypotheses are satisfiable / non-trivial instances ---------- *)

Example C16_example_framing :
  let msgs := [(1, Some [104; 105]); (258, None); (18446744073709551615, Some []); (7, Some [0])] in
  Forall wf_msg msgs /\
  encode_msg 1 (Some [104; 105]) = [0;0;0;0;0;0;0;1; 0;0;0;0;0;0;0;2; 104;105] /\
  feed_frags reader_idle [[0;0;0]; [0;0;0;0;1;0]; [0;0;0;0;0;0;2;104]; [105;0;0;0;0;0;0;1;2;0;0;0;0;0;0;0;0;255];
                          [255;255;255;255;255;255;255;0;0;0;0;0;0;0;0]; [0;0;0;0;0;0;0;7;0;0;0;0;0;0;0;1;0]]
  = (reader_idle, [IMsg 1 (Some [104;105]); IMsg 258 None; IMsg 18446744073709551615 None; IMsg 7 (Some [0])]).
Proof.
  cbv zeta. split; [|split; vm_compute; reflexivity].
  repeat constructor; vm_compute; congruence.
Qed.

Example C16_example_oversize :
  oversized 4294967297 = true /\ oversized 4294967296 = false /\
  feed reader_idle (encode_header 9 4294967297 ++ [1;2;3]) = (RDead, [IOversize 9 4294967297]).
Proof. vm_compute. repeat split; reflexivity. Qed.

(* three calls in flight, completed out of order, one refused, then the peer goes away *)
Example C16_example_connection :
  let classify (b : str) := match b with
                    | [1] | [2] | [3] => Some (mk_rq [119] true None)
                    | [4] => Some (mk_rq [104] true None)
                    | _ => None end in
  let handler (n : str) := match n with [119] => LAllowed | [104] => LNotAllowed | _ => LMissing end in
  let stream := encode_msg 1 (Some [1]) ++ encode_msg 2 (Some [2]) ++ encode_msg 4 (Some [4]) ++ encode_msg 3 (Some [3]) in
  let c := run classify handler conn_init
             [EvRecv (firstn 20 stream); EvRecv (skipn 20 stream); EvComplete 3 (ORaise true); EvSent;
              EvComplete 1 OReturn; EvSent; EvSent; EvComplete 2 (ORaise false); EvSent; EvPeerGone; EvSent] in
  c_wire c = [(4, KGeneric); (3, KUsage); (1, KOk); (2, KGeneric)] /\ c_invoked c = [[119]; [119]; [119]]
  /\ c_received c = [1; 2; 4; 3] /\ status_of c = StClosed /\ NoDup (c_received c).
Proof.
  vm_compute. repeat split; try reflexivity.
  repeat constructor; cbn; intuition congruence.
Qed.

Example C16_example_client :
  let k := crun client_init [CCall; CCall; CCall; CRecv (encode_msg 2 (Some [9])); CCancel 3;
                             CRecv (encode_msg 3 (Some [8])); CPeerGone] in
  k_done k = [(2, CRBody (Some [9])); (1, CRConnLost)] /\ k_pending k = [] /\ k_counter k = 3.
Proof. vm_compute. repeat split; reflexivity. Qed.

(* the fairness hypotheses are satisfiable: two calls completed out of order, then drains *)
Example C16_example_fair_schedule :
  let classify (b : str) := match b with [1] | [2] => Some (mk_rq [119] true None) | _ => None end in
  let handler (n : str) := match n with [119] => LAllowed | _ => LMissing end in
  let stream := encode_msg 1 (Some [1]) ++ encode_msg 2 (Some [2]) in
  let sched (n : nat) := match n with
                         | 0%nat => EvRecv stream | 1%nat => EvComplete 2 OReturn
                         | 2%nat => EvComplete 1 (ORaise false) | _ => EvSent end in
  let st := RpcLive.st classify handler sched in
  (forall n id, In id (inflight_ids (st n)) -> exists d o, sched (n + d)%nat = EvComplete id o)
  /\ (forall n, draining (st n) = true -> exists d, sched (n + d)%nat = EvSent \/ sched (n + d)%nat = EvSendFail)
  /\ (forall n, NoDup (c_received (st n)))
  /\ c_wire (st 5%nat) = [(2, KOk); (1, KGeneric)].
Proof.
  cbv zeta.
  set (classify := fun b : str => match b with [1] | [2] => Some (mk_rq [119] true None) | _ => None end).
  set (handler := fun n : str => match n with [119] => LAllowed | _ => LMissing end).
  set (sched := fun n : nat => match n with
                         | 0%nat => EvRecv (encode_msg 1 (Some [1]) ++ encode_msg 2 (Some [2]))
                         | 1%nat => EvComplete 2 OReturn
                         | 2%nat => EvComplete 1 (ORaise false) | _ => EvSent end).
  assert (Late : forall n, (3 <= n)%nat -> sched n = EvSent).
  { intros n H. destruct n as [|[|[|n]]]; try lia; reflexivity. }
  assert (Fix : forall n, (5 <= n)%nat -> RpcLive.st classify handler sched n = RpcLive.st classify handler sched 5).
  { induction n as [|n IH]; intros H; [lia|].
    destruct (Nat.eq_dec (S n) 5) as [E|Hne]; [rewrite E; reflexivity|].
    cbn [RpcLive.st]. rewrite IH by lia. rewrite Late by lia. vm_compute. reflexivity. }
  assert (Small : forall n, (n < 5)%nat -> n = 0%nat \/ n = 1%nat \/ n = 2%nat \/ n = 3%nat \/ n = 4%nat) by (intros; lia).
  split; [|split; [|split]].
  - intros n id Hin. destruct (le_lt_dec 5 n) as [H|H].
    + rewrite Fix in Hin by exact H. vm_compute in Hin. destruct Hin.
    + destruct (Small n H) as [-> | [-> | [-> | [-> | ->]]]]; vm_compute in Hin.
      * destruct Hin.
      * destruct Hin as [<- | [<- | []]]; [exists 1%nat, (ORaise false)|exists 0%nat, OReturn]; reflexivity.
      * destruct Hin as [<- | []]. exists 0%nat, (ORaise false). reflexivity.
      * destruct Hin.
      * destruct Hin.
  - intros n _. exists (3 - n + 0)%nat. left. apply Late. lia.
  - intros n. destruct (le_lt_dec 5 n) as [H|H].
    + rewrite Fix by exact H. vm_compute. repeat constructor; cbn; intuition congruence.
    + destruct (Small n H) as [-> | [-> | [-> | [-> | ->]]]]; vm_compute; repeat constructor; cbn; intuition congruence.
  - vm_compute. reflexivity.
Qed.
