(* C11 Exactly the needed steps are executed.
   Property theorems only; proofs in proofs/SchedProofs.v, model in model/Sched.v (shared with C10),
   constants and SQL fragments in gen/GenSched.v (regenerated from the repository). *)
From Coq Require Import List NArith Bool Arith.
From SV Require Import model.Graph model.GraphInv.
From SV Require Import lib.Bytes lib.SqlExpr gen.GenSched model.Sched proofs.SchedProofs proofs.SchedRevert proofs.SchedReconcile.
From SV Require Import model.SchedGraph proofs.SchedGraphCpl proofs.SchedGraphSim proofs.SchedGraphMachine.
Import ListNotations.
Open Scope N_scope.

(* need_spec is the fixed point of max(declared need, target elevation, need of the attached steps
   that consume one of its outputs) on an acyclic dependency graph. *)
Theorem C11_need_spec_is_fixed_point :
  forall g, DepAcyclic g -> forall k, In k (attached_keys g) ->
    need_spec g k = N.max (local_k g k) (maxl ND_OPTIONAL (map (need_spec g) (cons_keys g k))).
Proof. exact need_spec_fix. Qed.

(* The consumers of k: attached steps y with edges k -> f and f -> y. *)
Theorem C11_consumers_are_two_hops_downstream :
  forall g k y, In y (cons_keys g k) <->
    exists d1 d2 sy, In d1 (g_deps g) /\ In d2 (g_deps g) /\ d_src d1 = k /\ d_src d2 = d_snk d1 /\
                     find_step g (d_snk d2) = Some sy /\ s_detached sy = false /\ y = s_key sy.
Proof. exact cons_keys_spec. Qed.

(* With t = OPTIONAL (no targets) or t = DEFAULT (targets given): an attached step is needed above
   t iff it is declared above t (non-optional, resp. a planning step), or produces a named target,
   or is declared DEFAULT and produces an output under a named directory, or an attached step that
   consumes one of its outputs is needed above t. *)
Theorem C11_need_spec_characterisation :
  forall g k s t, DepAcyclic g -> In k (attached_keys g) -> find_step g k = Some s ->
    ND_OPTIONAL <= t -> t < ND_TARGET ->
    (t < need_spec g k <->
     t < s_need s \/ produces_target g k = true \/
     (s_need s = ND_DEFAULT /\ produces_under_tdir g k = true) \/
     exists y, In y (cons_keys g k) /\ t < need_spec g y).
Proof. exact need_spec_characterisation_gen. Qed.

Theorem C11_need_characterisation_without_targets :
  forall g k s, DepAcyclic g -> In k (attached_keys g) -> find_step g k = Some s ->
    (ND_OPTIONAL < need_spec g k <->
     ND_OPTIONAL < s_need s \/ produces_target g k = true \/
     (s_need s = ND_DEFAULT /\ produces_under_tdir g k = true) \/
     exists y, In y (cons_keys g k) /\ ND_OPTIONAL < need_spec g y).
Proof.
  intros g k s H1 H2 H3. apply need_spec_characterisation_gen; try assumption; vm_compute; congruence.
Qed.

Theorem C11_need_characterisation_with_targets :
  forall g k s, DepAcyclic g -> In k (attached_keys g) -> find_step g k = Some s ->
    (ND_DEFAULT < need_spec g k <->
     ND_DEFAULT < s_need s \/ produces_target g k = true \/
     (s_need s = ND_DEFAULT /\ produces_under_tdir g k = true) \/
     exists y, In y (cons_keys g k) /\ ND_DEFAULT < need_spec g y).
Proof.
  intros g k s H1 H2 H3. apply need_spec_characterisation_gen; try assumption; vm_compute; congruence.
Qed.

(* "Under a named directory": UPDATE_CHECK_AFTER's label range (two generated comparison operators) is the
   half-open range [path, upper) in byte order. *)
Theorem C11_directory_range_is_half_open :
  forall g f, in_tdir g f =
    existsb (fun pu => lex_le (fst pu) (f_label f) && lex_lt (f_label f) (snd pu)) (g_tdirs g).
Proof. exact in_tdir_repo. Qed.

(* What counts as an output for target elevation. *)
Theorem C11_regular_output_meaning :
  forall f, regular_output f = negb (f_detached f) && negb (f_state f =? FS_VOLATILE).
Proof. exact regular_output_meaning. Qed.

(* After the metadata updates (hypotheses of C10_update_meta_correct): every dispatched step is
   needed above the threshold, and a step that nothing else holds back is dispatched iff it is
   needed above the threshold. *)
Theorem C11_executed_iff_needed :
  forall g, WF g -> Acyclic g -> FlagInv g -> HasHashInv g ->
    exists g', update_meta g = Some g' /\ AllCorrect g' /\
      (forall s, In s (dispatch_set g') ->
         ND_OPTIONAL < need_spec g' (s_key s) /\ g_threshold g' < need_spec g' (s_key s)) /\
      (forall s, In s (g_steps g') ->
         s_state s = ST_PENDING -> s_detached s = false -> s_deferred s = false ->
         fst (safe_spec g' s) = true -> ready_spec g' (s_key s) = true -> res_unavailable g' s = false ->
         (In s (dispatch_set g') <->
          ND_OPTIONAL < need_spec g' (s_key s) /\ g_threshold g' < need_spec g' (s_key s))).
Proof. exact executed_iff_needed_repo. Qed.

(* D8 (fixed by f76dbc9): with the earlier delete trigger an unneeded optional step ran: the dispatch
   set contained a step whose need_spec is OPTIONAL. *)
Theorem C11_unneeded_step_dispatched_refuted_for_sink_only_trigger :
  exists g d, WF g /\ Acyclic g /\ AllCorrect g /\ HasHashInv g /\
    forall pol, exists g', update_meta_with pol (del_dep_with trg_dep_del_sink_only g d) = Some g' /\
      exists s, In s (dispatch_set g') /\ eligible_spec g' s = false.
Proof.
  destruct del_dep_sink_only_refuted as [g [d [H1 [H2 [H3 [H4 [_ H5]]]]]]].
  exists g, d. split; [exact H1|]. split; [exact H2|]. split; [exact H3|]. split; [exact H4|].
  intros pol. destruct (H5 pol) as [g' [Ha [_ Hb]]]. exists g'. split; assumption.
Qed.

(* finalize.revert_optional_steps: every attached step whose (cached = defined, see C10)
   _implied_need is OPTIONAL is PENDING afterwards; each of its outputs in state BUILT/OUTDATED is
   queued with "remove only if the content has the recorded hash" and reset to PLANNED without hash;
   each VOLATILE output is queued unconditionally. *)
Theorem C11_revert_optional_resets :
  forall g, WF g ->
    let g2 := fst (revert_optional g) in
    let q := snd (revert_optional g) in
    rows_kept g g2 /\
    (forall r, In r (g_steps g2) -> s_detached r = false -> s_ineed r = revert_need ->
               s_state r = revert_step_state) /\
    (forall f, In f (g_files g) -> queued_file g f = true ->
               In (f_key f, negb (f_state f =? revert_keep_state)) q) /\
    (forall f, In f (g_files g) -> queued_file g f = true -> f_state f <> revert_keep_state ->
               forall f', In f' (g_files g2) -> f_key f' = f_key f ->
                          f_state f' = revert_file_state /\ f_hash f' = false).
Proof. exact revert_optional_resets_gen. Qed.

(* revert_optional_steps keeps the flag invariant of C10 (every possibly stale cached attribute is flagged) and
   the step keys, from ANY snapshot with unique file node ids: its step writes go through the state triggers,
   its file writes never turn a VOLATILE file into a regular one or back (only non-VOLATILE outputs are reset). *)
Theorem C11_revert_optional_keeps_flag_invariant :
  forall g, WF g -> FWF g -> FlagInv g ->
    WF (fst (revert_optional g)) /\ FlagInv (fst (revert_optional g)).
Proof.
  intros g Hwf Hfw HF. split; [apply revert_optional_WF; assumption | apply (revert_optional_sound g Hfw HF)].
Qed.

(* hence the first decision of the next phase is exact again *)
Theorem C11_first_decision_after_revert_is_exact :
  forall g, WF g -> FWF g -> FlagInv g ->
    let g1 := fst (revert_optional g) in
    Acyclic g1 -> HasHashInv g1 ->
    exists g', update_meta g1 = Some g' /\ AllCorrect g' /\
      forall s, In s (dispatch_set g') <-> (In s (g_steps g') /\ eligible_spec g' s = true).
Proof.
  intros g Hwf Hfw HF g1 Hac HH.
  apply dispatch_only_eligible_repo; [apply revert_optional_WF; assumption | exact Hac
                                      | apply (revert_optional_sound g Hfw HF) | exact HH].
Qed.

(* A director run with OTHER TARGETS than the previous one ("resumed with a different target set"):
   Scheduler.initialize rebuilds the target tables and the threshold (set_targets), Workflow.reconcile_targets
   -- TRANSLATED statement by statement: GenSched.reconcile_parts says which of its three flagging parts the
   repository has -- flags stale TARGET values, the creators of exact targets and the producers of regular outputs
   under directory targets.  Together they keep the flag invariant from ANY snapshot: every step whose target
   elevation the new tables change is flagged, so the first metadata pass recomputes it.  Hypotheses (decidable,
   evaluated on every real snapshot at a reconcile): attached files have distinct labels; an attached output is
   created by its producer and is not in a static state. *)
Theorem C11_target_change_keeps_flag_invariant :
  forall g ts tds thr, WF g -> LabelsUnique g -> OutInv g -> FlagInv g ->
    FlagInv (reconcile (set_targets g ts tds thr)).
Proof. intros g ts tds thr. apply reconcile_sound. reflexivity. Qed.

(* ... and each of the three parts is necessary: for any reconcile_targets that lacks one of them there is a
   snapshot with every cached attribute correct and a change of targets after which a stale _implied_need is
   not flagged (a former target keeps TARGET; a new exact or directory target is not elevated, so with the
   threshold DEFAULT of a restricted build its producer is never dispatched). *)
Theorem C11_reconcile_parts_necessary :
  forall parts, parts <> (true, true, true) ->
  exists g ts tds thr, WF g /\ LabelsUnique g /\ OutInv g /\ Acyclic g /\ AllCorrect g /\
    ~ FlagInv_need (reconcile_with parts (set_targets g ts tds thr)).
Proof. exact reconcile_parts_necessary. Qed.

(* the two hypotheses are not extra assumptions on real histories: they follow from C09's invariant (J) for any
   snapshot coupled to the stored workflow (attached file rows have distinct labels; an attached output has a
   creator, which is its producer, and is in an output state) *)
Theorem C11_reconcile_hypotheses_follow_from_invariant :
  forall idf, (forall a b, idf a = idf b -> a = b) ->
  forall s g, J s -> coupled idf s g -> LabelsUnique g /\ OutInv g.
Proof.
  intros idf Hinj s g HJ C. split; [apply (LabelsUnique_cpl idf s g HJ C) | apply (OutInv_cpl idf Hinj s g HJ C)].
Qed.

Theorem C11_reconcile_hypotheses_decidable :
  forall g, fwf_b g = true -> labels_unique_b g = true -> outinv_b g = true -> LabelsUnique g /\ OutInv g.
Proof. intros g A B C. split; [apply labels_unique_b_sound; assumption | apply outinv_b_sound; exact C]. Qed.

(* Across whole histories (C10's combined machine: `reach idf s g` = any interleaving, from a state satisfying
   the invariant such as the fresh database, of transactions that neither create nor delete nodes, certified
   declaring / deleting transactions -- define_step and amend_step of steps created DURING the phase included --,
   the metadata updates, revert_optional_steps at a phase end, a change of targets between director runs): at EVERY decision every dispatched step
   is needed above OPTIONAL and above the threshold, and a PENDING, attached, not deferred, safe, ready step with
   free resources is dispatched iff it is needed.  Partial in the sense of
   C10_cached_equals_spec_at_every_decision_partial (certificates for node-creating transactions).  A new director
   run with OTHER TARGETS (Scheduler.initialize + reconcile_targets) is a step of the machine too (reach_targets:
   FlagInv proved, C11_target_change_keeps_flag_invariant; its two hypotheses follow from the invariant:
   C11_reconcile_hypotheses_follow_from_invariant), so "resumed with a different target set than the previous run" is covered. *)
Theorem C11_executed_iff_needed_at_every_decision_partial :
  forall idf, (forall a b, idf a = idf b -> a = b) ->
  forall s g, reach idf s g ->
    exists g', update_meta g = Some g' /\ AllCorrect g' /\
      (forall x, In x (dispatch_set g') ->
         ND_OPTIONAL < need_spec g' (s_key x) /\ g_threshold g' < need_spec g' (s_key x)) /\
      (forall x, In x (g_steps g') ->
         s_state x = ST_PENDING -> s_detached x = false -> s_deferred x = false ->
         fst (safe_spec g' x) = true -> ready_spec g' (s_key x) = true -> res_unavailable g' x = false ->
         (In x (dispatch_set g') <->
          ND_OPTIONAL < need_spec g' (s_key x) /\ g_threshold g' < need_spec g' (s_key x))).
Proof. exact executed_iff_needed_at_every_decision. Qed.

Theorem C11_queued_files_are_outputs_of_optional_steps :
  forall g f, queued_file g f = true <->
    mem_N (f_state f) revert_queue_states = true /\
    exists d s, In d (g_deps g) /\ d_snk d = f_key f /\ d_src d = s_key s /\
                In s (g_steps g) /\ s_ineed s = revert_need /\ s_detached s = false.
Proof. exact queued_file_meaning. Qed.

(* tui._normalize_targets: a raw target is a directory target iff it ends in the separator; nothing
   else (in particular not the file system) decides; directory targets carry a trailing separator;
   an empty raw target is an error. `norm` stands for absolute().relpath(root).normpath(). *)
Theorem C11_normalize_targets_by_trailing_slash :
  forall (norm : str -> str) raw,
    match normalize_targets norm raw with
    | None => In [] raw
    | Some (ts, ds) =>
        ~ In [] raw /\
        ts = map norm (filter (fun r => negb (ends_with_sep r)) raw) /\
        ds = map (fun r => with_slash (norm r)) (filter ends_with_sep raw)
    end.
Proof. exact normalize_targets_spec. Qed.

Theorem C11_directory_targets_end_in_separator :
  forall s, ends_with_sep (with_slash s) = true.
Proof. exact with_slash_ends. Qed.

(* Non-vacuity: chain P (OPTIONAL) -> f -> C (DEFAULT): P is needed; without the edge it is not. *)
Example C11_example :
  need_spec g_d8 2 = ND_DEFAULT /\
  need_spec (del_dep_with trg_dep_del_sink_only g_d8 d_d8) 2 = ND_OPTIONAL /\
  normalize_targets (fun s => s) [[97;47]; [98]] = Some ([[98]], [[97;47]]).
Proof. vm_compute. repeat split; reflexivity. Qed.
