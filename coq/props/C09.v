(* C09 The stored workflow satisfies its invariants after every transaction.
   Property theorems only; proofs in proofs/Graph*.v (see design.d/C09.md). *)
From Coq Require Import List NArith Bool Relations.
From SV Require Import lib.Bytes lib.Closure model.Graph model.GraphDump model.GraphInv model.GraphTree model.GraphTreeInv
  model.GraphCheck model.GraphExt gen.GenGraph gen.GenWriters
  proofs.GraphNodes proofs.GraphProofs proofs.GraphTables proofs.GraphTrans proofs.GraphTreeSim proofs.GraphTreeOps proofs.GraphStepTrans proofs.GraphFileTrans
  proofs.GraphExtP proofs.GraphExtFull proofs.GraphExtRevert proofs.GraphExtTrans proofs.GraphExtFileTrans proofs.GraphCheckP proofs.GraphWriters.
Import ListNotations.
Open Scope N_scope.

(* ------------------------------------------------------------------------------------------ *)
(* 1. The invariant holds after every committed transaction                                    *)
(* ------------------------------------------------------------------------------------------ *)

(* Full statement: for every history of the 14 transaction kinds (valid or rejected, any
   arguments) that respects the one protocol fact the invariant depends on (hold() is only
   requested by a RUNNING step, protocol_run_b), the boolean invariant inv_b = I0 nodes && I1 local
   && I1 reach && rows && I2a deps && I2b acyclic && I3 undeclared && I5a hashes && I5b
   deferred/holding && I3' no-creator holds in every prefix. *)
Definition C09_full : Prop :=
  forall (cap : N) (ops : list op),
    protocol_run_b (init_st cap) ops = true -> all_prefixes_ok inv_b (init_st cap) ops = true.

Theorem C09_inv_init : forall cap, inv_b (init_st cap) = true.
Proof. exact inv_init. Qed.

Theorem C09_rejected_transaction_changes_nothing :
  forall s o, (forall s', step_op o s <> Ok s') -> apply_op s o = s.
Proof. exact apply_op_error_unchanged. Qed.

(* one step, from ANY state that satisfies the invariant (not only reachable ones) *)
Theorem C09_inv_preserved :
  forall s o, inv_b s = true -> protocol_hold_b s o = true -> inv_b (apply_op s o) = true.
Proof. exact inv_preserved. Qed.

Theorem C09_reachable_inv :
  forall cap ops, protocol_run_b (init_st cap) ops = true -> inv_b (run_ops ops (init_st cap)) = true.
Proof. exact reachable_inv. Qed.

Theorem C09_every_prefix : C09_full.
Proof. exact reachable_inv_prefixes. Qed.

(* Without any protocol assumption: every conjunct except "holding > 0 -> RUNNING" *)
Theorem C09_core_inv_preserved :
  forall s o, inv_core_b s = true -> inv_core_b (apply_op s o) = true.
Proof. exact inv_core_preserved. Qed.

Theorem C09_reachable_inv_core :
  forall cap ops, inv_core_b (run_ops ops (init_st cap)) = true.
Proof. exact reachable_inv_core. Qed.

(* The holding clause really needs the protocol: Step.hold does not look at the state.  A hold
   request for a PENDING step (which the director cannot produce: it resolves the step through
   the running job) leaves holding = 1 on a PENDING step. *)
Definition hold_witness : list op :=
  [OpDeclareStatic root_key [[112]];
   OpUpdateHashes CConfirmed [([112], Some 1)];
   OpDefineStep root_key [115] [[112]] [] [] [] NPlan;
   OpHold [115]].
Theorem C09_unrestricted_hold_refuted :
  exists cap ops, inv_core_b (run_ops ops (init_st cap)) = true /\ inv_b (run_ops ops (init_st cap)) = false.
Proof. exists 3, hold_witness. vm_compute. split; reflexivity. Qed.

(* ------------------------------------------------------------------------------------------ *)
(* 1b. with the protocol of the build loop: I4 and I5c                                         *)
(* ------------------------------------------------------------------------------------------ *)
(* inv_full_b = inv_b && I4b (a product file of a SUCCEEDED step is not PLANNED or OUTDATED)
   && I5c (a RUNNING step has no stored hash).  protocol_ok: hold / amend / (re)start only for a step
   that is not SUCCEEDED (its job is in flight), and a successful run reports a hash for every
   output that was still PLANNED.  From ANY state satisfying the invariant: *)
Theorem C09_full_inv_preserved :
  forall s o, inv_full_b s = true -> protocol_ok s o = true -> inv_full_b (apply_op s o) = true.
Proof. exact inv_full_preserved. Qed.

Theorem C09_reachable_inv_full :
  forall cap ops, protocol_ok_run (init_st cap) ops = true ->
                  all_prefixes_ok inv_full_b (init_st cap) ops = true.
Proof. exact reachable_inv_full. Qed.

(* I4 as stated in the property: "a step marked succeeded has all its outputs built" *)
Theorem C09_succeeded_outputs_built :
  forall s, inv_full_b s = true -> inv_succeeded_b s = true.
Proof. exact succeeded_outputs_built. Qed.

(* The protocol clause on successful runs is needed: a run that is recorded as successful while one
   of its outputs was never reported stays SUCCEEDED with a PLANNED output (Step.mark_completed
   does not look at PLANNED products; the executor turns a missing output into a failure). *)
Definition missing_output_witness : list op :=
  [OpDeclareStatic root_key [[112]];
   OpUpdateHashes CConfirmed [([112], Some 1)];
   OpDefineStep root_key [115] [[112]] [] [[111]] [] NPlan;
   OpDispatch [115];
   OpResetForRerun [115];
   OpExecEnd [115] [] CSucceeded [] true false].
Theorem C09_success_without_output_refuted :
  exists cap ops, inv_b (run_ops ops (init_st cap)) = true /\ protocol_run_b (init_st cap) ops = true /\
                  inv_succeeded_b (run_ops ops (init_st cap)) = false.
Proof. exists 3, missing_output_witness. vm_compute. repeat split; reflexivity. Qed.

Example C09_protocol_ok_nonvacuous :
  protocol_ok_run (init_st 3)
    [OpDeclareStatic root_key [[112]];
     OpUpdateHashes CConfirmed [([112], Some 1)];
     OpDefineStep root_key [115] [[112]] [] [[111]] [] NPlan;
     OpDispatch [115];
     OpResetForRerun [115];
     OpAmendStep [115] [[120]] [] [[121]] [];
     OpHold [115];
     OpExecEnd [115] [] CSucceeded [([111], Some 5); ([121], Some 6)] true false;
     OpMarkStepPending [115];
     OpDispatch [115];
     OpResetToPending [115]] = true.
Proof. vm_compute. reflexivity. Qed.

(* ------------------------------------------------------------------------------------------ *)
(* 2. detached <-> not reachable from the root through creator links                           *)
(* ------------------------------------------------------------------------------------------ *)
Theorem C09_detached_iff_unreachable :
  forall cap ops n, let s := run_ops ops (init_st cap) in
    In n (nodes s) -> (ndet n = true <-> ~ Reach (nodes s) (nk n)).
Proof.
  intros cap ops n s Hn. apply detached_iff_unreachable_core; [apply reachable_inv_core | exact Hn].
Qed.

(* ------------------------------------------------------------------------------------------ *)
(* 3. requests never raise an internal error                                                   *)
(* ------------------------------------------------------------------------------------------ *)
Theorem C09_requests_never_internal :
  forall s o, inv_b s = true -> request_ok s o = true -> is_internal (step_op o s) = false.
Proof. exact requests_never_internal. Qed.

(* Regression witness of finding D16 (fixed in the repo by 84c79e1): a RUNNING step that was
   detached meanwhile (its creator failed) and defines a step with its own label used to hit the
   CHECK (creator != i) of the node table (sqlite3.IntegrityError); it is now rejected as a usage
   error before anything is written.  The model follows the fixed code (Usage 211). *)
Definition plan_label : str := [46; 47; 112].
Definition selfdef_prefix : list op :=
  [OpDeclareStatic root_key [[112]];
   OpUpdateHashes CConfirmed [([112], Some 1)];
   OpDefineStep root_key plan_label [[112]] [] [] [] NPlan;
   OpDispatch plan_label;
   OpResetForRerun plan_label;
   OpDefineStep (KStep, plan_label) [65] [] [] [] [] NDefault;
   OpDispatch [65];
   OpResetForRerun [65];
   OpExecEnd plan_label [] CFailed [] false false].
Definition selfdef_request : op := OpDefineStep (KStep, [65]) [65] [] [] [] [] NDefault.
Example C09_self_definition_is_usage_error :
  let s := run_ops selfdef_prefix (init_st 3) in
  protocol_run_b (init_st 3) selfdef_prefix = true /\ inv_b s = true /\ request_ok s selfdef_request = true /\
  is_detached (KStep, [65]) s = true /\ sstate_of [65] s = Some SRunning /\
  step_op selfdef_request s = Usage 211.
Proof. vm_compute. repeat split; reflexivity. Qed.

(* Regression witness of finding D31 (fixed in the repo by d88bd6a): K is detached together with
   its product C while both are RUNNING (their creator failed); C declares K again with the
   identical specification.  The full recycle (Node.reattach) would make the creator links cyclic,
   on which Step._flag_checks_with_products (WITH RECURSIVE ... UNION ALL) never terminates; the
   request is now rejected as a usage error (Usage 212 in the model). *)
Definition cycle_prefix : list op :=
  [OpDeclareStatic root_key [[112]];
   OpUpdateHashes CConfirmed [([112], Some 1)];
   OpDefineStep root_key plan_label [[112]] [] [] [] NPlan;
   OpDispatch plan_label;
   OpResetForRerun plan_label;
   OpDefineStep (KStep, plan_label) [75] [] [] [] [] NDefault;
   OpDispatch [75];
   OpResetForRerun [75];
   OpDefineStep (KStep, [75]) [67] [] [] [] [] NDefault;
   OpDispatch [67];
   OpResetForRerun [67];
   OpExecEnd plan_label [] CFailed [] false false].
Definition cycle_request : op := OpDefineStep (KStep, [67]) [75] [] [] [] [] NDefault.
Example C09_define_own_creator_is_usage_error :
  let s := run_ops cycle_prefix (init_st 3) in
  protocol_run_b (init_st 3) cycle_prefix = true /\ inv_b s = true /\ request_ok s cycle_request = true /\
  step_op cycle_request s = Usage 212.
Proof. vm_compute. repeat split; reflexivity. Qed.
(* Node.reattach itself still has no such guard: reattaching K under its product C is the
   non-terminating case (Internal 126 in the model); define_step no longer gets there. *)
Example C09_reattach_under_own_product_does_not_terminate :
  node_reattach (KStep, [75]) (KStep, [67]) (run_ops cycle_prefix (init_st 3)) = Internal 126.
Proof. vm_compute. reflexivity. Qed.

(* Hash results are applied whenever the hashing thread completes (Executor._run_hash_job), not
   necessarily in the state in which the job was queued (finding D17): the path [102;53] ("f5") is
   UNCONFIRMED when the job is queued; when the result arrives the node has been detached by the
   rerun of its creator and taken over as a volatile output.  _HASH_TRANSITIONS has no row.
   Fixed in the repo by a139b14 (Executor._run_hash_job drops such a result); the statement below is
   about Workflow.update_file_hashes, which still rejects it. *)
Definition stale_prefix1 : list op :=
  [OpDeclareStatic root_key [[112]];
   OpUpdateHashes CConfirmed [([112], Some 1)];
   OpDefineStep root_key plan_label [[112]] [] [] [] NPlan;
   OpDispatch plan_label;
   OpResetForRerun plan_label;
   OpDeclareStatic (KStep, plan_label) [[102; 53]]].
Definition stale_prefix2 : list op :=
  [OpDefineStep (KStep, plan_label) [65] [] [] [] [] NDefault;
   OpDispatch [65];
   OpResetForRerun [65];
   OpExecEnd plan_label [] CSucceeded [] true false;
   OpMarkStepPending plan_label;
   OpDispatch plan_label;
   OpResetToPending plan_label;
   OpDispatch plan_label;
   OpResetForRerun plan_label;
   OpAmendStep [65] [] [] [] [[102; 53]]].
Theorem C09_stale_confirmation_internal_refuted :
  exists cap ops1 ops2 l h,
    let s1 := run_ops ops1 (init_st cap) in
    let s2 := run_ops (ops1 ++ ops2) (init_st cap) in
    protocol_run_b (init_st cap) (ops1 ++ ops2) = true /\
    fstate_of l s1 = Some FUnconfirmed /\ inv_b s2 = true /\
    step_op (OpUpdateHashes CConfirmed [(l, h)]) s2 = Internal 119.
Proof. exists 3, stale_prefix1, stale_prefix2, [102; 53], (Some 7). vm_compute. repeat split; reflexivity. Qed.

(* the hypotheses are satisfiable by non-trivial instances *)
Example C09_protocol_nonvacuous :
  protocol_run_b (init_st 3) (selfdef_prefix ++ [OpHold [65]; OpRelease [65]]) = true /\
  inv_b (run_ops (selfdef_prefix ++ [OpHold [65]]) (init_st 3)) = true.
Proof. vm_compute. split; reflexivity. Qed.
Example C09_request_ok_nonvacuous :
  let s := run_ops selfdef_prefix (init_st 3) in
  request_ok s (OpDefineStep (KStep, [65]) [66] [[112]; [120]] [[69]] [[121]] [[122]] NDefault) = true /\
  request_ok s (OpAmendStep [65] [[120]] [] [[121]] []) = true /\
  request_ok s (OpDeclareStatic (KStep, [65]) [[119]; [120]]) = true.
Proof. vm_compute. repeat split; reflexivity. Qed.

(* ------------------------------------------------------------------------------------------ *)
(* 4. documented file state transitions (partial transitions_documented)                       *)
(* ------------------------------------------------------------------------------------------ *)
(* For the 11 operations that do not declare files (everything except declare_static, define_step
   and amend_step, whose File.initialize_row may give a detached node a new role), from ANY state,
   without any invariant or protocol: a file row that exists before and after the operation moved
   along the reflexive-transitive closure of the documented single steps file_step = a row of
   _HASH_TRANSITIONS (for some cause and hash_known), BUILT -> OUTDATED, OUTDATED -> BUILT; and no
   file row appears.  (Step state transitions and the three declaring requests: not proved.) *)
Theorem C09_file_transitions_documented_partial :
  forall o s l r r', declares_files o = false ->
    find_file l s = Some r -> find_file l (apply_op s o) = Some r' ->
    clos_refl_trans fstate file_step (fstt r) (fstt r').
Proof. exact file_transitions_documented. Qed.

Theorem C09_no_new_file_rows :
  forall o s l, declares_files o = false -> find_file l (apply_op s o) <> None -> find_file l s <> None.
Proof. exact no_new_file_rows. Qed.

(* ------------------------------------------------------------------------------------------ *)
(* 6. static trees (model/GraphTree.v): op_t = OpBase op | OpRegisterTree                       *)
(* ------------------------------------------------------------------------------------------ *)
(* On a tree-free state (no static-tree node, no creator column referring to one) the tree-aware
   operations are the operations of model/Graph.v, and the tree-free fragment is closed: every
   theorem above is a theorem about step_op_t on that fragment. *)
Theorem C09_tree_free_simulation :
  forall o s, no_tree_b s = true -> step_op_t (OpBase o) s = step_op o s.
Proof. exact step_op_t_base_eq. Qed.

Theorem C09_tree_free_closed :
  forall o s, no_tree_b s = true -> no_tree_b (apply_op s o) = true.
Proof. exact no_tree_preserved. Qed.

Theorem C09_tree_free_runs :
  forall cap ops, run_ops_t (map OpBase ops) (init_st cap) = run_ops ops (init_st cap).
Proof. intros cap ops. apply run_ops_t_base_eq. vm_compute. reflexivity. Qed.

Definition dir_d0 : str := [100; 47].
(* The invariant for the alphabet with static trees (15 transaction kinds: the 14 base kinds with
   the tree-aware declaration functions and the delete_detached pre-step, plus register_static_tree):
   inv_b is preserved by every operation from any state within the hold protocol, the core
   invariant unconditionally, the full invariant (I4, I5c) within the build-loop protocol. *)
Theorem C09_tree_inv_preserved :
  forall s o, inv_b s = true -> protocol_hold_t_b s o = true -> inv_b (apply_op_t s o) = true.
Proof. exact inv_t_preserved. Qed.

Theorem C09_tree_core_inv_preserved :
  forall s o, inv_core_b s = true -> inv_core_b (apply_op_t s o) = true.
Proof. exact inv_core_t_preserved. Qed.

Theorem C09_tree_reachable_inv_core :
  forall cap ops, inv_core_b (run_ops_t ops (init_st cap)) = true.
Proof. exact reachable_inv_core_t. Qed.

Theorem C09_tree_every_prefix :
  forall cap ops, protocol_run_t_b (init_st cap) ops = true ->
                  all_prefixes_ok_t inv_b (init_st cap) ops = true.
Proof. exact reachable_inv_t_prefixes. Qed.

Theorem C09_tree_full_inv_preserved :
  forall s o, inv_full_b s = true -> protocol_ok_t s o = true -> inv_full_b (apply_op_t s o) = true.
Proof. exact inv_full_t_preserved. Qed.

Theorem C09_tree_reachable_inv_full :
  forall cap ops, protocol_ok_run_t (init_st cap) ops = true ->
                  all_prefixes_ok_t inv_full_b (init_st cap) ops = true.
Proof. exact reachable_inv_full_t. Qed.

(* Tree conjunct T1 (invariant): a file whose creator is a static tree lies under that tree and is
   in a STATIC state (UNCONFIRMED / MISSING / CONFIRMED); preserved by every operation from any
   state satisfying the core invariant, for requests whose declare_static creator is not itself a
   tree (static_requester_b: the API passes the requesting step or the root). *)
Theorem C09_tree_file_static_preserved :
  forall s o, inv_core_b s = true -> inv_treefile_b s = true -> static_requester_b o = true ->
              inv_treefile_b (apply_op_t s o) = true.
Proof. exact inv_treefile_preserved. Qed.

Theorem C09_tree_file_static_every_prefix :
  forall cap ops, forallb static_requester_b ops = true ->
                  all_prefixes_ok_t inv_treefile_b (init_st cap) ops = true.
Proof. exact reachable_inv_treefile. Qed.

(* the domain hypothesis is necessary: a tree as the creator of declare_static declares a file
   outside the tree *)
Theorem C09_tree_file_static_domain_refuted :
  exists cap ops, inv_treefile_b (run_ops_t ops (init_st cap)) = false.
Proof.
  exists 3, [OpBase (OpDefineStep root_key [80] [] [] [] [] NPlan);
             OpRegisterTree (KStep, [80]) dir_d0; OpBase (OpDeclareStatic (KTree, dir_d0) [[120]])].
  vm_compute. reflexivity.
Qed.

(* Finding D33 (open): a full recycle revives a detached static tree without the ownership checks of
   register_static_tree.  A registers the tree d/; the rerun of the plan detaches A and the tree;
   B builds d/g0 and registers the tree d/e/; the plan declares A again identically.  Afterwards
   two attached trees are nested and an attached PLANNED output lies under an attached tree. *)
Definition treeA : str := [65]. Definition treeB : str := [66].
Definition dir_d : str := [100; 47]. Definition dir_de : str := [100; 47; 101; 47].
Definition d_g0 : str := [100; 47; 103; 48].
Definition recycle_tree_witness : list op_t :=
  [OpBase (OpDeclareStatic root_key [[112]]);
   OpBase (OpUpdateHashes CConfirmed [([112], Some 1)]);
   OpBase (OpDefineStep root_key plan_label [[112]] [] [] [] NPlan);
   OpBase (OpDispatch plan_label);
   OpBase (OpResetForRerun plan_label);
   OpBase (OpDefineStep (KStep, plan_label) treeA [] [] [] [] NDefault);
   OpBase (OpExecEnd plan_label [] CSucceeded [] true false);
   OpBase (OpDispatch treeA);
   OpBase (OpResetForRerun treeA);
   OpRegisterTree (KStep, treeA) dir_d;
   OpBase (OpExecEnd treeA [] CSucceeded [] true false);
   OpBase (OpMarkStepPending plan_label);
   OpBase (OpDispatch plan_label);
   OpBase (OpResetToPending plan_label);
   OpBase (OpDispatch plan_label);
   OpBase (OpResetForRerun plan_label);
   OpBase (OpDefineStep (KStep, plan_label) treeB [] [] [d_g0] [] NDefault);
   OpBase (OpDispatch treeB);
   OpBase (OpResetForRerun treeB);
   OpRegisterTree (KStep, treeB) dir_de;
   OpBase (OpDefineStep (KStep, plan_label) treeA [] [] [] [] NDefault)].
Theorem C09_tree_ownership_refuted :
  exists cap ops, let s := run_ops_t ops (init_st cap) in
    protocol_ok_run_t (init_st cap) ops = true /\ inv_full_b s = true /\ inv_treefile_b s = true /\
    inv_trees_nonnested_b s = false /\ inv_tree_owns_b s = false.
Proof. exists 3, recycle_tree_witness. vm_compute. repeat split; reflexivity. Qed.

(* T2 / T3 are invariants under the hypothesis that no define_step transaction re-attaches a static
   tree (no_tree_reattached_b: sharper than "no full recycle of a step whose recursive products
   contain a tree" -- a recycle under a detached creator leaves the trees detached).  The inductive
   form of T3 is inv_tree_claims_b (EVERY file node with a creator, attached or not, that lies under an
   attached tree is a file of that tree); inv_tree_strong_b = T1 && T2 && claims implies inv_tree_b. *)
Theorem C09_tree_ownership_partial :
  forall s o, inv_core_b s = true -> inv_tree_strong_b s = true ->
              static_requester_b o = true -> no_tree_reattached_b s o = true ->
              inv_tree_strong_b (apply_op_t s o) = true.
Proof. exact inv_tree_strong_preserved. Qed.

Theorem C09_tree_ownership_every_prefix_partial :
  forall cap ops, tree_hyps_run (init_st cap) ops = true ->
                  all_prefixes_ok_t inv_tree_strong_b (init_st cap) ops = true.
Proof. exact reachable_inv_tree_strong. Qed.

Theorem C09_tree_strong_implies_tree :
  forall s, inv_core_b s = true -> inv_tree_strong_b s = true -> inv_tree_b s = true.
Proof. exact inv_tree_of_strong. Qed.

(* the D33 witness: the hypothesis holds for every transaction but the last (the full recycle of A),
   the strong conjuncts hold before it and T2, T3 fail after it *)
Theorem C09_tree_hypothesis_necessary :
  exists cap ops o, let s := run_ops_t ops (init_st cap) in
    tree_hyps_run (init_st cap) ops = true /\ static_requester_b o = true /\
    no_tree_reattached_b s o = false /\ inv_tree_strong_b s = true /\
    inv_trees_nonnested_b (apply_op_t s o) = false /\ inv_tree_owns_b (apply_op_t s o) = false.
Proof.
  exists 3, (removelast recycle_tree_witness), (OpBase (OpDefineStep (KStep, plan_label) treeA [] [] [] [] NDefault)).
  vm_compute. repeat split; reflexivity.
Qed.

(* transitions_documented, step rows: for every one of the 15 operations, a step row that exists
   before and after the transaction keeps its state, is made PENDING from SUCCEEDED / FAILED by the
   state propagation, or is the subject of the operation and receives the state the operation
   assigns (dispatch: RUNNING / CHECKING; exec_end: SUCCEEDED / FAILED / PENDING; reset_to_pending,
   validate, define_step: PENDING; reset_interrupted: RUNNING -> FAILED / PENDING, CHECKING -> PENDING). *)
Theorem C09_step_transitions_documented :
  forall o s l a b, inv_core_b s = true ->
    sstate_of l s = Some a -> sstate_of l (apply_op_t s o) = Some b -> step_move_b o l a b = true.
Proof. exact step_transitions_documented. Qed.

Example C09_step_move_excludes :
  step_move_b (OpBase (OpUpdateHashes CExternal [])) [65] SPending SRunning = false /\
  step_move_b (OpBase (OpDispatch [65])) [66] SPending SRunning = false /\
  step_move_b (OpBase OpResetInterrupted) [65] SSucceeded SFailed = false /\
  step_move_b (OpRegisterTree root_key [100; 47]) [65] SFailed SSucceeded = false.
Proof. vm_compute. repeat split; reflexivity. Qed.

(* transitions_documented, file rows, ALL 15 operations (any arguments, any state, no invariant, no
   protocol): a file row that exists before and after the transaction moved along file_move_b o =
   the closure of the documented single steps of that kind of transaction:
   - an operation that declares no file: a row of _HASH_TRANSITIONS, BUILT -> OUTDATED, OUTDATED -> BUILT
     (file_step, as in C09_file_transitions_documented_partial);
   - a declaring request (declare_static, define_step, amend_step, register_static_tree):
     File.initialize_row with a requestable state (UNDECLARED = supplied as an input, UNCONFIRMED, PLANNED,
     VOLATILE) and its documented keep rules, or BUILT -> OUTDATED (decl_step).  As a table: a declaring
     request never makes an existing row CONFIRMED, MISSING or BUILT, and OUTDATED only from BUILT.
   A declaring request deletes no file row, every other operation creates none. *)
Theorem C09_file_transitions_documented :
  forall o s l r r', find_file l s = Some r -> find_file l (apply_op_t s o) = Some r' ->
    file_move_b o (fstt r) (fstt r') = true.
Proof. exact file_transitions_documented_all. Qed.

Theorem C09_file_transitions_documented_closure :
  forall o s l r r', find_file l s = Some r -> find_file l (apply_op_t s o) = Some r' ->
    if declares_files_t o then clos_refl_trans fstate decl_step (fstt r) (fstt r')
    else clos_refl_trans fstate file_step (fstt r) (fstt r').
Proof. exact file_transitions_documented_all_closure. Qed.

Theorem C09_file_rows_persist_or_not_created :
  forall o s l,
    (declares_files_t o = true -> find_file l s <> None -> find_file l (apply_op_t s o) <> None) /\
    (declares_files_t o = false -> find_file l (apply_op_t s o) <> None -> find_file l s <> None).
Proof. exact file_rows_persist_or_not_created. Qed.

Example C09_file_move_excludes :
  file_move_b (OpBase (OpDefineStep root_key [65] [] [] [] [] NDefault)) FUnconfirmed FConfirmed = false /\
  file_move_b (OpBase (OpAmendStep [65] [] [] [] [])) FPlanned FBuilt = false /\
  file_move_b (OpRegisterTree root_key [100; 47]) FConfirmed FMissing = false /\
  file_move_b (OpBase (OpDeclareStatic root_key [])) FUnconfirmed FOutdated = false /\
  file_move_b (OpBase (OpUpdateHashes CExternal [])) FConfirmed FPlanned = false /\
  file_move_b (OpBase OpDeleteDetached) FBuilt FUndeclared = false /\
  file_move_b (OpBase (OpDefineStep root_key [65] [] [] [] [] NDefault)) FBuilt FOutdated = true.
Proof. vm_compute. repeat split; reflexivity. Qed.

(* ------------------------------------------------------------------------------------------ *)
(* 5. the hand-written tables of the model equal the tables regenerated from the source        *)
(* ------------------------------------------------------------------------------------------ *)
Theorem C09_model_tables_match_source :

  (* enum values, no member beyond the constructors *)
  (gen_FileState_codes = map fstate_code all_fstates /\ (forall f, In f all_fstates)) /\
  (gen_StepState_codes = map sstate_code all_sstates /\ (forall x, In x all_sstates)) /\
  (gen_Need_codes = [need_code NOptional; need_code NDefault; gen_Need_TARGET; need_code NPlan] /\
   gen_step_need_column_values = map need_code all_needs /\ (forall n, In n all_needs)) /\
  (gen_HashUpdateCause_codes = map cause_code all_causes /\ (forall c, In c all_causes)) /\
  (gen_FileRole_codes = [61; 62; 63]) /\
  (gen_kind_codes = map kind_code all_kinds /\ (forall k, In k all_kinds)) /\
  (* _HASH_TRANSITIONS *)
  (forall c old known,
     code_transition (transition c old known)
     = gen_transition_lookup (cause_code c) (fstate_code old) known) /\
  (forall row, In row gen_hash_transitions ->
     exists c old known, fst row = (cause_code c, fstate_code old, known) /\
                         code_transition (transition c old known) = Some (snd row)) /\
  nodupb tkey_eqb (map fst gen_hash_transitions) = true /\
  (* file_clear_hash, hash CHECK, UNDECLARED implies detached *)
  (forall old new, clears_hash old new = gen_clears_hash_eval (fstate_code old) (fstate_code new)) /\
  (forall old new (h : option N),
     (if clears_hash old new then None else h) =
     (if gen_clears_hash_eval (fstate_code old) (fstate_code new)
         && (negb gen_clear_hash_requires_hash || is_some h) then None else h)) /\
  (forall f, needs_hash f = memN (fstate_code f) gen_needs_hash_states) /\
  (forall f, fstate_eqb f FUndeclared = (fstate_code f =? gen_undeclared_detached_state)) /\
  (* FILE_ROLE_BY_STATE *)
  (forall f, role_of f = gen_role_lookup (fstate_code f)) /\
  (forall f, role_of f = None <-> f = FUndeclared) /\
  (forall p, In p gen_file_role_by_state ->
     (exists f, fst p = fstate_code f /\ role_of f = Some (snd p)) /\ In (snd p) gen_FileRole_codes) /\
  (* kind triggers *)
  (forall a b : key,
     dep_kinds_ok a b = gen_dependency_allows (kind_code (fst a)) (kind_code (fst b))) /\
  (forall child parent,
     creator_kind_ok child parent = gen_creator_allows (kind_code child) (kind_code parent)) /\
  gen_creator_kind_exempt = [kind_code KRoot] /\
  (* step triggers and CHECK *)
  (forall l new d s, set_sstate l new d s = set_sstate_spec l new d s) /\
  (* _DECLARABLE_STATES *)
  (forall c l f s,
     memN (fstate_code f) gen_declarable_states = false -> declare_file c l f s = Internal 116) /\
  (forall c l f s,
     memN (fstate_code f) gen_declarable_states = true ->
     declare_file c l f s =
     bind (create (KFile, l) (Some c) (InitFile f) s)
          (fun s1 => match f with
                     | FVolatile => match attached_step_sinks l s1 with [] => Ok s1 | _ => Usage 203 end
                     | _ => Ok s1
                     end)) /\
  (forall n, In n gen_declarable_states -> exists f, n = fstate_code f).
Proof. exact model_tables_match_source. Qed.


(* ------------------------------------------------------------------------------------------ *)
(* 6. Every transaction of the code that writes the stored workflow (writer inventory)         *)
(* ------------------------------------------------------------------------------------------ *)

(* The alphabet op_x (model/GraphExt.v) = the 15 operations with trees + the startup consistency
   check with its repair + the transactions that translator/gen_writers.py finds in the source and
   that the 15 operations do not describe: the "inputs overtaken" branch of try_skip_job, the nglob
   invalidation (process_nglob_changes / rescan_nglobs), one transaction marking several steps
   pending (second transaction of reset_interrupted_steps, rescan_env_vars, start_build_phase),
   finalize.revert_optional_steps (for EVERY selection of steps), the first transaction of
   reset_interrupted_steps, Workflow.initialize_boot on an existing database, and OpFrame.
   inv_b is preserved by every one of them from ANY state (within the hold protocol), the core
   invariant unconditionally, and both hold in every reachable state / every prefix. *)
Theorem C09_x_inv_preserved :
  forall s o, inv_b s = true -> protocol_hold_x_b s o = true -> inv_b (apply_op_x s o) = true.
Proof. exact inv_x_preserved. Qed.

Theorem C09_x_core_inv_preserved :
  forall s o, inv_core_b s = true -> inv_core_b (apply_op_x s o) = true.
Proof. exact inv_core_x_preserved. Qed.

Theorem C09_x_reachable_inv_core :
  forall cap ops, inv_core_b (run_ops_x ops (init_st cap)) = true.
Proof. exact reachable_inv_core_x. Qed.

Theorem C09_x_every_prefix :
  forall cap ops, protocol_run_x_b (init_st cap) ops = true ->
                  all_prefixes_ok_x inv_b (init_st cap) ops = true.
Proof. exact reachable_inv_x_prefixes. Qed.

(* startup.reset_interrupted_steps commits twice: the operation OpResetInterrupted of the base
   alphabet is the composition of OpResetInterruptedRaw and the marking of the attached FAILED steps *)
Theorem C09_reset_interrupted_is_two_transactions :
  forall s, reset_interrupted s =
    bind (reset_interrupted_raw s)
         (fun s2 => foldM (fun s r => match sstate_of (sl r) s with
                                      | Some SFailed => if is_detached (KStep, sl r) s then Ok s else mark_step_pending (sl r) s
                                      | _ => Ok s end) (steps s2) s2).
Proof. exact reset_interrupted_split. Qed.

(* Everything the code's own consistency check verifies is implied by the invariant: the model of
   Trellis._check_consistency (per-row creator/detached agreement, CHECK_DETACHED_REACHABILITY,
   validate_row of every node) accepts every state satisfying inv_b; with I4 the strict
   Workflow._check_consistency finds nothing, and the startup check is the identity. *)
Theorem C09_code_consistency_check_implied :
  forall s, inv_b s = true -> inv_succeeded_b s = true ->
            code_check_accepts_b s = true /\ check_consistency s = Ok s.
Proof. intros s Hi Hs. split; [exact (code_check_accepts_inv s Hi Hs) | exact (check_consistency_identity s Hi Hs)]. Qed.

Theorem C09_trellis_check_implied : forall s, inv_b s = true -> trellis_consistent_b s = true.
Proof. exact trellis_check_accepts_inv. Qed.

(* Frame argument for all the other writers: every write statement of stepup/core (gen_writers,
   regenerated from the source on every run) that is not described by the model assigns no column
   that the canonical dump reads; every listed class is consistent with the columns. *)
Theorem C09_unmodelled_writers_frame :
  forall t cols, In (t, cols, 0) gen_writers -> touches_dump t cols = false.
Proof. exact unmodelled_writers_frame. Qed.

Theorem C09_writers_classified :
  forallb (fun w => class_ok w && frame_ok w && model_ok w && temp_ok w) gen_writers = true.
Proof. exact gen_writers_classified. Qed.

(* non-vacuity: revert_optional_steps on a SUCCEEDED optional step with a BUILT output *)
Definition revert_witness : list op_x :=
  map (fun o => OpC (OpT (OpBase o)))
  [ OpDeclareStatic root_key [plan_py];
    OpUpdateHashes CConfirmed [(plan_py, Some 1)];
    OpDefineStep root_key boot_label [plan_py] [] [] [] NPlan;
    OpDispatch boot_label; OpResetForRerun boot_label;
    OpDefineStep (KStep, boot_label) [65] [] [] [[102]] [] NOptional;
    OpExecEnd boot_label [] CSucceeded [] true false;
    OpDispatch [65]; OpResetForRerun [65];
    OpExecEnd [65] [] CSucceeded [([102], Some 2)] true false ].
Example C09_revert_optional_nonvacuous :
  let s := run_ops_x revert_witness (init_st 3) in
  let s' := apply_op_x s (OpRevertOptional [[65]]) in
  sstate_of [65] s = Some SSucceeded /\ fstate_of [102] s = Some FBuilt /\
  sstate_of [65] s' = Some SPending /\ fstate_of [102] s' = Some FPlanned /\ inv_b s' = true.
Proof. vm_compute. repeat split; reflexivity. Qed.

(* I4 / I5c for the whole alphabet op_x, for both forms of the re-attachment trigger: the full invariant
   inv_full_b is preserved by every operation from ANY state within the build-loop protocol of the
   older layers; the seven new operations (and the consistency check) need no hypothesis, in
   particular finalize.revert_optional_steps for EVERY selection of steps (frame GG: the selected
   steps are PENDING before any of their outputs becomes PLANNED; by I4a an output edge whose sink
   has a creator points to a product of its source). *)
Theorem C09_x_full_inv_preserved :
  forall s o, inv_full_b s = true -> protocol_ok_x s o = true -> inv_full_b (apply_op_x s o) = true.
Proof. exact inv_full_x_preserved. Qed.

Theorem C09_x_reachable_inv_full :
  forall cap ops, protocol_ok_run_x (init_st cap) ops = true ->
                  all_prefixes_ok_x inv_full_b (init_st cap) ops = true.
Proof. exact reachable_inv_full_x. Qed.

Example C09_x_protocol_nonvacuous :
  protocol_ok_run_x (init_st 3) (revert_witness ++ [OpRevertOptional [[65]]; OpInitBoot None; OpResetInterruptedRaw]) = true /\
  inv_succeeded_b (run_ops_x (revert_witness ++ [OpRevertOptional [[65]]]) (init_st 3)) = true.
Proof. vm_compute. split; reflexivity. Qed.

(* the invariant holds for both forms of the trigger step_node_undefer_reattached (the generated flag
   gen_undefer_refined selects the one the source has) *)
Theorem C09_undefer_both_forms :
  forall refined s s', inv_b s' = true -> inv_b (undefer_post_with refined s s') = true.
Proof. exact undefer_both_forms. Qed.

(* transitions_documented for the whole alphabet op_x (the 15 operations through the top layer with the
   re-attachment trigger and validate's flag, the consistency check, the seven new operations): a step
   row that exists before and after a transaction moves along step_move_x_b -- the table of the older
   layers; SUCCEEDED / FAILED -> PENDING by the propagation (consistency check, nglob invalidation, bulk
   marking); PENDING assigned to the subject of the overtaken skip, to the steps selected by
   revert_optional_steps, to the boot step; RUNNING -> FAILED and CHECKING -> PENDING in the first
   transaction of reset_interrupted_steps; nothing in a frame transaction. *)
Theorem C09_x_step_transitions_documented :
  forall o s l a b, inv_core_b s = true ->
    sstate_of l s = Some a -> sstate_of l (apply_op_x s o) = Some b -> step_move_x_b o l a b = true.
Proof. exact step_transitions_documented_x. Qed.

(* ... and a file row moves along file_move_x_b: the tables of the older layers (closure of the
   _HASH_TRANSITIONS rows and BUILT <-> OUTDATED for the non-declaring operations, File.initialize_row for
   the declaring ones); revert_optional_steps: unchanged or BUILT / OUTDATED -> PLANNED (a VOLATILE output
   stays VOLATILE); initialize_boot: declaring part, hash result, declaring part -- PARTIAL: the composed table
   boot_trans_b admits every pair, the statement says nothing for OpInitBoot (a per-label frame is missing); the other new
   operations only along the non-declaring table; a frame transaction: unchanged. *)
Theorem C09_x_file_transitions_documented :
  forall o s l r r', inv_core_b s = true ->
    find_file l s = Some r -> find_file l (apply_op_x s o) = Some r' -> file_move_x_b o (fstt r) (fstt r') = true.
Proof. exact file_transitions_documented_x. Qed.

Example C09_x_moves_exclude :
  step_move_x_b (OpRevertOptional [[65]]) [66] SRunning SPending = false /\
  step_move_x_b (OpSkipOvertaken [65]) [65] SChecking SRunning = false /\
  step_move_x_b OpResetInterruptedRaw [65] SSucceeded SFailed = false /\
  step_move_x_b OpFrame [65] SSucceeded SPending = false /\
  file_move_x_b (OpRevertOptional [[65]]) FVolatile FPlanned = false /\
  file_move_x_b (OpRevertOptional [[65]]) FConfirmed FPlanned = false /\
  file_move_x_b (OpInvalidateSteps [[65]]) FUndeclared FPlanned = false /\
  file_move_x_b (OpRevertOptional [[65]]) FBuilt FPlanned = true.
Proof. vm_compute. repeat split; reflexivity. Qed.
