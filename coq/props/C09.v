(* C09 The stored workflow satisfies its invariants after every transaction.
   Property theorems only; proofs in proofs/GraphProofs.v. *)
From Coq Require Import List NArith Bool.
From SV Require Import lib.Bytes model.Graph model.GraphInv proofs.GraphProofs.
Import ListNotations.
Open Scope N_scope.

(* Full statement (every conjunct of inv_b, every operation of the transaction alphabet,
   every history). *)
Definition C09_full : Prop :=
  forall (cap : N) (ops : list op), inv_b (run_ops ops (init_st cap)) = true.

Theorem C09_inv_init : forall cap, inv_b (init_st cap) = true.
Proof. exact inv_init. Qed.

Theorem C09_rejected_transaction_changes_nothing :
  forall s o, (forall s', step_op o s <> Ok s') -> apply_op s o = s.
Proof. exact apply_op_error_unchanged. Qed.
