(* C05 A build killed at any point is completed correctly after restart.
   Property theorems only; proofs in proofs/CrashProofs.v; model in model/Crash.v (on top of
   model/Graph.v); design.d/C05.md says what is partial and why. *)
From Coq Require Import List NArith Bool.
From SV Require Import lib.Bytes model.Graph model.GraphInv gen.GenCrash model.Crash proofs.CrashProofs
  proofs.CrashReach proofs.CrashStarted model.CrashStartup proofs.CrashStartupGen proofs.CrashStartupProofs.
From SV Require Import model.CrashHist proofs.CrashHistProofs proofs.CrashEnvGuard.
From SV Require gen.GenCrashSchema model.CrashSchema proofs.CrashSchemaProofs.
From SV Require model.Engine proofs.EngineProofs model.CrashEngine proofs.CrashEngineProofs
  proofs.EngineAmendProofs proofs.EngineAmendFull proofs.CrashEngineAmend.
Import ListNotations.
Open Scope N_scope.

(* ---- the full statement, kept visible (not proved in this generality; section 6 proves it for
   the static-DAG fragment of the engine of C01) ------------------------------------------------
   [build] is the engine: a complete, uninterrupted build
   of the stored workflow [s] against the disk [d], given the project [pr] (sources, programs).
   [crash pr k s d] is the state of the world after a kill at crash point k of that build
   (committed prefix, partial writes of running commands, memory lost).  C05 says: opening the
   crashed database raises no error, and building from the crashed world gives the graph and
   the files of the uninterrupted build. *)
Section Full.
  Variable project : Type.
  Variable build : project -> st -> disk -> st * disk.
  Variable crash : project -> nat -> st -> disk -> dbfile * disk.
  Definition C05_full : Prop :=
    forall (pr : project) (cap : N) (s : st) (d : disk) (k : nat),
      exists s1, open_db_now false cap (fst (crash pr k s d)) = Ok s1 /\
                 let (s2, d2) := build pr s1 (snd (crash pr k s d)) in
                 let (s3, d3) := build pr s d in
                 s2 = s3 /\ same_paths d2 d3 = true.
End Full.

(* ---- the source has the structure the model was written for ---------------------------------
   (generated on every run from trellis.py, builder.py, finalize.py, workflow.py, executor.py,
   startup.py, director.py; a change of any of these shapes breaks this obligation) *)
Theorem C05_source_structure :
  schema_before_first_transaction = true /\
  cleanup_sequence = [1; 2; 3] /\ revert_optional_transactions = 1 /\
  removal_outside_transaction = true /\ removal_clears_queue = true /\ queue_in_memory_only = true /\
  execute_job_sequence = [1; 2; 3; 4] /\
  reset_interrupted_updates = [(24, 22); (21, 25)] /\ reset_interrupted_failed_loop = true /\
  rescan_unconfirmed_cause = cause_code CConfirmed /\
  serve_sequence = [1; 2; 3; 4; 5].
Proof. exact source_structure. Qed.

(* ---- 1. opening a crashed database -----------------------------------------------------------*)
(* Trellis._check_consistency (per-row creator/detached agreement, reachability from the root,
   row validation) accepts every state that satisfies the invariant of C09 ... *)
Theorem C05_check_consistency_accepts_inv :
  forall s, inv_b s = true -> cc_trellis_b s = true.
Proof. exact check_consistency_accepts_inv. Qed.

(* ... and with I4 (outputs of SUCCEEDED steps are BUILT or VOLATILE) the whole check, strict or
   not, returns without error and without repairing anything. *)
Theorem C05_open_after_crash_consistent :
  forall s strict, inv_b s = true -> inv_succeeded_b s = true -> check_consistency strict s = Ok s.
Proof. exact open_after_crash_consistent. Qed.

(* Every crash point k >= 1 of any transaction history whose prefix states satisfy the two
   invariants (C09: every reachable state does) opens to exactly the committed prefix. *)
Theorem C05_open_every_prefix :
  forall cap ops k repair strict,
    inv_b (run_ops (firstn k ops) (init_st cap)) = true ->
    inv_succeeded_b (run_ops (firstn k ops) (init_st cap)) = true ->
    open_db repair strict cap (db_at cap ops (S k)) = Ok (run_ops (firstn k ops) (init_st cap)).
Proof. exact open_prefix_ok. Qed.

(* The same with C09's theorem in place of the invariant hypothesis: for every history that
   respects the hold protocol (C09_reachable_inv), whatever the arguments of its transactions. *)
Theorem C05_open_every_reachable_prefix :
  forall cap ops k repair strict,
    protocol_run_b (init_st cap) (firstn k ops) = true ->
    inv_succeeded_b (run_ops (firstn k ops) (init_st cap)) = true ->
    open_db repair strict cap (db_at cap ops (S k)) = Ok (run_ops (firstn k ops) (init_st cap)).
Proof. exact open_reachable_prefix_ok. Qed.

(* Crash point 0 (schema applied in autocommit mode, root never committed).  With the code as it
   is read today this is the error of finding D13 when open_creates_missing_root = false, and a
   fresh start when the not-fresh branch creates the missing root. *)
Theorem C05_open_point_zero :
  forall cap ops strict,
    open_db_now strict cap (db_at cap ops 0) =
    if open_creates_missing_root then Ok (init_st cap) else Internal 300.
Proof. exact open_point_zero_now. Qed.

Theorem C05_open_point_zero_refuted_without_root_repair :
  forall cap ops strict, exists t, open_db false strict cap (db_at cap ops 0) = Internal t.
Proof. exact open_point_zero_refuted. Qed.

(* ---- 1b. a kill inside DBSession.apply_schema (model/CrashSchema.v) ------------------------------
   apply_schema runs in autocommit mode: every statement (the two stamps PRAGMA application_id /
   user_version, every CREATE of the schema scripts) is committed on its own, so a killed first start
   leaves a PREFIX of them.  The order of the writing statements is GENERATED from the source
   (gen/GenCrashSchema.v).  For scripts with any number of objects and a kill after any number of
   statements, the next apply_schema returns without error and leaves the complete schema (then
   C05_open_point_zero applies: schema without root).  Stamps after the scripts are refuted. *)
Theorem C05_schema_source_structure :
  GenCrashSchema.apply_schema_sequence = [10; 11; 12; 1; 2; 3; 4] /\
  GenCrashSchema.apply_schema_writes = [1; 2; 3] /\
  (* every statement of the schema scripts is CREATE ... IF NOT EXISTS, or DROP ... IF EXISTS directly
     followed by the CREATE IF NOT EXISTS of the same object (read from the scripts on every run) *)
  GenCrashSchema.schema_statements_idempotent = true.
Proof.
  split; [exact CrashSchemaProofs.schema_sequence_eq|].
  split; [exact CrashSchemaProofs.schema_order_eq | exact CrashSchemaProofs.schema_idempotent_eq].
Qed.

(* for ANY positions of the DROPs and any number of objects, a first start ([new_file]) or a start on a
   file that carries the application id, killed after any number k of statements: the next
   apply_schema returns without error and the file has both stamps and every object *)
Theorem C05_schema_every_prefix_reopens :
  forall drops n k h0,
    (CrashSchema.happ h0 = true \/ CrashSchema.hobjs h0 = []) ->
    exists fresh h,
      CrashSchema.open_schema GenCrashSchema.apply_schema_writes drops n
        (CrashSchema.schema_crash_from h0 GenCrashSchema.apply_schema_writes drops n k) = CrashSchema.SOk fresh h /\
      CrashSchema.complete_b n h = true.
Proof. exact CrashSchemaProofs.schema_prefix_reopens. Qed.

Theorem C05_schema_stamps_after_scripts_refuted :
  exists n k, CrashSchema.open_schema [3; 1; 2] [] n (CrashSchema.schema_crash [3; 1; 2] [] n k)
              = CrashSchema.SInvalidApplicationId.
Proof. exact CrashSchemaProofs.schema_stamps_last_refuted. Qed.

(* the GENERATED instance (number of persistent objects and DROP positions of the real scripts): every
   prefix of a first start and of a start on a complete file reopens; not with the stamps last; a kill
   right after a DROP of a start on a complete file does leave the object missing until the next start *)
Example C05_schema_example :
  let n := GenCrashSchema.schema_persistent_objects in
  let d := GenCrashSchema.schema_drops in
  let w := GenCrashSchema.apply_schema_writes in
  forallb (CrashSchema.reopens_b w d n) (seq 0 (S CrashSchemaProofs.gen_prog_len)) = true /\
  forallb (fun k => match CrashSchema.open_schema w d n
                            (CrashSchema.schema_crash_from CrashSchemaProofs.gen_complete w d n k) with
                    | CrashSchema.SOk _ h => CrashSchema.complete_b n h | _ => false end)
          (seq 0 (S CrashSchemaProofs.gen_prog_len)) = true /\
  forallb (CrashSchema.reopens_b [3; 1; 2] d n) (seq 0 (S CrashSchemaProofs.gen_prog_len)) = false /\
  existsb (fun k => negb (CrashSchema.complete_b n (CrashSchema.schema_crash_from CrashSchemaProofs.gen_complete w d n k)))
          (seq 0 (S CrashSchemaProofs.gen_prog_len)) = negb (match d with [] => true | _ => false end).
Proof. exact CrashSchemaProofs.schema_example. Qed.

(* ---- 2. interrupted steps ---------------------------------------------------------------------*)
Theorem C05_reset_interrupted_post :
  forall s s',
    nodup_by str_eqb (map sl (steps s)) = true ->
    reset_interrupted s = Ok s' ->
    no_running_checking_b s' = true /\
    frame s s' /\
    (forall l, sstate_of l s = Some SRunning ->
       sstate_of l s' = Some SPending \/ (sstate_of l s' = Some SFailed /\ is_detached (KStep, l) s = true)) /\
    (forall l, sstate_of l s = Some SChecking -> sstate_of l s' = Some SPending /\ has_hash l s' = has_hash l s).
Proof. exact reset_interrupted_post. Qed.

(* reset_for_rerun, the transaction committed before the command starts, leaves no product of
   the step BUILT *)
Theorem C05_reset_for_rerun_degrades_outputs :
  forall l s s', reset_for_rerun l s = Ok s' -> built_products l s' = [].
Proof. exact reset_for_rerun_post. Qed.

(* and a restart keeps it that way: the interrupted step has no stored hash (so it cannot be
   skipped), none of its products is BUILT, and it is PENDING (or FAILED when detached) *)
Theorem C05_interrupted_outputs_not_up_to_date :
  forall s s' l,
    nodup_by str_eqb (map sl (steps s)) = true -> inv_running_nohash_b s = true ->
    reset_interrupted s = Ok s' -> sstate_of l s = Some SRunning -> built_products l s = [] ->
    has_hash l s' = false /\ built_products l s' = [] /\
    (sstate_of l s' = Some SPending \/ sstate_of l s' = Some SFailed).
Proof. exact interrupted_outputs_not_up_to_date. Qed.

(* transactions of other jobs that only move states keep both facts while the command runs *)
Theorem C05_started_facts_kept_by_state_only_transactions :
  forall o s s' l,
    match o with OpDispatch _ | OpValidatePending _ | OpMarkStepPending _ | OpHold _ | OpRelease _ => True
               | _ => False end ->
    step_op o s = Ok s' -> has_hash l s = false -> built_products l s = [] ->
    has_hash l s' = false /\ built_products l s' = [].
Proof. exact started_kept_by_state_only. Qed.

(* The invariant over ALL fourteen transaction kinds, declarations and completions of other
   steps included.  [J started s]: every step of [started] (reset_for_rerun committed, completion
   not yet) is RUNNING, has no stored hash and none of its products is BUILT.  [proto] lists the
   protocol facts used (dispatch only of PENDING steps, reset_for_rerun only for the RUNNING step
   without hash just dispatched, skip/validate jobs end CHECKING steps, a standalone hash result
   never has cause SUCCEEDED, a completion names no product of ANOTHER running step and node keys
   are unique, a running step is not redefined, delete_detached / reset_interrupted_steps run
   when no command runs); rejected or failed transactions are rolled back. *)
Theorem C05_started_step :
  forall started s o s',
    J started s -> proto started s o -> step_op o s = Ok s' -> J (started_after o started) s'.
Proof. exact started_step. Qed.

Theorem C05_started_invariant :
  forall cap ops,
    proto_run ops (init_st cap) [] ->
    J (snd (run_started ops (init_st cap) [])) (run_ops ops (init_st cap)).
Proof. exact started_invariant_init. Qed.

(* a kill at any point of such a history, then the restart: every step whose command was running
   has no stored hash, no BUILT product, and is PENDING (FAILED if detached) *)
Theorem C05_started_then_crash :
  forall cap ops x s',
    proto_run ops (init_st cap) [] -> In x (snd (run_started ops (init_st cap) [])) ->
    nodup_by str_eqb (map sl (steps (run_ops ops (init_st cap)))) = true ->
    reset_interrupted (run_ops ops (init_st cap)) = Ok s' ->
    has_hash x s' = false /\ built_products x s' = [] /\
    (sstate_of x s' = Some SPending \/ sstate_of x s' = Some SFailed).
Proof. exact started_then_crash. Qed.

Example C05_started_example :
  proto_run started_example (init_st 100) [] /\
  snd (run_started started_example (init_st 100) []) = [s_mka].
Proof. exact started_example_ok. Qed.

(* ---- 2b. histories WITH kills (model/CrashHist.v) ------------------------------------------------
   An event is a committed transaction or a kill of the director and its commands followed by the
   start of the next director up to the end of reset_interrupted_steps.  A kill may follow ANY
   transaction, any number of times.  For every such history that respects [proto] between kills:
   [J] holds at the end, and at EVERY kill every step whose command was running is, for the next
   director, without stored hash, without BUILT product, PENDING (FAILED if detached). *)
Theorem C05_interrupted_invariant_all_histories :
  forall evs s started,
    J started s -> proto_hist evs s started ->
    J (snd (run_hist evs s started)) (fst (run_hist evs s started)) /\
    Forall kill_ok (kills evs s started).
Proof. exact hist_invariant. Qed.

(* in particular: a kill at every commit point k of every history from the empty workflow *)
Theorem C05_interrupted_at_every_commit_point :
  forall cap ops k,
    proto_run ops (init_st cap) [] ->
    nodup_by str_eqb (map sl (steps (run_ops (firstn k ops) (init_st cap)))) = true ->
    Forall kill_ok (kills (kill_at ops k) (init_st cap) []).
Proof. exact every_commit_point. Qed.

(* the skip rule: Scheduler.pop_next_job dispatches a step with a stored hash as CHECKING
   (try_skip_job, the only job that can record a skip: [proto]) and a step without one as RUNNING
   (execute_job).  An interrupted step has none, so its next dispatch executes the command ... *)
Theorem C05_interrupted_step_dispatched_to_execution :
  forall x s s',
    has_hash x s = false -> step_op (OpDispatch x) s = Ok s' ->
    has_hash x s' = false /\ built_products x s' = built_products x s /\
    (sstate_of x s' = Some SRunning \/ sstate_of x s' = None).
Proof. exact dispatch_hashless_runs. Qed.

(* ... and between the restart and that dispatch no transaction of the restarted build gives it a
   stored hash or a BUILT product ([proto_i]: completions, skip checks and redefinitions are those of
   other steps, a completion names no product of the step, hash results never have cause SUCCEEDED);
   delete_detached included: it only removes nodes, file rows and stored hashes *)
Theorem C05_interrupted_facts_kept_until_dispatch :
  forall x s o s', Ix x s -> proto_i x s o -> step_op o s = Ok s' -> Ix x s'.
Proof. exact interrupted_kept. Qed.

Example C05_interrupted_history_example :
  proto_hist (kill_at d6_history 7) (init_st 100) [] /\
  map fst (kills (kill_at d6_history 7) (init_st 100) []) = [[s_mka]] /\
  match reset_interrupted (run_ops (firstn 7 d6_history) (init_st 100)) with
  | Ok s' => has_hash s_mka s' = false /\ built_products s_mka s' = [] /\ sstate_of s_mka s' = Some SPending
  | _ => False end.
Proof. exact hist_example_ok. Qed.

(* ---- 3. stray UNCONFIRMED files ---------------------------------------------------------------*)
Theorem C05_stray_unconfirmed_resolved :
  forall d s s', rescan_unconfirmed d s = Ok s' -> attached_unconfirmed s' = [].
Proof. exact stray_unconfirmed_resolved. Qed.

(* ---- 4. files the uninterrupted build would have removed -------------------------------------*)
(* refuted in the window after the delete_detached commit (D6) ... *)
Theorem C05_crash_no_orphans_refuted :
  exists opt x, inv_b (g x) = true /\ inv_succeeded_b (g x) = true /\ ~ no_orphans_at W2 opt x.
Proof. exact crash_no_orphans_refuted_W2. Qed.
(* ... and in the window after the revert_optional_steps commit (D6b) *)
Theorem C05_crash_no_orphans_refuted_revert_window :
  exists opt x, inv_b (g x) = true /\ inv_succeeded_b (g x) = true /\ ~ no_orphans_at W1 opt x.
Proof. exact crash_no_orphans_refuted_W1. Qed.

(* positive counterpart: a kill before the first cleanup transaction loses nothing, because
   every path the cleanup queues is a VOLATILE/BUILT/OUTDATED file row of the stored graph, an
   output of an optional step or a node that delete_detached removes *)
Theorem C05_crash_no_orphans_partial :
  (forall opt x, no_orphans_at W0 opt x) /\
  (forall opt s s' q, revert_optional opt s = Ok (s', q) ->
     forall e, In e q -> exists r, In r (files s) /\ fl r = fst e /\
       (fstt r = FVolatile \/ fstt r = FBuilt \/ fstt r = FOutdated) /\
       existsb (fun l => mem_str (fl r) (file_sinks_of_step l s)) opt = true) /\
  (forall s s' q, delete_detached_q s = Ok (s', q) ->
     forall e, In e q -> exists r, In r (files s) /\ fl r = fst e /\
       (fstt r = FVolatile \/ fstt r = FBuilt \/ fstt r = FOutdated) /\ find_file (fl r) s' = None).
Proof. exact crash_no_orphans_partial. Qed.

(* a kill after the files were removed (before build_completed commits): the restarted cleanup
   removes nothing more and leaves nothing behind -- for ALL states, optional sets and disks *)
Theorem C05_crash_no_orphans_after_removal :
  forall opt x, no_orphans_at W3 opt x.
Proof. exact crash_no_orphans_W3. Qed.

(* ---- 5. a kill inside the STARTUP sequence of the restarted director -----------------------------
   model/CrashStartup.v: startup.resume_from_db transaction by transaction (two of
   reset_interrupted_steps; the blocks of rescan_env_vars as GENERATED from the source; one per hash
   job of rescan_files; one of rescan_nglobs) on Graph.st + the env_var values + the nglob table,
   against a fixed world (environment, disk, fresh glob scans).  The evidence of a change (state
   RUNNING / CHECKING / FAILED, env_var.value, file.hash, nglob.data) may only be overwritten by the
   transaction that marks the affected steps PENDING. *)

(* the transaction structure read from the source is the one the model executes *)
Theorem C05_startup_source_structure :
  rescan_env_vars_blocks = env_blocks_expected /\
  rescan_nglobs_blocks = [[1]; [2]] /\ persist_nglob_statements = [1; 2; 3] /\
  rescan_files_blocks = [[1]] /\ run_hash_job_transactions = [1].
Proof. exact startup_source_structure. Qed.

(* the comparison made in memory between the two transactions of rescan_env_vars, translated from the
   loop body with its path conditions (`if equal: continue` and `if differs: ...` are the same): a
   row's step is marked, and the row's value stored, exactly when the value now differs from it *)
Theorem C05_startup_env_comparison : rescan_env_vars_guards = [1; 1].
Proof. exact env_guards_eq. Qed.

(* the two transactions of reset_interrupted_steps compose to C09's reset_interrupted *)
Theorem C05_startup_reset_is_two_transactions :
  forall g, reset_interrupted g = (do g1 <- reset_txn1 g; reset_txn2 g1).
Proof. exact reset_split. Qed.

(* The general principle, for ANY sequence of phases: if every phase (idem) restarted after any
   number of its own transactions ends where the uninterrupted phase ends, (est/fix) is settled once
   complete, and (pres) stays settled under the transactions of the later phases, then a restart
   from any crash state of the sequence ends where the uninterrupted sequence ends. *)
Theorem C05_startup_general :
  forall (I : xst -> Prop) phs,
    good I phs -> Forall (phase_keeps I) (map fst phs) ->
    forall s c, I s -> reach_crash (map fst phs) s c ->
      run_phases (map fst phs) c = run_phases (map fst phs) s.
Proof. exact crash_restart_general. Qed.

(* The startup sequence with the GENERATED block structure of rescan_env_vars: for all worlds, all
   stored states with unique labels, every commit point k: restart after the kill = uninterrupted
   startup (also when that is an error).  Moving a statement of rescan_env_vars into another
   `async with` block changes [rescan_env_vars_blocks] and this no longer type-checks. *)
Theorem C05_startup_crash_restart :
  forall w x k c,
    labels_unique x = true ->
    crash_at (startup_phases rescan_env_vars_blocks w) k x = Ok c ->
    startup rescan_env_vars_blocks w c = startup rescan_env_vars_blocks w x.
Proof. exact startup_crash_restart. Qed.

(* ... in particular the restarted startup marks at least the steps the uninterrupted one marks,
   and leaves the same evidence tables *)
Theorem C05_startup_crash_marks_same :
  forall w x k c y,
    labels_unique x = true ->
    crash_at (startup_phases rescan_env_vars_blocks w) k x = Ok c ->
    startup rescan_env_vars_blocks w x = Ok y ->
    exists y', startup rescan_env_vars_blocks w c = Ok y' /\
               (forall l, In l (pending_steps y) -> In l (pending_steps y')) /\
               xenv y' = xenv y /\ xng y' = xng y /\ files (xg y') = files (xg y).
Proof. exact startup_crash_marks_same. Qed.

(* after the complete startup nothing is left to notice: no RUNNING / CHECKING / attached FAILED
   step, no tracked variable, file hash or glob match of an attached node differs from the world *)
Theorem C05_startup_settles :
  forall w x y, labels_unique x = true -> startup rescan_env_vars_blocks w x = Ok y ->
    settled_R y /\ settled_E w y /\ settled_F w y /\ settled_N w y.
Proof. exact startup_settles. Qed.

(* The structure with the UPDATE of env_var moved into the reading transaction is refuted: a kill
   right after that transaction (commit point 3) and the restarted startup leaves step e1
   SUCCEEDED although its variable changed; the uninterrupted startup marks it PENDING. *)
Theorem C05_startup_store_early_refuted :
  labels_unique envw_state = true /\ inv_b (xg envw_state) = true /\
  exists k c y y', crash_at (startup_phases env_blocks_store_early envw_world) k envw_state = Ok c /\
                   startup env_blocks_store_early envw_world envw_state = Ok y /\
                   startup env_blocks_store_early envw_world c = Ok y' /\
                   In s_e1 (pending_steps y) /\ ~ In s_e1 (pending_steps y').
Proof. exact store_early_refuted. Qed.

(* non-vacuity: the witness state satisfies the hypotheses, nothing is PENDING in it, and from every
   crash point of its startup the restart ends with e1 PENDING *)
Example C05_startup_example :
  labels_unique envw_state = true /\ inv_b (xg envw_state) = true /\
  forallb (fun k => match crash_at (startup_phases env_blocks_expected envw_world) k envw_state with
                    | Ok c => match startup env_blocks_expected envw_world c with
                              | Ok y => mem_str s_e1 (pending_steps y)
                              | _ => false end
                    | _ => false end) (seq 0 8) = true /\
  pending_steps envw_state = [].
Proof. exact startup_example_ok. Qed.

(* ---- 6. C05_full on the static-DAG fragment of the engine of C01 -------------------------------
   model/Engine.v: a build is the fold of [step_build] over a topologically ordered project; [Pre]
   is its pre-build invariant (recorded traces valid, K = no stale success, closure).
   model/CrashEngine.v: [crash_state proj y c]: [c] is what a restart finds after a kill during
   [build proj y] and reset_interrupted_steps -- the first k dispatch decisions, and possibly one
   more step that was being executed: PENDING, no recorded trace (C05_started_then_crash), ANY
   content at its outputs.  [restart] = startup rescan against the world as it is, then a build. *)
Section EngineCrash.
  Import Engine EngineProofs CrashEngine CrashEngineProofs.
  Variable run : N -> list (option N) -> list (option N) -> N -> N.

  (* a crash state satisfies the pre-build invariant and has the sources and the environment of
     the interrupted build: a partial write only touches outputs of a PENDING step *)
  Theorem C05_crash_state_satisfies_Pre :
    forall (proj : project) (y c : Engine.sys),
      wf proj = true -> Pre run proj y -> crash_state run proj y c ->
      Pre run proj c /\ same_world proj y c.
  Proof. exact (crash_state_Pre_wf run). Qed.

  (* hence the completed restart is finished, satisfies K, and has the step states and the output
     contents of the build that was never interrupted -- which are those of a build from scratch *)
  Theorem C05_full_static_dag_partial :
    forall (proj : project) (y c : Engine.sys),
      wf proj = true -> Pre run proj y -> crash_state run proj y c ->
      Pre run proj (restart run proj c) /\ K proj (restart run proj c) /\
      Finished run proj (restart run proj c) /\
      same_result proj (restart run proj c) (build run proj y) /\
      same_result proj (restart run proj c) (scratch run proj (fs y) (ev y)).
  Proof. exact (crash_restart_equals_uninterrupted run). Qed.

  (* "no output of an interrupted step is ever treated as up to date": the restarted build never
     hash-checks-and-skips the step that was being executed *)
  Theorem C05_interrupted_step_not_skipped :
    forall (proj : project) (s : step) (y : Engine.sys) (junk : N -> option N),
      wf proj = true -> In s proj ->
      let c := torn s y junk in
      ~ In (sid s, false) (build_log run proj proj (resync proj c (fs c, ev c))).
  Proof. exact (interrupted_step_not_skipped run). Qed.
End EngineCrash.

(* the hypotheses are satisfiable: the diamond of C01 after a change of source 2 (steps 102 and
   103 rerun), killed at each of the 6 points between decisions and inside both reruns with junk
   at the outputs: the restart gives the result of the uninterrupted build *)
Example C05_engine_example :
  Engine.wf CrashEngineProofs.ce_diamond = true /\
  forallb (fun k => Engine.same_result_b CrashEngineProofs.ce_diamond
                      (CrashEngine.restart CrashEngineProofs.ce_run CrashEngineProofs.ce_diamond
                         (CrashEngine.crash_between_b CrashEngineProofs.ce_run CrashEngineProofs.ce_diamond
                            CrashEngineProofs.ce_start k))
                      (Engine.build CrashEngineProofs.ce_run CrashEngineProofs.ce_diamond CrashEngineProofs.ce_start))
          (seq 0 6) = true /\
  forallb (fun k => match CrashEngine.crash_inside_b CrashEngineProofs.ce_run CrashEngineProofs.ce_diamond
                            CrashEngineProofs.ce_start k CrashEngineProofs.ce_junk with
                    | Some c => Engine.same_result_b CrashEngineProofs.ce_diamond
                                  (CrashEngine.restart CrashEngineProofs.ce_run CrashEngineProofs.ce_diamond c)
                                  (Engine.build CrashEngineProofs.ce_run CrashEngineProofs.ce_diamond
                                     CrashEngineProofs.ce_start)
                    | None => true end) (seq 0 6) = true /\
  map (fun k => match CrashEngine.crash_inside_b CrashEngineProofs.ce_run CrashEngineProofs.ce_diamond
                        CrashEngineProofs.ce_start k CrashEngineProofs.ce_junk with
                | Some _ => true | None => false end) (seq 0 4) = [false; false; true; true] /\
  Engine.build_log CrashEngineProofs.ce_run CrashEngineProofs.ce_diamond CrashEngineProofs.ce_diamond
                   CrashEngineProofs.ce_start = [(102, true); (103, true)].
Proof. exact CrashEngineProofs.ce_example. Qed.

(* ---- 6b. C05_full on the engine with amended inputs, deferral and failing steps ----------------
   model/Engine.v Section Amend ([gate] = true is the dispatch rule of the code), invariant [InvA] of
   C01 (proofs/EngineAmendFull.v: recorded traces valid for the step with its remembered amended
   inputs, K = no stale success, closure).  model/CrashEngine.v Section CrashAmend:
   [crash_state_a g proj y c]: the first k dispatch decisions of a build (run, skip, deferral,
   failure), and possibly one more step whose command was running: PENDING, not deferred, no
   recorded trace, ANY content at its outputs, and remembering the amended inputs whose amend() call
   was committed before the kill (some of those the command asks for). *)
Section EngineCrashAmend.
  Import Engine EngineProofs EngineAmendProofs EngineAmendFull CrashEngine CrashEngineAmend.
  Variable run : N -> list (option N) -> list (option N) -> N -> N.
  Variable amend : N -> list (option N) -> list N.
  Variable fails : N -> list (option N) -> list (option N) -> bool.

  (* every crash state of every build, gated (the code) or not, satisfies the invariant and has the
     sources and the environment of the killed build *)
  Theorem C05_crash_state_satisfies_InvA :
    forall (proj : project), wf_a amend proj ->
    forall (g : bool) (y c : asys),
      InvA run amend fails proj y -> (forall q, In q proj -> afail y (sid q) = false) ->
      crash_state_a run amend fails g proj y c ->
      InvA run amend fails proj c /\ same_world proj (abase y) (abase c).
  Proof. exact (crash_state_a_InvA run amend fails). Qed.

  (* ungated dispatch: the restarted build is finished and has the step states (FAILED included)
     and output contents of the build that was not killed, and of a build from scratch *)
  Theorem C05_full_amend_failing_ungated :
    forall (proj : project), wf_a amend proj ->
    forall (y c : asys),
      InvA run amend fails proj y -> (forall q, In q proj -> afail y (sid q) = false) ->
      crash_state_a run amend fails false proj y c ->
      let r := restart_a run amend fails false proj c in
      InvA run amend fails proj r /\ Finished_a run amend fails proj r /\
      same_result_a proj r (a_build run amend fails false proj y) /\
      same_result_a proj r (build_world_a run amend fails false proj (fs (abase y), ev (abase y)) empty_asys).
  Proof. exact (crash_restart_a_equals_uninterrupted run amend fails). Qed.

  (* the gating of the code: the restarted build keeps the invariant (no stale success) and the
     world, and has the result of the build that was not killed whenever both are finished (a gated
     build need not be: D28, C01_D28_engine_refuted) *)
  Theorem C05_full_amend_failing_gated_partial :
    forall (proj : project), wf_a amend proj ->
    forall (g : bool) (y c : asys),
      InvA run amend fails proj y -> (forall q, In q proj -> afail y (sid q) = false) ->
      crash_state_a run amend fails g proj y c ->
      let r := restart_a run amend fails g proj c in
      InvA run amend fails proj r /\ same_world proj (abase y) (abase r) /\
      (Finished_a run amend fails proj r -> Finished_a run amend fails proj (a_build run amend fails g proj y) ->
       same_result_a proj r (a_build run amend fails g proj y)).
  Proof. exact (crash_restart_a_gated_partial run amend fails). Qed.

  (* the step whose command was running is never hash-checked-and-skipped by the restarted build *)
  Theorem C05_interrupted_step_not_skipped_amend :
    forall (proj : project), wf_a amend proj ->
    forall (g : bool) (s : step) (y : asys) (junk : N -> option N) (dyn : list N),
      In s proj ->
      let c := torn_a s y junk dyn in
      ~ In (sid s, false)
           (a_build_log run amend fails g proj proj (resync_a proj c (fs (abase c), ev (abase c)))).
  Proof. exact (interrupted_step_not_skipped_a run amend fails). Qed.
End EngineCrashAmend.

(* full statement for the dispatch rule of the code, not proved: needs that a gated build from a
   crash state is finished whenever the gated build that was not killed is (a decision-by-decision
   simulation of the two builds).  Stated over [crash_state_ad]: the torn step was really dispatched
   (run, deferral or failure); over [crash_state_a] (any PENDING step torn) it is FALSE: *)
Definition C05_full_amend_gated : Prop :=
  forall run amend fails (proj : Engine.project), Engine.wf_a amend proj ->
  forall (y c : Engine.asys),
    EngineAmendFull.InvA run amend fails proj y -> (forall q, In q proj -> Engine.afail y (Engine.sid q) = false) ->
    CrashEngine.crash_state_ad run amend fails true proj y c ->
    Engine.same_result_a proj (CrashEngine.restart_a run amend fails true proj c)
                         (Engine.a_build run amend fails true proj y).

Theorem C05_full_amend_gated_needs_dispatch_refuted :
  let y := Engine.resync_a EngineAmendProofs.p28 (EngineAmendProofs.bw28 true EngineAmendProofs.w28a Engine.empty_asys)
                           EngineAmendProofs.w28b in
  let z := CrashEngine.a_build_prefix Engine.mix_run (Engine.amend_tab EngineAmendProofs.tab28) Engine.no_fail true
                                      EngineAmendProofs.p28 1 y in
  exists s, nth_error EngineAmendProofs.p28 1 = Some s /\ Engine.stt (Engine.abase z) (Engine.sid s) = Engine.Pending /\
    CrashEngine.dispatched (Engine.amend_tab EngineAmendProofs.tab28) Engine.no_fail true EngineAmendProofs.p28 s z = false /\
    CrashEngine.same_result_a_b EngineAmendProofs.p28
      (CrashEngine.restart_a Engine.mix_run (Engine.amend_tab EngineAmendProofs.tab28) Engine.no_fail true EngineAmendProofs.p28
         (CrashEngine.torn_a s z (fun _ => None) []))
      (Engine.a_build Engine.mix_run (Engine.amend_tab EngineAmendProofs.tab28) Engine.no_fail true EngineAmendProofs.p28 y) = false /\
    forallb (fun k => CrashEngine.same_result_a_b EngineAmendProofs.p28
               (CrashEngine.restart_a Engine.mix_run (Engine.amend_tab EngineAmendProofs.tab28) Engine.no_fail true EngineAmendProofs.p28
                  (CrashEngine.a_build_prefix Engine.mix_run (Engine.amend_tab EngineAmendProofs.tab28) Engine.no_fail true
                     EngineAmendProofs.p28 k y))
               (Engine.a_build Engine.mix_run (Engine.amend_tab EngineAmendProofs.tab28) Engine.no_fail true EngineAmendProofs.p28 y))
            (seq 0 4) = true.
Proof. exact CrashEngineAmend.gated_needs_dispatch_refuted. Qed.

(* the hypotheses are satisfiable, and on this instance the gated statement holds at every point:
   an amending script step that can fail, all four steps rerun, killed at every point between
   decisions and inside every command (before and after its amend() call), with the working and
   with the failing script, gated and ungated *)
Example C05_engine_amend_example :
  Engine.wf_a (Engine.amend_tab CrashEngineAmend.ca_tab) CrashEngineAmend.ca_proj /\
  (forall g script,
     EngineAmendFull.InvA Engine.mix_run (Engine.amend_tab CrashEngineAmend.ca_tab)
       (Engine.fail_tab CrashEngineAmend.ca_ftab) CrashEngineAmend.ca_proj (CrashEngineAmend.ca_start g script) /\
     (forall q, In q CrashEngineAmend.ca_proj ->
                Engine.afail (CrashEngineAmend.ca_start g script) (Engine.sid q) = false)) /\
  CrashEngineAmend.ca_all_points false 5 = true /\ CrashEngineAmend.ca_all_points true 5 = true /\
  CrashEngineAmend.ca_all_points false 6 = true /\ CrashEngineAmend.ca_all_points true 6 = true.
Proof.
  split; [exact CrashEngineAmend.ca_wf_a|]. split; [exact CrashEngineAmend.ca_start_ok|].
  destruct CrashEngineAmend.ca_example as (H1 & H2 & H3 & H4 & _). repeat split; assumption.
Qed.

(* ---- non-vacuity ---------------------------------------------------------------------------- *)
(* every prefix of the two witness histories satisfies the hypotheses used above, opens without
   error in strict mode, and the histories contain RUNNING and CHECKING crash states *)
Example C05_example_prefixes :
  forallb (fun k => let s := run_ops (firstn k d6b_history) (init_st 100) in
                    inv_b s && inv_succeeded_b s && inv_running_nohash_b s &&
                    match open_db false true 100 (db_at 100 d6b_history (S k)) with Ok _ => true | _ => false end &&
                    match reset_interrupted s with Ok s' => no_running_checking_b s' | _ => false end)
          (seq 0 20) = true /\
  existsb (fun k => negb (no_running_checking_b (run_ops (firstn k d6b_history) (init_st 100)))) (seq 0 20) = true /\
  no_orphans_b W0 [s_o] d6b_sys = true /\ no_orphans_b W3 [s_o] d6b_sys = true /\
  no_orphans_b W1 [s_o] d6b_sys = false /\ no_orphans_b W2 [] d6_sys = false.
Proof. vm_compute. repeat split; reflexivity. Qed.
