(* C05 A build killed at any point is completed correctly after restart.
   Property theorems only; proofs in proofs/CrashProofs.v; model in model/Crash.v (on top of
   model/Graph.v); design.d/C05.md says what is partial and why. *)
From Coq Require Import List NArith Bool.
From SV Require Import lib.Bytes model.Graph model.GraphInv gen.GenCrash model.Crash proofs.CrashProofs
  proofs.CrashReach proofs.CrashStarted.
Import ListNotations.
Open Scope N_scope.

(* ---- the full statement, kept visible (not proved) ------------------------------------------
   [build] is the engine (model/Engine.v does not exist yet): a complete, uninterrupted build
   of the stored workflow [s] against the disk [d], given the project [pr] (sources, programs).
   [crash pr k s d] is the state of the world after a kill at crash point k of that build
   (committed prefix, partial writes of running commands, memory lost).  C05 says: opening the
   crashed database raises no error, and building from the crashed world gives the graph and
   the files of the uninterrupted build. *)
Section Full.
  Variable project : Type.
  Variable build : project -> st -> disk -> st * disk.
  Variable crash : project -> nat -> st -> disk -> dbfile * disk.
  Definition C05_full : Prop :=
    forall (pr : project) (cap : N) (s : st) (d : disk) (k : nat),
      exists s1, open_db_now false cap (fst (crash pr k s d)) = Ok s1 /\
                 let (s2, d2) := build pr s1 (snd (crash pr k s d)) in
                 let (s3, d3) := build pr s d in
                 s2 = s3 /\ same_paths d2 d3 = true.
End Full.

(* ---- the source has the structure the model was written for ---------------------------------
   (generated on every run from trellis.py, builder.py, finalize.py, workflow.py, executor.py,
   startup.py, director.py; a change of any of these shapes breaks this obligation) *)
Theorem C05_source_structure :
  schema_before_first_transaction = true /\
  cleanup_sequence = [1; 2; 3] /\ revert_optional_transactions = 1 /\
  removal_outside_transaction = true /\ removal_clears_queue = true /\ queue_in_memory_only = true /\
  execute_job_sequence = [1; 2; 3; 4] /\
  reset_interrupted_updates = [(24, 22); (21, 25)] /\ reset_interrupted_failed_loop = true /\
  rescan_unconfirmed_cause = cause_code CConfirmed /\
  serve_sequence = [1; 2; 3; 4; 5].
Proof. exact source_structure. Qed.

(* ---- 1. opening a crashed database -----------------------------------------------------------*)
(* Trellis._check_consistency (per-row creator/detached agreement, reachability from the root,
   row validation) accepts every state that satisfies the invariant of C09 ... *)
Theorem C05_check_consistency_accepts_inv :
  forall s, inv_b s = true -> cc_trellis_b s = true.
Proof. exact check_consistency_accepts_inv. Qed.

(* ... and with I4 (outputs of SUCCEEDED steps are BUILT or VOLATILE) the whole check, strict or
   not, returns without error and without repairing anything. *)
Theorem C05_open_after_crash_consistent :
  forall s strict, inv_b s = true -> inv_succeeded_b s = true -> check_consistency strict s = Ok s.
Proof. exact open_after_crash_consistent. Qed.

(* Every crash point k >= 1 of any transaction history whose prefix states satisfy the two
   invariants (C09: every reachable state does) opens to exactly the committed prefix. *)
Theorem C05_open_every_prefix :
  forall cap ops k repair strict,
    inv_b (run_ops (firstn k ops) (init_st cap)) = true ->
    inv_succeeded_b (run_ops (firstn k ops) (init_st cap)) = true ->
    open_db repair strict cap (db_at cap ops (S k)) = Ok (run_ops (firstn k ops) (init_st cap)).
Proof. exact open_prefix_ok. Qed.

(* The same with C09's theorem in place of the invariant hypothesis: for every history that
   respects the hold protocol (C09_reachable_inv), whatever the arguments of its transactions. *)
Theorem C05_open_every_reachable_prefix :
  forall cap ops k repair strict,
    protocol_run_b (init_st cap) (firstn k ops) = true ->
    inv_succeeded_b (run_ops (firstn k ops) (init_st cap)) = true ->
    open_db repair strict cap (db_at cap ops (S k)) = Ok (run_ops (firstn k ops) (init_st cap)).
Proof. exact open_reachable_prefix_ok. Qed.

(* Crash point 0 (schema applied in autocommit mode, root never committed).  With the code as it
   is read today this is the error of finding D13 when open_creates_missing_root = false, and a
   fresh start when the not-fresh branch creates the missing root. *)
Theorem C05_open_point_zero :
  forall cap ops strict,
    open_db_now strict cap (db_at cap ops 0) =
    if open_creates_missing_root then Ok (init_st cap) else Internal 300.
Proof. exact open_point_zero_now. Qed.

Theorem C05_open_point_zero_refuted_without_root_repair :
  forall cap ops strict, exists t, open_db false strict cap (db_at cap ops 0) = Internal t.
Proof. exact open_point_zero_refuted. Qed.

(* ---- 2. interrupted steps ---------------------------------------------------------------------*)
Theorem C05_reset_interrupted_post :
  forall s s',
    nodup_by str_eqb (map sl (steps s)) = true ->
    reset_interrupted s = Ok s' ->
    no_running_checking_b s' = true /\
    frame s s' /\
    (forall l, sstate_of l s = Some SRunning ->
       sstate_of l s' = Some SPending \/ (sstate_of l s' = Some SFailed /\ is_detached (KStep, l) s = true)) /\
    (forall l, sstate_of l s = Some SChecking -> sstate_of l s' = Some SPending /\ has_hash l s' = has_hash l s).
Proof. exact reset_interrupted_post. Qed.

(* reset_for_rerun, the transaction committed before the command starts, leaves no product of
   the step BUILT *)
Theorem C05_reset_for_rerun_degrades_outputs :
  forall l s s', reset_for_rerun l s = Ok s' -> built_products l s' = [].
Proof. exact reset_for_rerun_post. Qed.

(* and a restart keeps it that way: the interrupted step has no stored hash (so it cannot be
   skipped), none of its products is BUILT, and it is PENDING (or FAILED when detached) *)
Theorem C05_interrupted_outputs_not_up_to_date :
  forall s s' l,
    nodup_by str_eqb (map sl (steps s)) = true -> inv_running_nohash_b s = true ->
    reset_interrupted s = Ok s' -> sstate_of l s = Some SRunning -> built_products l s = [] ->
    has_hash l s' = false /\ built_products l s' = [] /\
    (sstate_of l s' = Some SPending \/ sstate_of l s' = Some SFailed).
Proof. exact interrupted_outputs_not_up_to_date. Qed.

(* transactions of other jobs that only move states keep both facts while the command runs *)
Theorem C05_started_facts_kept_by_state_only_transactions :
  forall o s s' l,
    match o with OpDispatch _ | OpValidatePending _ | OpMarkStepPending _ | OpHold _ | OpRelease _ => True
               | _ => False end ->
    step_op o s = Ok s' -> has_hash l s = false -> built_products l s = [] ->
    has_hash l s' = false /\ built_products l s' = [].
Proof. exact started_kept_by_state_only. Qed.

(* The invariant over ALL fourteen transaction kinds, declarations and completions of other
   steps included.  [J started s]: every step of [started] (reset_for_rerun committed, completion
   not yet) is RUNNING, has no stored hash and none of its products is BUILT.  [proto] lists the
   protocol facts used (dispatch only of PENDING steps, reset_for_rerun only for the RUNNING step
   without hash just dispatched, skip/validate jobs end CHECKING steps, a standalone hash result
   never has cause SUCCEEDED, a completion names no product of ANOTHER running step and node keys
   are unique, a running step is not redefined, delete_detached / reset_interrupted_steps run
   when no command runs); rejected or failed transactions are rolled back. *)
Theorem C05_started_step :
  forall started s o s',
    J started s -> proto started s o -> step_op o s = Ok s' -> J (started_after o started) s'.
Proof. exact started_step. Qed.

Theorem C05_started_invariant :
  forall cap ops,
    proto_run ops (init_st cap) [] ->
    J (snd (run_started ops (init_st cap) [])) (run_ops ops (init_st cap)).
Proof. exact started_invariant_init. Qed.

(* a kill at any point of such a history, then the restart: every step whose command was running
   has no stored hash, no BUILT product, and is PENDING (FAILED if detached) *)
Theorem C05_started_then_crash :
  forall cap ops x s',
    proto_run ops (init_st cap) [] -> In x (snd (run_started ops (init_st cap) [])) ->
    nodup_by str_eqb (map sl (steps (run_ops ops (init_st cap)))) = true ->
    reset_interrupted (run_ops ops (init_st cap)) = Ok s' ->
    has_hash x s' = false /\ built_products x s' = [] /\
    (sstate_of x s' = Some SPending \/ sstate_of x s' = Some SFailed).
Proof. exact started_then_crash. Qed.

Example C05_started_example :
  proto_run started_example (init_st 100) [] /\
  snd (run_started started_example (init_st 100) []) = [s_mka].
Proof. exact started_example_ok. Qed.

(* ---- 3. stray UNCONFIRMED files ---------------------------------------------------------------*)
Theorem C05_stray_unconfirmed_resolved :
  forall d s s', rescan_unconfirmed d s = Ok s' -> attached_unconfirmed s' = [].
Proof. exact stray_unconfirmed_resolved. Qed.

(* ---- 4. files the uninterrupted build would have removed -------------------------------------*)
(* refuted in the window after the delete_detached commit (D6) ... *)
Theorem C05_crash_no_orphans_refuted :
  exists opt x, inv_b (g x) = true /\ inv_succeeded_b (g x) = true /\ ~ no_orphans_at W2 opt x.
Proof. exact crash_no_orphans_refuted_W2. Qed.
(* ... and in the window after the revert_optional_steps commit (D6b) *)
Theorem C05_crash_no_orphans_refuted_revert_window :
  exists opt x, inv_b (g x) = true /\ inv_succeeded_b (g x) = true /\ ~ no_orphans_at W1 opt x.
Proof. exact crash_no_orphans_refuted_W1. Qed.

(* positive counterpart: a kill before the first cleanup transaction loses nothing, because
   every path the cleanup queues is a VOLATILE/BUILT/OUTDATED file row of the stored graph, an
   output of an optional step or a node that delete_detached removes *)
Theorem C05_crash_no_orphans_partial :
  (forall opt x, no_orphans_at W0 opt x) /\
  (forall opt s s' q, revert_optional opt s = Ok (s', q) ->
     forall e, In e q -> exists r, In r (files s) /\ fl r = fst e /\
       (fstt r = FVolatile \/ fstt r = FBuilt \/ fstt r = FOutdated) /\
       existsb (fun l => mem_str (fl r) (file_sinks_of_step l s)) opt = true) /\
  (forall s s' q, delete_detached_q s = Ok (s', q) ->
     forall e, In e q -> exists r, In r (files s) /\ fl r = fst e /\
       (fstt r = FVolatile \/ fstt r = FBuilt \/ fstt r = FOutdated) /\ find_file (fl r) s' = None).
Proof. exact crash_no_orphans_partial. Qed.

(* a kill after the files were removed (before build_completed commits): the restarted cleanup
   removes nothing more and leaves nothing behind -- for ALL states, optional sets and disks *)
Theorem C05_crash_no_orphans_after_removal :
  forall opt x, no_orphans_at W3 opt x.
Proof. exact crash_no_orphans_W3. Qed.

(* ---- non-vacuity ---------------------------------------------------------------------------- *)
(* every prefix of the two witness histories satisfies the hypotheses used above, opens without
   error in strict mode, and the histories contain RUNNING and CHECKING crash states *)
Example C05_example_prefixes :
  forallb (fun k => let s := run_ops (firstn k d6b_history) (init_st 100) in
                    inv_b s && inv_succeeded_b s && inv_running_nohash_b s &&
                    match open_db false true 100 (db_at 100 d6b_history (S k)) with Ok _ => true | _ => false end &&
                    match reset_interrupted s with Ok s' => no_running_checking_b s' | _ => false end)
          (seq 0 20) = true /\
  existsb (fun k => negb (no_running_checking_b (run_ops (firstn k d6b_history) (init_st 100)))) (seq 0 20) = true /\
  no_orphans_b W0 [s_o] d6b_sys = true /\ no_orphans_b W3 [s_o] d6b_sys = true /\
  no_orphans_b W1 [s_o] d6b_sys = false /\ no_orphans_b W2 [] d6_sys = false.
Proof. vm_compute. repeat split; reflexivity. Qed.
