(* C14 A watch-mode rebuild is equivalent to a restart.
   Property theorems only; proofs live in proofs/WatchProofs.v; the model in model/Watch.v is tied
   to stepup/core/{watcher,workflow,startup,director,executor,nglob}.py by translator/gen_watch.py
   (gen/GenWatch.v) and by the correspondence + oracle of harness/p_c14.py.

   FULL STATEMENT (kept visible; what is proved of it is listed below):
   for every graph state g left by a finished build phase, every old and new file system and every
   sequence of file-system operations leading from one to the other while the watcher runs,
       watch_rebuild g (fold (change_loop (kernel events of the operations)))  =  restart g fs'.
   It splits into
     (1) fold_last_event_wins           the fold keeps exactly the last relevant event per path  PROVED
     (2) watch_commit_equals_rescan     commit = rescan when the sets cover the difference       PROVED
     (3) failed_steps_pending_both_ways                                                          PROVED
     (4) changes_cover_difference       the emitted items do cover the difference:
           file operations in watched directories                                                PROVED (_files)
           created / removed / moved directories that match a pattern                           REFUTED for the
               code shape without `isdir_emits_self` (C14-D10), proved for the shape with it
           files inside a new directory that no watch was ever requested for                    REFUTED (C14-D10d)
           watched directory removed / moved away: everything recorded under it is deleted       PROVED (_removed_directory_)
           directory that (re)appears and is a key of `watches`: watch installed, files directly
               inside it queued                                                                  PROVED (_appeared_directory_)
           every level of the breadth-first rescan (fuel adequacy, all duplicate-free trees)      PROVED (_all_levels_)
           the watch set over whole operation sequences (AsyncInotifyWrapper.watches versus the
               kernel's watches, explicit inotify queue)                                         REFUTED (W1, W2), swept
               on the fragment without renames; pending watches created by dir_loop: correspondence only
     (5) composition: fold on the old state + FAILED reset + commit + build = reset + env rescan +
           file/nglob rescan + build, given (4) as the file-system part of Covers                 PROVED (_rebuild_equals_restart)
     and (2) needs `detached_unmatched` while the commit re-hashes detached nodes: REFUTED without it (D15). *)
From Coq Require Import List NArith Bool.
From SV Require Import lib.Bytes gen.GenWatch model.Watch model.WatchBuild model.WatchSet
  proofs.WatchProofs proofs.WatchDeep proofs.WatchBuildProofs proofs.WatchSetProofs.
Import ListNotations.
Open Scope N_scope.

Definition C14_full : Prop :=
  forall (rest : Type) on_action on_nglob_change hash_fs exists_fs matches universe
         (g : gstate rest) (U D : list path),
    WellFormed rest matches g ->
    (* no coverage hypothesis, no detached_unmatched: those must follow from (4) for every history *)
    watch_commit rest on_action on_nglob_change hash_fs matches universe g U D
    = startup_rescan rest on_action on_nglob_change hash_fs exists_fs matches universe g.

(* (1) After ANY sequence of change items (DELETED, UPDATED, DELETED_PARENT, each recorded with or
   without during_build), a path is in `updated` (resp. `deleted`) iff the last item that meant
   something for it -- i.e. passed the relevance filter, or listed it under a removed directory --
   was an update (resp. a deletion); the two sets are disjoint. *)
Theorem C14_fold_last_event_wins :
  forall (relevant : bool -> path -> bool) (under : bool -> path -> list path)
         (items : list item) (p : path),
    let w := fold_changes relevant under items ws_empty in
    (pmem p (ws_updated w) = true <-> last_effect relevant under items p = Some true) /\
    (pmem p (ws_deleted w) = true <-> last_effect relevant under items p = Some false) /\
    (pmem p (ws_updated w) = true -> pmem p (ws_deleted w) = false).
Proof. exact fold_last_event_wins. Qed.

(* (2) Files, hashes, everything the hash actions touch (step states, pending marks, OUTDATED
   cascades: `rest` and `on_action` are arbitrary) and nglob rows agree, for the code shape selected
   by the generated flag commit_attached_only. *)
Theorem C14_watch_commit_equals_rescan_partial :
  forall (rest : Type)
         (on_action : action -> path -> list fnode * rest -> list fnode * rest)
         (on_nglob_change : str -> list fnode * rest -> list fnode * rest)
         (hash_fs : path -> option fh) (exists_fs : path -> bool)
         (matches : N -> path -> bool) (universe : list path)
         (g : gstate rest) (U D : list path),
    WellFormed rest matches g ->
    Covers rest hash_fs exists_fs matches universe commit_attached_only g U D ->
    (commit_attached_only = false -> detached_unmatched rest matches g) ->
    watch_commit rest on_action on_nglob_change hash_fs matches universe g U D
    = startup_rescan rest on_action on_nglob_change hash_fs exists_fs matches universe g.
Proof.
  intros. unfold watch_commit.
  (* the statement list the translator read from Watcher.run_once IS the modelled shape *)
  change commit_program with (base_program commit_attached_only).
  rewrite run_commit_base. apply watch_commit_equals_rescan_gen; assumption.
Qed.

(* (2), why `deleted` is not pruned: a commit that discards the unchanged re-hashes from BOTH sets (statement
   list prune_both_program, everything else as in run_once) differs from the rescan on a well-formed,
   covered instance: a static file that is a recorded match vanished during the build (MISSING, hash unknown,
   still listed), DELETED is recorded, the re-hash is "unchanged": the stale match stays, the rescan drops
   it.  The statement list of run_once agrees with the rescan on the same instance. *)
Theorem C14_commit_pruning_deleted_refuted :
  WellFormed unit any_match g_pd /\
  Covers unit hash_pd exists_pd any_match [p_pd] true g_pd [] [p_pd] /\
  run_commit unit (fun _ _ x => x) (fun _ x => x) hash_pd any_match [p_pd] prune_both_program g_pd [] [p_pd]
  = Some g_pd /\
  startup_rescan unit (fun _ _ x => x) (fun _ x => x) hash_pd exists_pd any_match [p_pd] g_pd
  = Some (mk_g [mk_fnode p_pd true FS_MISSING None] [mk_ng 0 [112] true []] tt) /\
  run_commit unit (fun _ _ x => x) (fun _ x => x) hash_pd any_match [p_pd] (base_program true) g_pd [] [p_pd]
  = startup_rescan unit (fun _ _ x => x) (fun _ x => x) hash_pd exists_pd any_match [p_pd] g_pd.
Proof. exact prune_deleted_refuted. Qed.

(* (3) start_build_phase and reset_interrupted_steps hand the same steps (all attached FAILED ones)
   to mark_step_pending when no step is RUNNING or CHECKING, which is the case in a watch phase. *)
Theorem C14_failed_steps_pending_both_ways :
  forall (rest : Type) (mark_step_pending : str -> list srow * rest -> list srow * rest)
         (sr : list srow * rest),
    (forall s, In s (fst sr) -> s_state s <> SRunning /\ s_state s <> SChecking) ->
    resume_reset rest mark_step_pending sr = start_build_pre rest mark_step_pending sr.
Proof. exact failed_steps_pending_both_ways. Qed.

(* (4), file fragment: for every sequence of writes, removals and renames of regular files, and every
   path whose directory has an installed watch, the last item change_loop queued for that path says
   whether the file exists in the final tree; no item means the file is what it was. *)
Theorem C14_changes_cover_difference_files :
  forall (watched : path -> bool) (ops : list fop) (f : ffs) (x : path),
    watched x = true ->
    cover_rel (raw_last (emitted watched f ops) x) (f x) (run_ops f ops x).
Proof. exact changes_cover_difference_files. Qed.

(* (4), a directory with an installed watch is removed or moved away (DELETE|ISDIR or MOVED_FROM|ISDIR
   delivered by its parent): change_loop queues DELETED_PARENT and marks the watch pending, and -- whatever
   was recorded before -- after that item every attached node in a relevant state whose label lies under
   the directory and every recorded match of an attached pattern under it is in `deleted` and not in
   `updated`. *)
Theorem C14_removed_directory_covers_everything_under :
  forall (rest : Type) (matches : N -> path -> bool) (g : gstate rest)
         (self : bool) (t : tree) (w : watches) (d : path) (m : N) (items : list item) (p : path),
    removed_mask m -> w_get w d = Some true ->
    ((exists f, In f (g_files g) /\ f_attached f = true /\ mem_fstate (f_state f) relevant_states = true /\
                is_prefix (dir_pre d) (f_path f) = true /\ f_path f = p) \/
     (exists r, In r (g_nglobs g) /\ ng_attached r = true /\ In p (ng_matches r) /\
                is_prefix (dir_pre d) p = true)) ->
    let r := process_event_gen self t w (mk_event m d) in
    let ws := fold_changes (change_is_relevant rest matches g) (relevant_paths_under rest g)
                           (items ++ [mk_item DeletedParent d false]) ws_empty in
    In (mk_item DeletedParent d false) (snd r) /\ w_get (fst r) d = Some false /\
    pmem p (ws_deleted ws) = true /\ pmem p (ws_updated ws) = false.
Proof.
  intros rest matches g self t w d m items p Hm Hw Hp r ws.
  destruct (removed_dir_emits_deleted_parent self t w d m Hm Hw) as [A B].
  split; [subst r; rewrite B; left; reflexivity|]. split; [exact A|].
  apply deleted_parent_marks_all. apply (relevant_paths_under_spec rest g false d p). exact Hp.
Qed.

(* (4), a directory appears (CREATE|ISDIR or MOVED_TO|ISDIR) that is a key of `watches`, installed or
   pending (it was watched before, or dir_loop recorded it while it did not exist): afterwards its watch
   is installed and every regular file directly inside it has been queued as UPDATED. *)
Theorem C14_appeared_directory_children_covered :
  forall (self : bool) (t : tree) (w : watches) (d : path) (inst : bool) (m : N),
    created_mask m -> w_get w d = Some inst ->
    let r := process_event_gen self t w (mk_event m d) in
    w_get (fst r) d = Some true /\
    forall x, t_is_file t x = true -> is_child d x = true -> In (mk_item Updated x false) (snd r).
Proof. exact appeared_dir_children_covered. Qed.

(* (4), EVERY level: the fuel process_event_gen gives the breadth-first rescan is adequate for every tree
   without duplicate entries.  For a directory d that appears and every directory x at or below d such that
   all directories from d down to x are keys of `watches` (installed or pending; exactly those the loop
   `while len(paths) > 0` descends into): afterwards the watch of x is installed, every regular file
   directly inside x is queued UPDATED, and (code shape with isdir_emits_self) x itself is queued; the keys of
   `watches` are unchanged. *)
Theorem C14_appeared_directory_all_levels_covered :
  forall (self : bool) (t : tree) (w : watches) (d : path) (m : N),
    NoDup (map fst t) -> created_mask m ->
    let r := process_event_gen self t w (mk_event m d) in
    (forall x, reach t (is_key w) d x ->
       w_get (fst r) x = Some true /\
       (forall y, t_is_file t y = true -> is_child x y = true -> In (mk_item Updated y false) (snd r)) /\
       (self = true -> In (mk_item Updated (dir_label x) false) (snd r))) /\
    (forall x, is_key (fst r) x = is_key w x).
Proof.
  intros self t w d m ND Hm r. split.
  - intros x Rx. exact (appeared_dir_all_levels_covered self t w d m ND Hm x Rx).
  - exact (appeared_dir_keys_unchanged self t w d m ND Hm).
Qed.

Example C14_all_levels_example :
  reach deep_t (is_key deep_w) [100] [100;47;101;47;104] /\
  NoDup (map fst deep_t) /\
  snd (process_event_gen true deep_t deep_w (mk_event (M_MOVED_TO + M_ISDIR) [100]))
  = [mk_item Updated [100;47] false; mk_item Updated [100;47;102] false;
     mk_item Updated [100;47;101;47] false; mk_item Updated [100;47;101;47;103] false;
     mk_item Updated [100;47;101;47;104;47] false; mk_item Updated [100;47;101;47;104;47;105] false].
Proof.
  split; [exact deep_reach|]. split; [|vm_compute; reflexivity].
  repeat constructor; cbn; intuition discriminate.
Qed.

(* (4), directories that themselves match a pattern: covered exactly when the ISDIR branch queues the
   directory itself.  The generated flag isdir_emits_self says which shape the code has. *)
Theorem C14_matching_directory_covered_iff_self_emitted :
  (dir_create_covered true /\ dir_delete_covered true) /\
  (~ dir_create_covered false /\ ~ dir_delete_covered false).
Proof.
  split; split.
  - exact dir_create_covered_when_self.
  - exact dir_delete_covered_when_self.
  - exact dir_create_not_covered_without_self.
  - exact dir_delete_not_covered_without_self.
Qed.

(* C14-D10 witness: watches {".", "data"} (base directory and parent of every match of "data/*/"),
   mkdir data/new: nothing is queued. *)
Theorem C14_created_matching_directory_refuted :
  exists (t : tree) (w : watches) (d : path),
    w_get w [100;97;116;97] = Some true /\
    snd (process_event_gen false t w (mk_event (M_CREATE + M_ISDIR) d)) = [] /\
    snd (process_event_gen false t w (mk_event (M_DELETE + M_ISDIR) d)) = [] /\
    snd (process_event_gen true t w (mk_event (M_CREATE + M_ISDIR) d)) = [mk_item Updated (dir_label d) false].
Proof. exists t_D10, w_D10, d_D10. vm_compute. repeat split; reflexivity. Qed.

(* C14-D10d: the contents of a directory that appears and was never asked to be watched are not
   queued, with or without the flag. *)
Theorem C14_new_directory_contents_refuted :
  forall self, ~ new_dir_contents_covered self.
Proof. exact new_dir_contents_not_covered. Qed.

(* D15 witness: a detached UNDECLARED node on a path matched by an attached pattern, file
   created while watching: the commit raises (None = ConsistencyError), the rescan does not; with
   the re-hash restricted to attached nodes the two agree. *)
Theorem C14_detached_matched_node_refuted :
  watch_commit_gen unit id_action id_nglob hash_D15 all_match [p_D15] false g_D15 [p_D15] [] = None /\
  startup_rescan unit id_action id_nglob hash_D15 (fun _ => true) all_match [p_D15] g_D15 <> None /\
  watch_commit_gen unit id_action id_nglob hash_D15 all_match [p_D15] true g_D15 [p_D15] []
  = startup_rescan unit id_action id_nglob hash_D15 (fun _ => true) all_match [p_D15] g_D15.
Proof.
  split; [exact D15_watch_commit_errors|]. split; [rewrite D15_rescan_ok; discriminate|].
  exact D15_attached_only_agrees.
Qed.

(* Conservative deviation (not a violation of C14; findings.d/C14-stale-update.json): DELETED_PARENT is
   expanded through the graph only (nodes and RECORDED matches).  A path that became a match during this
   watch phase (UPDATED d1/n, no node, not yet recorded) stays in `updated` when d1 is moved away
   afterwards, so the commit records a match that no longer exists and makes the registering step pending:
   the watch side reruns one step more than a restart, and that rerun registers the pattern afresh from
   the real tree.  The coverage hypothesis of C14_watch_commit_equals_rescan_partial (U paths exist)
   fails for this history, so state equality BEFORE the build is refuted here; equality of the result of
   the rebuild is checked end to end by the E3 case STALE-new-match-then-directory-moved. *)
Theorem C14_update_then_parent_moved_away_refuted :
  exists (g : gstate unit) (matches : N -> path -> bool) (d p : path),
    is_prefix (dir_pre d) p = true /\
    let w := fold_changes (change_is_relevant unit matches g) (relevant_paths_under unit g)
                          [mk_item Updated p false; mk_item DeletedParent d false] ws_empty in
    pmem p (ws_updated w) = true /\ pmem p (ws_deleted w) = false.
Proof. exists g_stale, all_match, d_stale, p_stale. exact stale_update_survives_deleted_parent. Qed.

(* (5) The whole reaction up to the dispatch of steps (model/WatchBuild.v).  Watch side: every queued item
   (with or without during_build) is recorded against the state g the finished build phase left; then
   start_build_phase makes the attached FAILED steps pending; then run_once commits; then the build phase.
   Restart side: reset_interrupted_steps, rescan_env_vars, rescan_files, rescan_nglobs, then the same build
   phase.  For EVERY item list: if no step is RUNNING/CHECKING, the environment of the new director equals
   the recorded values (the one legitimate difference: file events do not carry environment changes, see
   C14_env_change_seen_by_restart_only), the FAILED reset takes no relevance away, the state after it is
   WellFormed, and the two sets cover the file-system difference (CoversFS: the part of Covers that is
   about the file system; relevance and disjointness of the sets are DERIVED from C14_fold_last_event_wins),
   then both sides hand the same graph state to the build phase, hence the same outcome. *)
Theorem C14_rebuild_equals_restart :
  forall (R : Type) on_action on_nglob_change (mark_step_pending : str -> SR R -> SR R)
         hash_fs exists_fs matches universe (getenv : str -> option str)
         (outcome : Type) (build : G R -> outcome) (g : G R) (items : list item),
    let w := fold_changes (change_is_relevant (WatchBuild.below R) matches g) (relevant_paths_under (WatchBuild.below R) g) items ws_empty in
    let g1 := fail_watch R mark_step_pending g in
    NoDup (map f_path (g_files g)) -> matches_sound R matches g -> matches_unowned R g ->
    no_step_in_flight R g -> fail_keeps_relevant R mark_step_pending matches g ->
    env_unchanged R getenv g1 ->
    WellFormed (WatchBuild.below R) matches g1 ->
    CoversFS R hash_fs exists_fs matches universe commit_attached_only g1 (ws_updated w) (ws_deleted w) ->
    (commit_attached_only = false -> detached_unmatched (WatchBuild.below R) matches g1) ->
    watch_rebuild_pre R on_action on_nglob_change mark_step_pending hash_fs matches universe g items
    = restart_pre R on_action on_nglob_change mark_step_pending hash_fs exists_fs matches universe getenv g /\
    watch_rebuild R on_action on_nglob_change mark_step_pending hash_fs matches universe outcome build g items
    = restart R on_action on_nglob_change mark_step_pending hash_fs exists_fs matches universe getenv outcome build g.
Proof.
  intros R oa on msp hf ef mt un ge oc bd g items w g1 ND MS MU NF FK EU WF CF DU. split.
  - unfold watch_rebuild_pre, watch_rebuild_pre_with, watch_commit. fold w. fold g1.
    change commit_program with (base_program commit_attached_only). rewrite run_commit_base.
    apply (rebuild_pre_equals_restart_pre R oa on msp hf ef mt un ge commit_attached_only g items); assumption.
  - unfold watch_rebuild, watch_rebuild_pre, watch_commit.
    change commit_program with (base_program commit_attached_only).
    rewrite <- (rebuild_equals_restart R oa on msp hf ef mt un ge oc bd commit_attached_only g items) by assumption.
    unfold watch_rebuild_pre_with. rewrite run_commit_base. reflexivity.
Qed.

(* the legitimate difference: a variable a step uses changed between the two directors *)
Theorem C14_env_change_seen_by_restart_only :
  watch_rebuild_pre unit id_action' id_nglob' env_msp (fun _ => None) (fun _ _ => false) [] env_g []
  = Some env_g /\
  restart_pre unit id_action' id_nglob' env_msp (fun _ => None) (fun _ => false) (fun _ _ => false) [] env_new env_g
  = Some (mk_g [] [] ([mk_srow env_step true SPending], ([mk_erow env_step true [86] (Some [50])], tt))).
Proof. exact env_change_seen_by_restart_only. Qed.

(* (4), the watch set over whole histories (model/WatchSet.v: directories with identity, kernel watches on
   inodes, explicit inotify queue, rm_watch appends IGNORED at the tail).  Full invariant: after every history
   of batches from an agreeing quiet state, `watches` says installed exactly for the directories the kernel
   watches under their current path.  REFUTED: *)
Theorem C14_watchset_invariant_refuted : ~ watchset_invariant_full.
Proof. exact watchset_invariant_refuted. Qed.

(* W1: mv d1 d9; mkdir d1; mkdir d1/sub (the wrapper keeping up): the new d1/sub is recorded as installed and
   has no kernel watch. *)
Theorem C14_watchset_stale_subdirectory_watch_refuted :
  s_queue s_W1 = [] /\ agree s_W1 = true /\
  let s := run_batches s_W1 h_W1 in
  s_queue s = [] /\
  ino_of s p_d1sub = Some 4 /\ installed (s_w s) p_d1sub = true /\
  existsb (fun k => fst k =? 4) (s_kw s) = false /\
  agree s = false /\ needed_watched (fun p => str_eqb p p_d1sub) s = false.
Proof. exact stale_subdirectory_watch_refuted. Qed.

(* W2: `mv d1 d9; mkdir d1` in one batch: the late IGNORED resets the entry of the new watch; the next
   rename of d1 queues no DELETED_PARENT (one instead of two in the whole history); one operation per batch: fine. *)
Theorem C14_watchset_late_ignored_refuted :
  agree s_W2 = true /\
  (let s := run_batches s_W2 [[OMove p_d1 p_d9]; [OMkdir p_d1]; [OMove p_d1 p_d8]] in
   agree s = true /\ length (filter (is_deleted_parent p_d1) (s_items s)) = 2%nat) /\
  (let s := run_batches s_W2 [[OMove p_d1 p_d9; OMkdir p_d1]] in
   s_queue s = [] /\ installed (s_w s) p_d1 = false /\ existsb (fun k => str_eqb (snd k) p_d1) (s_kw s) = true /\
   agree s = false) /\
  (let s := run_batches s_W2 [[OMove p_d1 p_d9; OMkdir p_d1]; [OMove p_d1 p_d8]] in
   length (filter (is_deleted_parent p_d1) (s_items s)) = 1%nat).
Proof. exact late_ignored_clobbers_new_watch_refuted. Qed.

(* D10d in the state machine: the dictionary agrees with the kernel, and a directory that can contain a
   match of "*/x.dat" is not watched. *)
Theorem C14_watchset_new_directory_not_watched_refuted :
  needed_watched depth1 s_D10d = true /\
  let s := run_batches s_D10d [[OMkdir p_d5]] in
  agree s = true /\ needed_watched depth1 s = false.
Proof. exact new_directory_not_watched_refuted. Qed.

(* the fragment where the invariant holds, bounded sweep (evidence, not a statement about all histories):
   every history of up to 4 mkdir/rmdir operations over a, a/b, c, one operation per batch; with renames
   the sweep of length 3 already contains a counterexample. *)
Example C14_watchset_fragment_sweep :
  forallb (fun h => agree (run_batches s_sweep h)) (histories ops_plain 4) = true /\
  forallb (fun h => agree (run_batches s_sweep h)) (histories (ops_plain ++ ops_moves) 3) = false.
Proof. split; [exact sweep_without_renames | exact sweep_with_renames_finds_counterexample]. Qed.

(* The generated tables are the ones the proofs rely on: a state the watcher finds relevant is one
   the rescan looks at, and the stricter during-build filter is a subset. *)
Theorem C14_relevance_tables_consistent :
  forall s, (mem_fstate s relevant_states = true -> mem_fstate s rescan_excluded_states = false) /\
            (mem_fstate s relevant_states_during_build = true -> mem_fstate s relevant_states = true).
Proof. intros s. split; [apply relevant_not_excluded | apply relevant_build_subset]. Qed.

(* Non-vacuity: a concrete instance of the hypotheses of (2) with a changed static file, a deleted
   glob match and a new one; both sides compute the same non-trivial state. *)
Definition ex_a : path := [97].       (* "a": CONFIRMED static file, content changes 1 -> 2 *)
Definition ex_b : path := [98].       (* "b": recorded glob match, deleted *)
Definition ex_c : path := [99].       (* "c": new glob match *)
Definition ex_g : gstate (list str) :=
  mk_g [mk_fnode ex_a true FS_CONFIRMED (Some 1)] [mk_ng 0 [112] true [ex_b]] [].
Definition ex_action : action -> path -> list fnode * list str -> list fnode * list str :=
  fun _ p x => (fst x, p :: snd x).
Definition ex_nglob : str -> list fnode * list str -> list fnode * list str :=
  fun l x => (fst x, l :: snd x).
Definition ex_hash : path -> option fh := fun p => if str_eqb p ex_a then Some 2 else None.
Definition ex_exists : path -> bool := fun p => str_eqb p ex_a || str_eqb p ex_c.
Definition ex_matches : N -> path -> bool := fun _ p => str_eqb p ex_b || str_eqb p ex_c.

Example C14_example :
  watch_commit_gen (list str) ex_action ex_nglob ex_hash ex_matches [ex_a; ex_b; ex_c] false ex_g [ex_a; ex_c] [ex_b]
  = Some (mk_g [mk_fnode ex_a true FS_CONFIRMED (Some 2)] [mk_ng 0 [112] true [ex_c]] [[112]; ex_a]) /\
  startup_rescan (list str) ex_action ex_nglob ex_hash ex_exists ex_matches [ex_a; ex_b; ex_c] ex_g
  = Some (mk_g [mk_fnode ex_a true FS_CONFIRMED (Some 2)] [mk_ng 0 [112] true [ex_c]] [[112]; ex_a]) /\
  fold_changes (fun _ _ => true) (fun _ _ => [])
    [mk_item Updated ex_b false; mk_item Deleted ex_a false; mk_item Updated ex_a false;
     mk_item Updated ex_c true; mk_item Deleted ex_b false] ws_empty
  = mk_ws [ex_c; ex_a] [ex_b].
Proof. vm_compute. repeat split; reflexivity. Qed.
