(* C19 Exit status and final report tell the truth about the build.
   Property theorems only; proofs live in proofs/PendingProofs.v.

   "The exit status of a build has the failed bit set exactly when an active step ended failed,
    a glob pattern matched a file that a step builds, or a requested target was invalid, the
    pending bit exactly when the build was not draining and a required step remained pending, and
    is zero only if every required step succeeded and nothing questionable was found.  The
    end-of-build summary accounts for every pending step under exactly one cause, with counts that
    add up to the total." *)
From Coq Require Import List NArith Bool.
From SV Require Import lib.Bytes lib.SqlExpr model.PendingTypes gen.GenPending model.Pending
  proofs.PendingGenSpec proofs.PendingProofs proofs.PendingSound proofs.PendingWaits.
Import ListNotations.
Open Scope N_scope.

(* ---------------------------------------------------------------------------------------- *)
(* First sentence: the exit status                                                           *)
(* ---------------------------------------------------------------------------------------- *)

(* The full first sentence, literally, over everything report_unbuilt / serve look at
   (`inv` = a requested target was invalid; the pending clause is read for builds that ran a
   build phase, i.e. inv = false):
     FAILED bit  <->  an attached step is FAILED \/ a glob match is a file a step builds \/ inv
     inv = false -> (PENDING bit <-> not draining /\ |U| > 0)
     exit status 0 -> no invalid target /\ nothing_wrong. *)
Definition C19_exit_status_full : Prop :=
  forall (inv : bool) (i : ru_in), exit_status_as_stated inv i.

(* Proved for all inputs since fix 4c893f7 (finding D7: the late glob validation used to be skipped
   once the return code was non-zero or the scheduler was draining). *)
Theorem C19_exit_status_full_holds : C19_exit_status_full.
Proof. exact exit_status_full. Qed.

(* The guard chain as it was before the fix does NOT satisfy the sentence: a glob match that a
   step builds next to a pending step / a missing target / a drain left the FAILED bit clear
   (exit status PENDING, WARNING, DRAINED), where the current chain sets it.  Kept to name a
   regression. *)
Theorem C19_prefix_guard_chain_refuted :
  (exists i, 0 < ru_glob_err i /\ has_bit (report_unbuilt_prefix i) rc_FAILED = false
             /\ report_unbuilt_prefix i = rc_PENDING /\ has_bit (report_unbuilt i) rc_FAILED = true) /\
  (exists i, 0 < ru_glob_err i /\ report_unbuilt_prefix i = rc_WARNING /\ has_bit (report_unbuilt i) rc_FAILED = true) /\
  (exists i, 0 < ru_glob_err i /\ report_unbuilt_prefix i = rc_DRAINED /\ has_bit (report_unbuilt i) rc_FAILED = true).
Proof. exact prefix_variant_refuted. Qed.

(* ... and the fix changed nothing else: without such a match both chains agree. *)
Theorem C19_fix_only_adds_glob_errors :
  forall i, ru_glob_err i = 0 -> report_unbuilt i = report_unbuilt_prefix i.
Proof. exact prefix_differs_only_on_glob_errors. Qed.

(* returncode_bits: what the code does, bit by bit, for all inputs. *)
Theorem C19_returncode_failed_bit :
  forall inv i, has_bit (serve_rc inv i) rc_FAILED =
    inv || (0 <? ru_nfailed i) || (0 <? ru_glob_err i).
Proof. exact failed_bit_exact. Qed.

Theorem C19_returncode_pending_bit :
  forall i, has_bit (report_unbuilt i) rc_PENDING = negb (ru_draining i) && (0 <? ru_npending i).
Proof. exact pending_bit_exact. Qed.

Theorem C19_returncode_drained_bit :
  forall i, has_bit (report_unbuilt i) rc_DRAINED = ru_draining i.
Proof. exact drained_bit_exact. Qed.

Theorem C19_returncode_warning_bit :
  forall i, has_bit (report_unbuilt i) rc_WARNING =
    negb (ru_draining i)
    && ((0 <? ru_miss_targets i) || (0 <? ru_miss_dirs i) || (glob_check_reached i && (0 <? ru_glob_warn i))).
Proof. exact warning_bit_exact. Qed.

Theorem C19_returncode_zero :
  forall inv i, serve_rc inv i = 0 <-> inv = false /\ nothing_wrong i.
Proof. exact zero_iff_nothing_wrong. Qed.

(* Zero, on a snapshot of the graph taken when the builder has stopped: every required step
   (attached, above the need threshold) is SUCCEEDED and no warning source fired. *)
Theorem C19_zero_all_required_succeeded :
  forall sn draining mt md gw ge,
    builder_stopped sn ->
    serve_rc false (ru_of_snap sn draining mt md gw ge) = 0 ->
    (forall s, In s (sn_steps sn) -> required sn s = true -> s_state s = SS_SUCCEEDED)
    /\ draining = false /\ mt = 0 /\ md = 0 /\ gw = 0 /\ ge = 0.
Proof. exact zero_all_required_succeeded. Qed.

(* A whole director run (watch mode: several phases): the exit status is the one of the LAST phase
   that was finalized, whatever earlier phases returned (bits are not accumulated), so the first
   sentence holds of it with `i` the inputs of that phase; a run in which no phase was finalized
   (stopped before the first resume) exits with the field's default PENDING, never with 0. *)
Theorem C19_exit_status_is_last_phase :
  (forall inv phases i, serve_phases inv (phases ++ [i]) = serve_rc inv i) /\
  (forall inv phases i, exit_status_as_stated inv i ->
     has_bit (serve_phases inv (phases ++ [i])) rc_FAILED = has_bit (serve_rc inv i) rc_FAILED) /\
  serve_phases false [] = rc_PENDING /\ serve_phases false [] <> 0.
Proof.
  split; [exact serve_phases_last|]. split; [|exact serve_no_phase_not_zero].
  intros inv phases i _. rewrite serve_phases_last. reflexivity.
Qed.

(* The hand-written guard chain is the one regenerated from finalize.py on this run. *)
Theorem C19_guard_chain_is_generated :
  forall i, report_unbuilt i = report_unbuilt_gen i.
Proof. exact report_unbuilt_matches_generated. Qed.

(* The TUI only adds INTERRUPTED / INTERNAL. *)
Theorem C19_tui_keeps_build_bits :
  forall inv i sig logp,
    let rc := serve_rc inv i in
    has_bit (tui_exit false rc sig logp) rc_FAILED = has_bit rc rc_FAILED /\
    has_bit (tui_exit false rc sig logp) rc_PENDING = has_bit rc rc_PENDING /\
    (tui_exit false rc sig logp = 0 <-> rc = 0 /\ sig = false /\ logp = false).
Proof. exact tui_keeps_build_bits. Qed.

(* Structure facts regenerated from builder.py / director.py: cleanup guards in this order, and
   the invalid-target code is FAILED. *)
Theorem C19_finalize_guards :
  length finalize_guards = 3%nat /\ serve_invalid_target_rc = rc_FAILED /\
  length analyze_exec_order = 11%nat.
Proof. repeat split; reflexivity. Qed.

(* ---------------------------------------------------------------------------------------- *)
(* Second sentence: the summary                                                              *)
(* ---------------------------------------------------------------------------------------- *)

(* For ANY snapshot whose step ids are distinct (node.i is a primary key). *)

(* pend_blocker holds exactly one primary blocker for every step of U and nothing else. *)
Theorem C19_pend_blocker_total_function :
  forall sn, wf_snap sn ->
    forall u, In u (U_ids sn) <-> exists! c, In (u, c) (blocker_rows sn).
Proof. exact pend_blocker_total_function. Qed.

(* ... it is a candidate, no candidate sorts before it, and RUNNABLE means "no candidate". *)
Theorem C19_primary_is_minimal_candidate :
  forall sn u,
    (c_kind (primary sn u) = K_ROOT_RUNNABLE <-> cands sn u = []) /\
    (cands sn u <> [] -> In (primary sn u) (cands sn u)) /\
    (forall c, In c (cands sn u) -> cand_lt c (primary sn u) = false).
Proof.
  intros sn u. split; [apply runnable_iff_no_candidate|]. split; [|apply primary_minimal].
  intros H. destruct (primary_spec sn u) as [[E _]|E]; [contradiction|exact E].
Qed.

(* The attribution walk visits no step twice and only steps of U, for any blocker table with one
   row per step (by induction on the walk; no acyclicity assumption). *)
Theorem C19_attribution_no_duplicates :
  forall (B : list (N * cand)), NoDup (map fst B) ->
    forall fuel, NoDup (map fst (walk B fuel (seeds B))) /\ incl (map fst (walk B fuel (seeds B))) (map fst B).
Proof. intros B H fuel. split; [apply attributed_nodup; exact H|apply attributed_incl]. Qed.

(* The recursion has ended with the fuel the model uses (the SQL recursion terminates). *)
Theorem C19_attribution_walk_complete :
  forall sn, wf_snap sn ->
    walk (blocker_rows sn) (S (S (length (blocker_rows sn)))) (seeds (blocker_rows sn)) = attributed sn.
Proof. exact attributed_fuel_enough. Qed.

(* Counts add up: file + resource + failed + deferred + other + runnable + cyclic = |U|. *)
Theorem C19_partition_adds_up :
  forall sn, wf_snap sn ->
    sumN (map (fun k => count_kind k (attributed sn)) root_kinds) + N.of_nat (length (cyclic_ids sn))
    = N.of_nat (length (U sn)).
Proof. exact partition_adds_up. Qed.

(* Every pending step is under exactly one cause: one attributed row (whose kind is one of the six
   root kinds), or none and then it is in the cyclic residue. *)
Theorem C19_every_pending_step_exactly_one_cause :
  forall sn, wf_snap sn -> forall u, In u (U_ids sn) ->
    ((exists! r, In (u, r) (attributed sn)) /\ ~ In u (cyclic_ids sn))
    \/ ((forall r, ~ In (u, r) (attributed sn)) /\ In u (cyclic_ids sn)).
Proof. exact exactly_one_class. Qed.

Theorem C19_attributed_kinds_are_root_kinds :
  forall sn row, In row (attributed sn) -> In (c_kind (snd row)) root_kinds.
Proof. exact attributed_root_kinds. Qed.

(* ---------------------------------------------------------------------------------------- *)
(* "The report tells the truth": the WHERE clauses of pending.py are translated (sqlexpr) into   *)
(* gen/GenPending.v and evaluated by the model; these theorems say what they must mean.          *)
(* ---------------------------------------------------------------------------------------- *)

(* _INSERT_PEND_STEP selects PENDING, above the threshold, attached; _SELECT_NTOTAL (the total the
   counts add up to) counts the same rows; `unsafe` is the negated safety disjunct of dispatch. *)
Theorem C19_universe_clause :
  forall sn s,
    in_U sn s = (s_state s =? SS_PENDING) && (sn_threshold sn <? s_ineed s) && negb (s_detached s)
    /\ in_ntotal sn s = in_U sn s
    /\ s_unsafe s = negb (s_safe s || (s_has_hash s && s_safe_nh s)).
Proof. intros sn s. split; [apply in_U_spec|]. split; [apply ntotal_is_U|apply s_unsafe_spec]. Qed.

Theorem C19_ntotal_is_universe :
  forall sn, length (filter (in_ntotal sn) (sn_steps sn)) = length (U sn).
Proof. exact ntotal_is_universe. Qed.

(* _INSERT_PEND_FILE_BLOCK versus the dispatch test UNAVAILABLE_INPUT_WHERE (both translated):
   a listed input is refused by dispatch or is an unbuilt dynamic input of a deferred step, and
   every input dispatch refuses is listed. *)
Theorem C19_file_block_clause :
  forall state det dyn deferred unsafe,
    (sholds (fb_env_raw state det dyn deferred unsafe) gen_file_block_where = true ->
       unavailable_input state det dyn = true
       \/ (deferred = true /\ dyn = true /\ state <> FS_CONFIRMED /\ state <> FS_BUILT))
    /\ (unavailable_input state det dyn = true ->
        sholds (fb_env_raw state det dyn deferred unsafe) gen_file_block_where = true).
Proof. intros. split; [apply file_block_sound|apply file_block_complete]. Qed.

(* The UNION ALL of _INSERT_PEND_BLOCKER as translated arm by arm is the relation the comments of
   pending.py describe (hand-written cands_spec), for every step of U. *)
Theorem C19_blocker_arms_are_generated :
  forall sn u, In u (U sn) -> cands sn u = cands_spec sn u.
Proof. exact cands_is_spec. Qed.

(* The full second half: the cause recorded for a pending step is real.  cause_real says, per kind:
   FILE      the file is an input of the step that dispatch refuses (or an unbuilt dynamic input of a
             deferred step) and no producer of it is in U or FAILED;
   RESOURCE  the step requires `units` of the named resource and fewer (or none) are available;
   FAILED    the source is a FAILED step that produces such an input or is the nearest chain-broken
             creator ancestor of the (unsafe) step;
   DEFERRED  the step is deferred and dispatch refuses none of its inputs;
   OTHER     the nearest chain-broken ancestor of the unsafe step is neither in U nor FAILED;
   BLOCK_STEP the source is in U and produces such an input / is that ancestor;
   RUNNABLE  the step satisfies the dispatch conditions (PENDING, needed, attached, not deferred, no
             input refused by UNAVAILABLE_INPUT_WHERE, every resource requirement covered, no
             chain-broken ancestor). *)
Definition C19_report_truth_full : Prop :=
  forall sn u, In u (U sn) -> cause_real sn u (primary sn u).
Theorem C19_report_truth_full_holds : C19_report_truth_full.
Proof. exact primary_cause_real. Qed.

(* ... and so is the root every attributed step is counted under (a root kind, the recorded cause of
   a step of U); a step is in the "seem runnable" bucket only under a root that is dispatchable. *)
Theorem C19_attributed_root_is_real :
  forall sn i root, In (i, root) (attributed sn) ->
    In (c_kind root) root_kinds /\ exists v, In v (U sn) /\ primary sn v = root /\ cause_real sn v root.
Proof. exact attributed_root_real. Qed.

Theorem C19_runnable_means_dispatchable :
  forall sn i root, In (i, root) (attributed sn) -> c_kind root = K_ROOT_RUNNABLE ->
    exists v, In v (U sn) /\ s_id v = c_src root /\ dispatchable sn v.
Proof. exact runnable_root_dispatchable. Qed.

(* "Transitively waits for": a step is attributed to a root EXACTLY when following its primary
   BLOCK_STEP edges (reported_under: RU_wait steps, each a real block by C19_wait_edge_is_real) reaches
   the step of U whose recorded cause that root is; and it is in the cyclic residue EXACTLY when that
   chain reaches no root at all.  No acyclicity assumption. *)
Theorem C19_attributed_iff_waits_for_root :
  forall sn, wf_snap sn -> forall i root,
    In (i, root) (attributed sn) <-> reported_under sn i root.
Proof. exact attributed_iff_reported. Qed.

Theorem C19_wait_edge_is_real :
  forall sn u, In u (U sn) -> c_kind (primary sn u) = K_BLOCK_STEP ->
    exists p, s_id p = c_src (primary sn u) /\ in_U sn p = true
              /\ (produces_blocking_input sn u p \/ broken_ancestor sn u p).
Proof. exact wait_edge_real. Qed.

Theorem C19_cyclic_iff_no_root :
  forall sn, wf_snap sn -> forall i,
    In i (cyclic_ids sn) <-> In i (U_ids sn) /\ forall root, ~ reported_under sn i root.
Proof. exact cyclic_iff_no_root. Qed.

(* The conditions of the two recursive CTEs, the RUNNABLE insert and the seeds of the exact-count
   closure, as translated: the creator walk starts from unsafe steps, passes through RUNNING/SUCCEEDED
   non-holding ancestors and stops exactly where it does not pass (one row per step at most); the
   attribution walk seeds from the non-BLOCK_STEP rows and joins BLOCK_STEP rows on src = walk.i;
   steps without a candidate get kind ROOT_RUNNABLE; pend_seed holds the FILE and RESOURCE candidates. *)
Theorem C19_walk_clauses :
  (forall u, anc_gate u = s_unsafe u) /\
  (forall p, chain_ok p = ((s_state p =? SS_RUNNING) || (s_state p =? SS_SUCCEEDED)) && (s_holding p =? 0)) /\
  (forall p, anc_stop p = negb (chain_ok p)) /\
  (forall row, is_seed row = negb (c_kind (snd row) =? K_BLOCK_STEP)) /\
  (forall i row, is_child i row = (c_kind (snd row) =? K_BLOCK_STEP) && (c_src (snd row) =? i)) /\
  gen_runnable_kind = K_ROOT_RUNNABLE.
Proof.
  split; [exact anc_gate_spec|]. split; [exact chain_ok_spec|]. split; [exact anc_stop_spec|].
  split; [exact is_seed_spec|]. split; [exact is_child_spec|apply runnable_insert_spec].
Qed.

Theorem C19_seed_arms_are_blocker_arms :
  forall sn u, In u (U sn) ->
    flat_map (arm_cands sn u) gen_seed_arms
    = map (fun f => (K_ROOT_FILE, f_label f, f_id f)) (filter (dead_file sn) (blocking_files sn u))
      ++ map (fun r => (K_ROOT_RESOURCE, fst r, 0)) (unsat_reqs sn u).
Proof. exact seed_arms_spec. Qed.

(* The bucket queries: _bucket counts the attributed rows of the kind it is called with, the cyclic
   bucket the steps absent from pend_attributed, and _analyze_pending fills failed / cyclic /
   deferred / other / runnable from ROOT_FAILED / the residue / ROOT_DEFERRED / ROOT_OTHER /
   ROOT_RUNNABLE. *)
Theorem C19_bucket_clauses :
  (forall sn k, fst (bucket sn k) = count_kind k (attributed sn))
  /\ (forall sn, cyclic_ids sn = filter (fun u => negb (memN u (map fst (attributed sn)))) (U_ids sn))
  /\ map snd gen_summary_buckets
     = [Some K_ROOT_FAILED; None; Some K_ROOT_DEFERRED; Some K_ROOT_OTHER; Some K_ROOT_RUNNABLE].
Proof. split; [exact bucket_count_spec|]. split; [exact cyclic_ids_spec|apply summary_buckets_spec]. Qed.

(* ---------------------------------------------------------------------------------------- *)
(* Non-vacuity                                                                               *)
(* ---------------------------------------------------------------------------------------- *)

(* plan(1, SUCCEEDED) creates a(10), b(11), c(12), d(13); a reads missing file 20 and writes 21;
   b reads 21; c and d wait on each other through dynamic inputs 22/23 produced by their own
   product steps e(14, created by c, writes 22... read by d) and f(15, created by d, writes 23, read by c). *)
Definition ex_snap : snap :=
  mk_snap
    [ mk_step 1 [112] SS_SUCCEEDED NEED_PLAN false true true true false 0 None [];
      mk_step 10 [97] SS_PENDING NEED_DEFAULT false true false true false 0 (Some 1) [];
      mk_step 11 [98] SS_PENDING NEED_DEFAULT false true false true false 0 (Some 1) [];
      mk_step 12 [99] SS_PENDING NEED_DEFAULT false true false true false 0 (Some 1) [];
      mk_step 13 [100] SS_PENDING NEED_DEFAULT false true false true false 0 (Some 1) [];
      mk_step 14 [101] SS_PENDING NEED_DEFAULT false false false false false 0 (Some 12) [];
      mk_step 15 [102] SS_PENDING NEED_DEFAULT false false false false false 0 (Some 13) [];
      mk_step 16 [103] SS_PENDING NEED_DEFAULT false true false true false 0 (Some 1) [([115], 2)];
      mk_step 17 [104] SS_PENDING NEED_DEFAULT false true false true false 0 (Some 1) [] ]
    [ mk_file 20 [109] FS_MISSING false; mk_file 21 [111] FS_PLANNED false;
      mk_file 22 [120] FS_PLANNED false; mk_file 23 [121] FS_PLANNED false ]
    [ mk_dep 20 10 false; mk_dep 10 21 false; mk_dep 21 11 false;
      mk_dep 14 22 false; mk_dep 15 23 false; mk_dep 22 13 true; mk_dep 23 12 true ]
    [([115], 1)] NEED_OPTIONAL.

Example C19_example_partition :
  wf_snap ex_snap /\
  N.of_nat (length (U ex_snap)) = 8 /\
  count_kind K_ROOT_FILE (attributed ex_snap) = 2 /\
  count_kind K_ROOT_RESOURCE (attributed ex_snap) = 1 /\
  count_kind K_ROOT_RUNNABLE (attributed ex_snap) = 1 /\
  N.of_nat (length (cyclic_ids ex_snap)) = 4 /\
  report_unbuilt (ru_of_snap ex_snap false 0 0 0 1) = N.lor rc_FAILED rc_PENDING /\
  report_unbuilt (ru_of_snap ex_snap true 0 0 0 1) = N.lor rc_FAILED rc_DRAINED /\
  report_unbuilt (ru_of_snap ex_snap false 0 0 1 0) = rc_PENDING.
Proof.
  split.
  - unfold wf_snap. cbn. repeat constructor; cbn; intuition discriminate.
  - vm_compute. repeat split; reflexivity.
Qed.

(* the clauses have no gap on the sweep the harness uses to look for counterexamples, and the
   example graph's causes: step 10 blocked by the missing file 20, step 16 by resource "s". *)
Example C19_example_causes :
  fb_gap_complete = [] /\ fb_gap_sound = [] /\ cands_disagree ex_snap = [] /\
  map (fun u => (s_id u, c_kind (primary ex_snap u))) (U ex_snap)
  = [(10, K_ROOT_FILE); (11, K_BLOCK_STEP); (12, K_BLOCK_STEP); (13, K_BLOCK_STEP);
     (14, K_BLOCK_STEP); (15, K_BLOCK_STEP); (16, K_ROOT_RESOURCE); (17, K_ROOT_RUNNABLE)].
Proof. vm_compute. repeat split; reflexivity. Qed.

Example C19_example_zero :
  serve_rc false (mk_ru 0 false 0 0 0 0 0) = 0 /\ serve_rc true (mk_ru 0 false 0 0 0 0 0) = rc_FAILED /\
  serve_rc false (mk_ru 0 false 0 0 0 0 1) = rc_FAILED /\
  serve_rc false (mk_ru 0 false 0 1 0 1 1) = N.lor rc_FAILED rc_WARNING /\
  serve_rc false (mk_ru 0 false 0 0 0 1 0) = rc_WARNING.
Proof. vm_compute. repeat split; reflexivity. Qed.
