(* C15 Requests that change the workflow are applied atomically.
   Property theorems only; proofs live in proofs/TxnProofs.v; the model in model/Txn.v; the
   facts about director.py / sqlite3.py / rpc.py in gen/GenStructure.v (regenerated every run). *)
From Coq Require Import List Arith Bool String.
From SV Require Import gen.GenStructure model.Txn proofs.TxnProofs.
Import ListNotations.

(* --- sentence 1, first half ------------------------------------------------------------------
   One request = BEGIN; a list of mutations each of which may raise; DBSession.__aexit__ as
   generated from the source.  For EVERY mutation list, every raising point and every stored
   workflow: the lock is released, and the committed store afterwards is either unchanged (and
   then some mutation raised) or the result of ALL mutations; never the result of a prefix. *)
Theorem C15_request_atomic :
  forall (St : Type) (who : nat) (b : txn St) (c : St),
    snd (exec_request who b c) = false /\
    ((apply_all (muts_of b) c = None /\ fst (exec_request who b c) = c) \/
     apply_all (muts_of b) c = Some (fst (exec_request who b c))).
Proof. exact request_atomic_cases. Qed.

Theorem C15_request_atomic_eq :
  forall (St : Type) (who : nat) (b : txn St) (c : St),
    exec_request who b c = (txn_effect (muts_of b) c, false).
Proof. exact request_atomic_eq. Qed.

(* --- sentence 1, second half -----------------------------------------------------------------
   N concurrent handler tasks (any number of transactions each, awaits inside the bodies),
   further requests arriving on any connection, connections ending in any way, and EVERY
   interleaving `evs` of their instructions.  At every moment:
   (a) the committed store is the replay, in lock-acquisition order, of the finished
       transactions, each counted as a whole (committed: all its mutations; rolled back: none);
   (b) every finished transaction began from exactly the replay of the ones before it
       (log_ok: f_seen = replay of the older entries; it committed only if all its mutations
       succeeded; it rolled back without a cancellation only if one raised);
   (c) the working copy of the open transaction is private: it is the committed store at BEGIN
       plus the holder's own mutations, and nobody else's transaction ran in between. *)
Theorem C15_requests_serialisable :
  forall (St : Type) (s0 : St) (progs : list (list (txn St))) (evs : list (event St)),
    let st := run evs (init s0 progs) in
    s_committed st = replay s0 (s_log st) /\
    log_ok St s0 (s_log st) /\
    (forall o, s_open st = Some o ->
       o_seen o = s_committed st /\ apply_all (o_done o) (o_seen o) = Some (o_work o)).
Proof. exact serialisable_inv. Qed.

(* When no connection is torn down by a failing loop (the only thing that cancels handlers),
   the committed store equals the sequential composition, in lock-acquisition order, of the
   requests executed one at a time as atomic units (txn_effect = C15_request_atomic_eq). *)
Theorem C15_requests_equal_sequential_order :
  forall (St : Type) (s0 : St) (progs : list (list (txn St))) (evs : list (event St)),
    no_loopfail St evs = true ->
    let st := run evs (init s0 progs) in
    s_committed st = serial s0 (s_log st).
Proof. exact serialisable_serial. Qed.

(* --- sentence 2 ------------------------------------------------------------------------------
   After any history evs1, a request frame p is received in full on a connection c whose
   receive loop is still reading.  Whatever happens next (evs2: the peer disconnects or dies =
   PeerGone c, the server stops = Stop c, other connections fail, any scheduling), as long as
   connection c itself is not torn down by a protocol failure (LoopFail c: garbage frame,
   unpicklable reply), the handler task of the request
   - still exists, belongs to c, is never cancelled;
   - and when the event loop keeps running the handlers (drain), every task ends, this one
     with EndDone (all its transactions were started, each left through commit) or EndRaise
     (one of its own mutations raised and that transaction was rolled back as a whole), never
     EndCancel; the store invariant of C15_requests_serialisable holds at the end. *)
Theorem C15_received_in_full_applied_in_full :
  forall (St : Type) (s0 : St) (progs : list (list (txn St))) (evs1 : list (event St))
         (c : nat) (p : list (txn St)) (evs2 : list (event St)),
    let st1 := run evs1 (init s0 progs) in
    is_closed st1 c = false ->
    forallb (fun e => negb (is_loopfail St c e)) evs2 = true ->
    let i := List.length (s_tasks st1) in
    let st2 := run evs2 (step st1 (Recv c p)) in
    let st3 := drain (work_left st2) st2 in
    (exists t, nth_error (s_tasks st2) i = Some t /\ t_conn t = c /\
               t_cancel t = false /\ t_end t <> Some EndCancel) /\
    all_done st3 = true /\ Inv St s0 st3 /\
    (exists t3, nth_error (s_tasks st3) i = Some t3 /\
                ((t_end t3 = Some EndDone /\ t_todo t3 = []) \/ t_end t3 = Some EndRaise)).
Proof. exact received_applied. Qed.

(* The flags the model takes from rpc.py: a disconnect and a server stop do not cancel the
   in-flight handlers (and the teardown waits for them); only a failing loop does. *)
Theorem C15_disconnect_does_not_cancel :
  cancels peer_gone_cancels_inflight = false /\ cancels stop_cancels_inflight = false.
Proof. split; [exact peer_gone_does_not_cancel | exact stop_does_not_cancel]. Qed.

(* --- structure of the real handlers (director.py), computed over GenStructure ----------------
   For every @allow_rpc method of DirectorHandler and every helper it calls:
   no call classified as mutating lies outside an `async with self.db` block; at most one block
   contains mutating calls; no block contains an await (allow-list: empty), a call that opens
   transactions of its own, or a call of another method of the class; every self.X(...) callee
   has no block and no mutating call; a mutating handler has exactly one block, except
   amend_step whose shape is checked by amend_shape. *)
Theorem C15_handlers_single_transaction :
  forall h, In h handlers ->
    (forall it, In it (outside h) -> is_mut it = false) /\
    List.length (filter (existsb is_mut) (blocks h)) <= 1 /\
    (forall b, In b (blocks h) -> forall it, In it b ->
       await_allowed it = true /\ is_septxn it = false /\ is_helper it = false) /\
    (forall it, In it (all_items h) -> helper_ok it = true) /\
    shape_ok h = true.
Proof. exact handler_structure. Qed.

(* The handlers that change the workflow are exactly these (a new one breaks this obligation
   until it is reviewed and given rejected-late cases in the oracle). *)
Theorem C15_mutating_handlers_are_the_expected_ones :
  mutating_names =
  ["declare_static"; "register_glob"; "define_step"; "amend_step"; "hold_dispatch";
   "release_dispatch"; "record_subprocess"; "start_build_phase"]%string.
Proof. exact mutating_names_expected. Qed.

(* amend_step: the first block is the atomic unit (all mutating calls); between the blocks the
   promoted hash jobs run as transactions of their own; the second block and everything
   outside the blocks contain no mutating call; neither block contains an await. *)
Theorem C15_amend_step_two_blocks :
  exists h b1 mid b2 post,
    find_handler "amend_step"%string = Some h /\
    h_segs h = [SBlock b1; SOut mid; SBlock b2; SOut post] /\
    existsb is_mut b1 = true /\
    forallb (fun it => negb (is_mut it)) (mid ++ b2 ++ post) = true /\
    existsb is_septxn mid = true /\
    forallb (fun it => negb (is_await it)) (b1 ++ b2) = true.
Proof. exact amend_two_blocks. Qed.

(* --- non-vacuity ------------------------------------------------------------------------------
   Store = list nat; `push n` appends; `boom` raises.  Three handlers: A = [push 1; yield; push 2],
   B = [push 3; boom] (rejected late), C = two blocks like amend_step. *)
Definition push (n : nat) : mut (list nat) := fun s => Some (s ++ [n])%list.
Definition boom : mut (list nat) := fun _ => None.
Definition pA : list (txn (list nat)) := [[BMut (push 1); BYield; BMut (push 2)]].
Definition pB : list (txn (list nat)) := [[BMut (push 3); BMut boom]].
Definition pC : list (txn (list nat)) := [[BMut (push 4)]; [BYield]].

(* A late rejection leaves the store unchanged; an accepted request applies everything. *)
Example C15_example_atomic :
  exec_request 0 [BMut (push 3); BMut boom] [9] = ([9], false) /\
  exec_request 0 [BMut (push 1); BYield; BMut (push 2)] [9] = ([9; 1; 2], false).
Proof. vm_compute. split; reflexivity. Qed.

(* Interleaving: A starts, B and C try to run while A holds the lock, A finishes, B is
   rejected, C commits, the peer of A's connection goes away early.  Result = A; B; C in
   lock order with B contributing nothing. *)
Example C15_example_interleaving :
  let evs := [Run 0; Run 1; PeerGone 0; Run 0; Run 2; Run 0; Run 1; Run 0; Run 0;
              Run 1; Run 1; Run 1; Run 2; Run 2; Run 2; Run 2; Run 2; Run 2; Run 1; Run 0; Run 2] in
  let st := run evs (init [] [pA; pB; pC]) in
  s_committed st = [1; 2; 4] /\ all_done st = true /\
  map (fun f => (f_task f, f_out f)) (s_log st) = [(2, OCommit); (2, OCommit); (1, ORollback); (0, OCommit)].
Proof. vm_compute. repeat split; reflexivity. Qed.

(* A frame received before the peer dies is applied; a frame after the loop ended is not a
   received frame; a failing loop (garbage) cancels the in-flight handler, atomically. *)
Example C15_example_disconnect :
  let st := run [Recv 7 pA; PeerGone 7; Recv 7 pB; Run 0; Run 0; Run 0; Run 0; Run 0; Run 0]
                (init [] []) in
  s_committed st = [1; 2] /\ List.length (s_tasks st) = 1 /\ all_done st = true.
Proof. vm_compute. repeat split; reflexivity. Qed.

Example C15_example_loopfail_cancels_atomically :
  let st := run [Recv 7 pA; Run 0; Run 0; LoopFail 7; Run 0; Run 0] (init [] []) in
  s_committed st = [] /\ all_done st = true /\
  map (fun f => (f_out f, f_cancelled f)) (s_log st) = [(ORollback, true)].
Proof. vm_compute. repeat split; reflexivity. Qed.
