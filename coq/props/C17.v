(* C17 Named glob matching is consistent with the file system and with itself.
   Property theorems only; proofs live in lib/Regex.v and proofs/Nglob*.v. *)
From Coq Require Import List NArith Bool.
From SV Require Import lib.Bytes.
From SV Require Import lib.Regex.
From SV Require Import gen.GenNglob.
From SV Require Import model.Nglob.
From SV Require Import model.NglobGolden.
From SV Require Import proofs.NglobProofs.
From SV Require Import proofs.NglobTie.
From SV Require Import model.GlobSem.
From SV Require Import proofs.NglobBackref.
From SV Require Import proofs.NglobRefute.
From SV Require Import proofs.NglobNamed.
From SV Require Import proofs.NglobShape.
From SV Require Import proofs.NglobCorrect.
From SV Require Import model.NglobPy.
From SV Require Import gen.GenNglobCode.
From SV Require Import proofs.NglobCodeTie.
From SV Require Import model.NglobBatch.
From SV Require Import model.NglobWide.
From SV Require Import model.GlobTree.
From SV Require Import model.GlobTreeRec.
From SV Require gen.GenNglobBatch.
From SV Require Import proofs.NglobBatchProofs.
From SV Require Import proofs.NglobBatchTie.
From SV Require Import proofs.NglobCands.
From SV Require Import proofs.NglobCands2.
From SV Require Import proofs.NglobCands3.
From SV Require Import proofs.NglobCands4.
From SV Require Import proofs.NglobNamedWide.
From SV Require Import proofs.NglobEndToEnd.
From SV Require Import model.NglobRegs.
From SV Require Import proofs.NglobRegsProofs.
From SV Require Import model.NglobPyRegex.
From SV Require gen.GenNglobRegex.
From SV Require Import proofs.NglobRegexTie.
Import ListNotations.
Open Scope N_scope.

(* (1) Updating a recorded match set from lists of added and deleted paths gives the same
   dictionary as scanning the file system again.

   For ANY matcher [mv] (path -> captured name values, None = no match), any key type with a
   decidable equality, any recorded dictionary [old] reachable from the empty one by extend /
   reduce that equals (as a Python dict of sets) the scan of the old path list [fs], and any
   lists [added] / [deleted] such that
     - every added path exists afterwards, no deleted path exists afterwards,
     - for every path the matcher accepts: it exists afterwards iff it existed before and was not
       deleted, or it was added
   (what Workflow.process_nglob_changes receives from the watcher: `deleted & updated` is empty
   and raises otherwise; the watcher's last-event-wins fold is the subject of C14), the dictionary
   reduce (extend old added) deleted
     - equals the dictionary of a fresh scan of the new path list [fs'],
     - lists exactly the accepted paths of [fs'],
   and will_change returns None exactly when the fresh scan equals the old dictionary.
   Arbitrary lists (duplicates, any order, irrelevant paths), no bounds. *)
Theorem C17_update_equals_rescan :
  forall (K : Type) (keqb : K -> K -> bool), (forall a b, keqb a b = true <-> a = b) ->
  forall (mv : str -> option K) (old : results K) (fs fs' added deleted : list str),
    reachable K keqb mv old ->
    results_eqb keqb old (scan keqb mv fs) = true ->
    (forall p, In p added -> In p fs') ->
    (forall p, In p deleted -> ~ In p fs') ->
    (forall p, mv p <> None -> (In p fs' <-> (In p fs /\ ~ In p deleted) \/ In p added)) ->
    let upd := reduce keqb mv (extend keqb mv old added) deleted in
    results_eqb keqb upd (scan keqb mv fs') = true
    /\ (forall p, In p (files upd) <-> In p fs' /\ mv p <> None)
    /\ (will_change keqb mv old deleted added = None <-> results_eqb keqb old (scan keqb mv fs') = true).
Proof. exact update_equals_rescan. Qed.

(* (1') The same law for scans that only look at a candidate list, which is what
   NamedGlob.glob() does with the result of glob.iglob: it holds whenever, before and after the
   change, the candidates contain exactly the existing paths as far as accepted paths are concerned
   (candidates complete and sound for the matcher).  That hypothesis is clause 2 of C17_full; the
   refutations below are exactly the ways in which the current code violates it. *)
Theorem C17_update_equals_rescan_candidates :
  forall (K : Type) (keqb : K -> K -> bool), (forall a b, keqb a b = true <-> a = b) ->
  forall (mv : str -> option K) (fs fs' cands cands' added deleted : list str),
    (forall q, mv q <> None -> (In q cands <-> In q fs)) ->
    (forall q, mv q <> None -> (In q cands' <-> In q fs')) ->
    (forall p, In p added -> In p fs') ->
    (forall p, In p deleted -> ~ In p fs') ->
    (forall p, mv p <> None -> (In p fs' <-> (In p fs /\ ~ In p deleted) \/ In p added)) ->
    let old := scan keqb mv cands in
    let upd := reduce keqb mv (extend keqb mv old added) deleted in
    results_eqb keqb upd (scan keqb mv cands') = true
    /\ (will_change keqb mv old deleted added = None <-> results_eqb keqb old (scan keqb mv cands') = true).
Proof. exact update_equals_rescan_candidates. Qed.

(* The key type of the implementation (tuple of optional strings) has such an equality. *)
Theorem C17_key_equality_decides : forall a b : key, key_eqb a b = true <-> a = b.
Proof. exact key_eqb_spec. Qed.

(* The executable regex matcher used by the model is sound for every regex and complete for
   every regex whose star / plus bodies consume one character (all that the compiler emits),
   back-references included. *)
Theorem C17_matcher_sound_complete :
  forall r s, wf_re r = true -> (accepts r s = true <-> exists e', mt r [] s e').
Proof. exact accepts_spec. Qed.

(* Non-vacuity of (1): the pattern d/${*n}-${*n}.t, four old paths, one deleted, two added. *)
Definition ex_pat : str := [100;47;36;123;42;110;125;45;36;123;42;110;125;46;116].
Definition ex_fs : list str := [[100;47;97;45;97;46;116]; [100;47;97;45;98;46;116]; [100;47;98;45;98;46;116]; [120]].
Definition ex_deleted : list str := [[100;47;97;45;97;46;116]].
Definition ex_added : list str := [[100;47;99;45;99;46;116]; [121]].
Definition ex_fs' : list str := [[100;47;97;45;98;46;116]; [100;47;98;45;98;46;116]; [120]; [100;47;99;45;99;46;116]; [121]].

(* (2) A repeated name only matches equal substrings, for EVERY pattern and substitution
   dictionary.  [ps] is the part list of the compiled regex (convert_nglob_to_regex returns the
   concatenation of their texts).  Whenever the regex matches a path, the path splits into one
   piece per part, and for the part that defines the group of a name and every later
   back-reference to that name the pieces are the same text, which is also the value reported for
   the name (the key component of NamedGlob.results).  Follows from the semantics of named groups
   and back-references and from the shape of the compiler's output (named groups only at the top
   level of the part list, each name defined once: C17_compiled_parts_shape). *)
Theorem C17_backref_equal_substrings :
  forall (p : str) (subs : subs_t) (ps : list re) (path : str) (e' : env),
    conv_regex p subs = COk ps ->
    mt (rcat ps) [] path e' ->
    exists pieces, concat pieces = path /\ length pieces = length ps /\
      forall i j n a, (i < j)%nat ->
        nth_error ps i = Some (RGrp n a) -> nth_error ps j = Some (RRef n) ->
        exists v, nth_error pieces i = Some v /\ nth_error pieces j = Some v /\ env_get n e' = Some v.
Proof. exact backref_equal_substrings_all. Qed.

Theorem C17_compiled_parts_shape :
  forall p subs ps, conv_regex p subs = COk ps -> parts_ok ps = true.
Proof. exact conv_regex_parts_ok. Qed.

Example C17_example_backref :
  match conv_regex ex_pat [] with
  | COk ps => parts_ok ps = true
              /\ nth_error ps 1 = Some (RGrp [110] re_star) /\ nth_error ps 3 = Some (RRef [110])
              /\ accepts (rcat ps) [100;47;97;45;97;46;116] = true
              /\ accepts (rcat ps) [100;47;97;45;98;46;116] = false
  | CErr _ => False
  end.
Proof. vm_compute. repeat split. Qed.

(* (3) On the fragment F1 the compiled regex IS the reference semantics.  F1 ([f1], decidable):
   literals, `?`, classes that cannot match the separator, `*` and default named wildcards with
   pairwise distinct names, no two of the latter two kinds next to each other, no `**`.
   For every such pattern and every canonical path (not empty, no leading separator, no two
   separators in a row), re.fullmatch of the compiled regex answers exactly what [nglob_ref false]
   answers: the path rules (a complete component is never empty; only a pattern that ends with a
   separator or with a star-like wildcard matches a directory) plus one specification regex per
   token with no context-dependent rule.  So on F1 the enclosed rule, the trailing rule and the
   appended `/?` of convert_nglob_to_regex implement the documentation exactly.  The fragment is
   tight in the directions the refutations below show (negated classes, neighbouring wildcards,
   `**/` before a trailing star, trailing back-references are excluded and are defects). *)
Theorem C17_compile_regex_correct_partial :
  forall (p : str) (subs : subs_t) (ps : list re) (s : str),
    f1 p subs = true -> conv_regex p subs = COk ps -> wf_path s = true ->
    nglob_ref false p subs s = Some (accepts (rcat ps) s).
Proof. exact compile_regex_correct_partial. Qed.

(* Replacing an anonymous `*` by a named wildcard (both patterns in F1, so the name is new and
   has no sub-pattern) never changes which canonical paths the compiled regex accepts. *)
Theorem C17_named_equals_star_partial :
  forall (p1 p2 : str) (subs : subs_t) (pre post : list tok) (n : str) (ps1 ps2 : list re) (s : str),
    tokenize p1 = pre ++ TStar :: post -> tokenize p2 = pre ++ TName n :: post ->
    f1 p1 subs = true -> f1 p2 subs = true ->
    conv_regex p1 subs = COk ps1 -> conv_regex p2 subs = COk ps2 ->
    wf_path s = true ->
    accepts (rcat ps2) s = accepts (rcat ps1) s.
Proof. exact named_equals_star_partial. Qed.

(* Non-vacuity: `src/*/m_${*n}.[ch]?` is in F1, and so is the variant with `*` in place of ${*n}. *)
Example C17_example_f1 :
  f1 [115;114;99;47;42;47;109;95;36;123;42;110;125;46;91;99;104;93;63] [] = true
  /\ f1 [115;114;99;47;42;47;109;95;42;46;91;99;104;93;63] [] = true
  /\ wf_path [115;114;99;47;97;47;109;95;120;46;99;49] = true
  /\ nglob_ref false [115;114;99;47;42;47;109;95;36;123;42;110;125;46;91;99;104;93;63] [] [115;114;99;47;97;47;109;95;120;46;99;49] = Some true
  /\ nglob_ref false [115;114;99;47;42;47;109;95;36;123;42;110;125;46;91;99;104;93;63] [] [115;114;99;47;47;109;95;120;46;99;49] = Some false
  /\ f1 [42;91;33;97;93] [] = false /\ f1 [100;47;42;36;123;42;110;125] [] = false /\ f1 [100;47;42;42;47;42] [] = false.
Proof. vm_compute. repeat split. Qed.

(* The same at the level of the regex semantics, for arbitrary part lists: wrapping one part into
   a named group that no later part refers to never changes which strings are accepted. *)
Theorem C17_named_group_wrapping_preserves_acceptance_partial :
  forall (ps1 : list re) (a : re) (ps2 : list re) (n : str) (s : str),
    forallb (noref n) ps2 = true ->
    (accepted (rcat (ps1 ++ a :: ps2)) s <-> accepted (rcat (ps1 ++ RGrp n a :: ps2)) s).
Proof. exact named_group_wrapping_preserves_acceptance. Qed.

Example C17_example_named_vs_star :
  conv_regex [120;47;42;47;121] [] = COk ([RStr [120;47]] ++ re_plus :: [RStr [47;121]])
  /\ conv_regex [120;47;36;123;42;110;125;47;121] [] = COk ([RStr [120;47]] ++ RGrp [110] re_plus :: [RStr [47;121]])
  /\ forallb (noref [110]) [RStr [47;121]] = true.
Proof. vm_compute. repeat split. Qed.

(* The full statement of the property on the model: matcher = documented semantics, recorded set =
   accepted existing paths = standard glob (without repeated names) on every finite tree, a named
   wildcard in place of an anonymous `*` never changes acceptance.  NOT proved; it is false of the
   current code (next theorems).  Proved parts: (1), (2), (3 on F1) above; see design.d/C17.md for
   what is missing (patterns outside F1, candidate completeness of the glob translation). *)
Definition C17_full : Prop :=
  forall (p : str) (subs : subs_t) (g : ng) (gp : str),
    ng_make p subs = COk g -> conv_glob p subs = COk gp ->
    (forall path b, wf_path path = true -> nglob_ref true p subs path = Some b -> ng_accepts g path = b)
    /\ (forall t q, In q (files (scan key_eqb (ng_mv g) (glob_paths t gp)))
                    <-> In q (all_paths t) /\ ng_accepts g q = true)
    /\ (NoDup (name_occurrences (tokenize p)) ->
        forall t q, In q (files (scan key_eqb (ng_mv g) (glob_paths t gp))) <-> In q (glob_paths t gp))
    /\ (forall p2 g2 pre post n,
          tokenize p = pre ++ TStar :: post -> tokenize p2 = pre ++ TName n :: post ->
          ~ In n (name_occurrences (tokenize p)) -> subs_get n subs = None ->
          ng_make p2 subs = COk g2 -> forall path, ng_accepts g2 path = ng_accepts g path).

Theorem C17_full_refuted : ~ C17_full.
Proof. exact C17_full_statement_refuted. Qed.

(* The individual defects, each with a concrete tree / pattern / path computed in the model and
   replayed on the implementation by the oracle (harness/p_c17.py WITNESSES). *)

(* `*[!a]`: [!a] becomes [^a], which matches '/': "a/" is accepted but never returned by glob. *)
Theorem C17_negated_class_accepts_separator_refuted :
  exists t p subs path,
    recorded t p subs = Some [] /\ accepted_existing t p subs = Some [path]
    /\ nglob_ref false p subs path = Some false /\ nglob_ref true p subs path = Some false.
Proof. exact negated_class_accepts_separator_refuted. Qed.

(* consequently an update (directory a/ created) reports a change that a rescan does not see *)
Theorem C17_update_differs_from_rescan_refuted :
  exists p subs g t',
    ng_make p subs = COk g /\ recorded [] p subs = Some [] /\ recorded t' p subs = Some []
    /\ will_change key_eqb (ng_mv g) [] [] (all_paths t') <> None.
Proof. exact update_differs_from_rescan_refuted. Qed.

(* `a` does not record the directory a/ that the standard glob returns *)
Theorem C17_directory_dropped_refuted :
  exists t p subs, recorded t p subs = Some [] /\ std_glob t p subs = Some [[97; 47]].
Proof. exact directory_dropped_refuted. Qed.

(* D5c, fixed (203e57e): `f/**` with a regular file f.  glob still yields the non-existing "f/" and the
   regex accepts it, but glob() skips it: nothing is recorded.  For every kept candidate, one that
   ends with a separator is a directory.  Before the fix "f/" was recorded. *)
Theorem C17_nonexistent_directory_filtered :
  exists t p subs gp path,
    conv_glob p subs = COk gp /\ In path (glob_paths_raw t gp) /\ mem_str path (all_paths t) = false
    /\ recorded t p subs = Some [] /\ accepted_existing t p subs = Some [].
Proof. exact nonexistent_directory_filtered. Qed.

Theorem C17_kept_slash_is_directory :
  forall pn, kept pn = true -> ends_slash (canon pn) = true -> is_dir_opt (snd pn) = true.
Proof. exact kept_slash_is_directory. Qed.

Theorem C17_nonexistent_directory_recorded_before_fix :
  exists t p subs path,
    recorded_unfiltered t p subs = Some [path] /\ mem_str path (all_paths t) = false.
Proof. exact nonexistent_directory_recorded_before_fix. Qed.

(* `d/*${*n}` and `d/**/*` accept "d/" (an empty last component) *)
Theorem C17_empty_component_accepted_refuted :
  (exists t p subs path,
     recorded t p subs = Some [] /\ accepted_existing t p subs = Some [path]
     /\ nglob_ref false p subs path = Some false)
  /\ (exists t p subs path,
     recorded t p subs = Some [] /\ accepted_existing t p subs = Some [path]
     /\ nglob_ref false p subs path = Some false /\ p = [100;47;42;42;47;42]).
Proof. exact empty_component_accepted_both_refuted. Qed.

(* third trigger: `a${*n}/${*n}` accepts "a/" with n = "" *)
Theorem C17_empty_component_backref_refuted :
  exists t p subs path,
    recorded t p subs = Some [] /\ accepted_existing t p subs = Some [path]
    /\ nglob_ref false p subs path = Some false.
Proof. exact empty_component_backref_refuted. Qed.

(* D5e, fixed (5ed14b3): `d/**` records a file whose name contains a newline, as the standard glob
   does; `.*` under DOTALL accepts every string.  Before the fix (same regex text, no DOTALL) the
   path was rejected. *)
Theorem C17_recursive_wildcard_matches_newline :
  exists t p subs path,
    std_glob t p subs = Some [[100;47]; path] /\ recorded t p subs = Some [[100;47]; path]
    /\ nglob_ref false p subs path = Some true.
Proof. exact recursive_wildcard_matches_newline. Qed.

Theorem C17_dstar_accepts_all : forall s, accepted re_dstar s.
Proof. exact dstar_accepts_all. Qed.

Theorem C17_newline_not_matched_before_fix :
  let old := rcat [RStr [100;47]; RStar (RAny false)] in
  let new := rcat [RStr [100;47]; RStar (RAny true)] in
  pr old = pr new /\ conv_regex [100;47;42;42] [] = COk [RStr [100;47]; RStar (RAny true)]
  /\ accepts old [100;47;110;10;108] = false /\ accepts new [100;47;110;10;108] = true.
Proof. exact newline_not_matched_before_fix. Qed.

(* `*${*n}aa` with n = `**`: the sub-pattern is compiled out of context *)
Theorem C17_recursive_sub_pattern_refuted :
  exists t p subs path, recorded t p subs = Some [] /\ accepted_existing t p subs = Some [path].
Proof. exact recursive_sub_pattern_refuted. Qed.

(* The tie: constants regenerated from the source on every run are the ones the model uses, and
   the fingerprinted functions are unchanged. *)
Theorem C17_model_tied_to_source :
  (gen_any_wild = golden_any_wild /\ gen_any_wild_flags = golden_any_wild_flags)
  /\ (pr re_q = gen_frag_q /\ pr re_star = gen_frag_star /\ pr re_dstar = gen_frag_dstar
      /\ pr re_dstarslash = gen_frag_dstarslash)
  /\ (forall body, pr (RCls true body) = fill gen_cls_neg [body])
  /\ (forall body, pr (RCls false body) = fill gen_cls_pos [body])
  /\ (forall n, pr (RRef n) = fill gen_ref [n])
  /\ (forall n a, pr (RGrp n a) = fill gen_grp [n; pr a])
  /\ (forall n, pr (RGrp n re_plus) = fill gen_post_encl_grp [n])
  /\ pr re_plus = gen_post_trail_plus /\ pr re_optslash = gen_post_optslash
  /\ re_escape_specials = gen_escape_specials
  /\ gen_fingerprints = golden_fingerprints
  /\ (dotall = gen_compile_dotall /\ gen_glob_skips_nondir_slash = true).
Proof. exact model_tied_to_source. Qed.

(* The tie by TRANSLATION.  gen/GenNglobCode.v is regenerated on every run from the Python AST of
   nglob.py, statement by statement (translator/gen_nglob_code.py, fail closed), over the Python-level
   primitives of model/NglobPy.v.  For ALL inputs the translated extend / reduce / will_change /
   files / _match_values / _get_wildcard_name / convert_nglob_to_glob are the model functions the
   theorems above are about (for every key type whose equality is reflexive, as Python requires of
   dictionary keys; key_eqb is).  The literal texts between wildcards never contain `*` or `?` and
   are never empty, which is what lets the string comparisons of the code (`part == "*"`) be read
   as tests on the kind of token. *)
Theorem C17_translated_code_equals_model :
  (forall (K : Type) (keqb : K -> K -> bool) (mv : str -> option K), (forall k, keqb k k = true) ->
     (forall r paths, gen_extend K keqb mv r paths = extend keqb mv r paths)
     /\ (forall r paths, gen_reduce K keqb mv r paths = reduce keqb mv r paths)
     /\ (forall r deleted added, gen_will_change K keqb mv r deleted added = will_change keqb mv r deleted added)
     /\ (forall r q, In q (gen_files K r) <-> In q (files r)))
  /\ (forall k : key, key_eqb k k = true)
  /\ (forall r names path, gen_match_values r names path = match_values r names path)
  /\ (forall n, gen_get_wildcard_name (TName n) = if is_nil n then CErr EEmptyName else COk n)
  /\ (forall p subs, gen_conv_glob p subs = conv_glob p subs)
  /\ (forall p, Forall lit_ok (tokenize p))
  /\ forallb (fun tc => str_eqb (tok_text (fst tc)) (snd tc)) gen_tok_consts = true.
Proof. exact translated_code_equals_model. Qed.

Example C17_example_update :
  match ng_make ex_pat [] with
  | CErr _ => False
  | COk g =>
    let mv := ng_mv g in
    let old := scan key_eqb mv ex_fs in
    files old = [[100;47;97;45;97;46;116]; [100;47;98;45;98;46;116]]
    /\ forallb (fun p => mem_str p ex_fs') ex_added = true
    /\ forallb (fun p => negb (mem_str p ex_fs')) ex_deleted = true
    /\ files (reduce key_eqb mv (extend key_eqb mv old ex_added) ex_deleted)
       = [[100;47;98;45;98;46;116]; [100;47;99;45;99;46;116]]
    /\ will_change key_eqb mv old ex_deleted ex_added <> None
    /\ will_change key_eqb mv old [] [[121]] = None
  end.
Proof. vm_compute. repeat split; try reflexivity; discriminate. Qed.

(* ========================================================================================== *)
(* (4) Where the lists handed to will_change come from: the watch-phase batch.                 *)
(*     Watcher.record_change -> Watcher.run_once -> Workflow.process_nglob_changes             *)
(*     -> NamedGlob.will_change.  Model: model/NglobBatch.v; the four functions are translated *)
(*     from the Python AST on every run (gen/GenNglobBatch.v) and proved equal to the model.   *)
(* ========================================================================================== *)

(* For EVERY sequence of queue items, whatever change_is_relevant / relevant_paths_under answer:
   after folding the items with record_change from the empty sets, a path is in `deleted` iff the
   last item that meant something for it was a deletion (DELETED of a relevant path, or
   DELETED_PARENT of a directory whose relevant_paths_under contains it), in `updated` iff it was
   an UPDATED of a relevant path; the two sets are disjoint. *)
Theorem C17_batch_last_event_wins :
  forall (rel : bool -> str -> bool) (under : bool -> str -> list str) (items : list item),
    let st := fold_changes rel under items ws_empty in
    (forall p, In p (ws_deleted st) <-> last_effect rel under items p = Some false)
    /\ (forall p, In p (ws_updated st) <-> last_effect rel under items p = Some true)
    /\ (forall p, In p (ws_deleted st) -> ~ In p (ws_updated st))
    /\ overlap (ws_deleted st) (ws_updated st) = false.
Proof. exact fold_last_event_wins. Qed.

(* Hence the ConsistencyError branch of process_nglob_changes ("Deleted and updated paths cannot
   overlap") is unreachable from run_once, whatever arrives and whatever is pruned as UNCHANGED. *)
Theorem C17_watch_commit_never_raises :
  forall (rel : bool -> str -> bool) (under : bool -> str -> list str)
         (K : Type) (keqb : K -> K -> bool) (regs : list (reg K)) (items : list item) (unchanged : list str),
    watch_commit keqb rel under regs items unchanged <> None.
Proof. exact watch_commit_never_raises. Qed.

(* The hypothesis "added / deleted reflect the change for every accepted path" of (1), discharged
   from the event fold.  [tr] lists the items of one watch phase, each with the set of existing
   paths after it; [trace_ok] says what an item means for the file system as far as ACCEPTED paths
   are concerned ((DELETED, p): p is gone; (UPDATED, p): p exists; (DELETED_PARENT, d): no path of
   relevant_paths_under(d) exists; every other accepted path keeps its membership).  Remaining
   assumptions, each named where it is used in proofs/NglobBatchProofs.v:
     accepted_relevant  every accepted path passes change_is_relevant (true for paths without an
                        attached file node: matches_any_glob consults this very regex);
     under_complete     (inside trace_ok) the accepted paths that vanish with a directory are among
                        relevant_paths_under(d);
     pruned_existed     a path pruned as UNCHANGED that the pattern accepts was in the old scan.
   Conclusion: the two sets never overlap, reduce(extend(old, updated), deleted) equals the scan of
   the final path set, lists exactly its accepted paths, and will_change answers None exactly when
   the fresh scan equals the old record.  All item sequences, no bounds. *)
Theorem C17_watch_batch_update_equals_rescan :
  forall (K : Type) (keqb : K -> K -> bool), (forall a b, keqb a b = true <-> a = b) ->
  forall (mv : str -> option K) (rel : bool -> str -> bool) (under : bool -> str -> list str),
    (forall db p, mv p <> None -> rel db p = true) ->
  forall (fs : list str) (tr : list (item * list str)) (unchanged : list str) (old : results K),
    trace_ok K mv under fs tr ->
    (forall p, In p unchanged -> mv p <> None -> In p fs) ->
    reachable K keqb mv old ->
    results_eqb keqb old (scan keqb mv fs) = true ->
    let st := prune unchanged (fold_changes rel under (map fst tr) ws_empty) in
    let fs' := trace_final fs tr in
    let upd := reduce keqb mv (extend keqb mv old (ws_updated st)) (ws_deleted st) in
    overlap (ws_deleted st) (ws_updated st) = false
    /\ results_eqb keqb upd (scan keqb mv fs') = true
    /\ (forall p, In p (files upd) <-> In p fs' /\ mv p <> None)
    /\ (will_change keqb mv old (ws_deleted st) (ws_updated st) = None
        <-> results_eqb keqb old (scan keqb mv fs') = true).
Proof. exact watch_batch_update_equals_rescan. Qed.

(* One row of process_nglob_changes under the same hypotheses: it is rewritten (and the step made
   pending) exactly when the fresh scan differs from the old record, and then holds a dictionary
   equal to the fresh scan. *)
Theorem C17_watch_commit_row :
  forall (K : Type) (keqb : K -> K -> bool), (forall a b, keqb a b = true <-> a = b) ->
  forall (mv : str -> option K) (rel : bool -> str -> bool) (under : bool -> str -> list str),
    (forall db p, mv p <> None -> rel db p = true) ->
  forall (fs : list str) (tr : list (item * list str)) (unchanged : list str) (old : results K),
    trace_ok K mv under fs tr ->
    (forall p, In p unchanged -> mv p <> None -> In p fs) ->
    reachable K keqb mv old ->
    results_eqb keqb old (scan keqb mv fs) = true ->
    let st := prune unchanged (fold_changes rel under (map fst tr) ws_empty) in
    forall new changed,
      process_reg keqb (ws_deleted st) (ws_updated st) (mv, old) = ((mv, new), changed) ->
      (changed = false <-> results_eqb keqb old (scan keqb mv (trace_final fs tr)) = true)
      /\ (changed = true -> results_eqb keqb new (scan keqb mv (trace_final fs tr)) = true)
      /\ (changed = false -> new = old).
Proof. exact watch_commit_row. Qed.

(* startup.rescan_nglobs does not use the update law at all: it persists a FRESH scan, exactly
   when the recorded dictionary differs from it (it compares file sets, which for well-formed
   dictionaries is the same as comparing the dictionaries). *)
Theorem C17_startup_rescan_persists_fresh_scan :
  forall (K : Type) (keqb : K -> K -> bool), (forall a b, keqb a b = true <-> a = b) ->
  forall (mv : str -> option K) (old : results K) (cands : list str),
    wf_results K mv old ->
    (rescan1 keqb mv old cands = None <-> results_eqb keqb old (scan keqb mv cands) = true)
    /\ (forall new, rescan1 keqb mv old cands = Some new -> new = scan keqb mv cands).
Proof. exact rescan1_spec. Qed.

(* The tie by translation for this layer: for ALL inputs the translated record_change,
   will_change, process_nglob_changes and the per-registration body of rescan_nglobs are the model
   functions of the theorems above. *)
Theorem C17_batch_code_equals_model :
  (forall rel under db st ev,
      GenNglobBatch.gen_record_change rel under db st ev = record_change rel under db st ev)
  /\ (forall (K : Type) (keqb : K -> K -> bool) (mv : str -> option K) r deleted added,
        GenNglobBatch.gen_will_change keqb mv r deleted added = will_change keqb mv r deleted added)
  /\ (forall (K : Type) (keqb : K -> K -> bool) (regs : list (reg K)) deleted updated,
        GenNglobBatch.gen_process_nglob_changes keqb regs deleted updated
        = process_nglob_changes keqb regs deleted updated)
  /\ (forall (K : Type) (keqb : K -> K -> bool) (mv : str -> option K) old cands,
        GenNglobBatch.gen_rescan1 keqb mv old cands = rescan1 keqb mv old cands).
Proof. exact batch_code_equals_model. Qed.

(* Non-vacuity with the matcher of `sub/${*x}`: deleted then re-created (ends up in `updated`
   only, nothing changes); a file replaced by a directory of the same name (both spellings have the
   key x = "item"; exactly the deleted spelling goes away); DELETED_PARENT of `sub` after an
   UPDATED of sub/a; and the first two as instances of the trace semantics. *)
Example C17_example_batch :
  bx_run bx_no_under [bx_a; bx_b; bx_other] [(false, EvDeleted bx_a); (false, EvUpdated bx_a)]
    = ([], [bx_a], None, [bx_a; bx_b])
  /\ bx_run bx_no_under [bx_item; bx_keepd] [(false, EvDeleted bx_item); (false, EvUpdated bx_itemd)]
     = ([bx_item], [bx_itemd], Some (scan key_eqb bx_mv [bx_itemd; bx_keepd]), [bx_itemd; bx_keepd])
  /\ bx_run bx_under [bx_a; bx_keepd; bx_other]
            [(true, EvUpdated bx_a); (false, EvDeletedParent bx_sub); (false, EvDeleted bx_subd)]
     = ([bx_a; bx_keepd], [], Some [], [])
  /\ trace_ok key bx_mv bx_no_under [bx_a; bx_b; bx_other]
           [((false, EvDeleted bx_a), [bx_b; bx_other]); ((false, EvUpdated bx_a), [bx_b; bx_other; bx_a])].
Proof.
  split; [exact batch_deleted_then_recreated|]. split; [exact (proj1 (proj2 (proj2 batch_file_replaced_by_directory)))|].
  split; [exact batch_deleted_parent|exact (proj1 batch_traces_ok)].
Qed.

(* ========================================================================================== *)
(* (5) Wider fragments.                                                                       *)
(* ========================================================================================== *)

(* (3) extended to F2 = F1 plus back-references (a name may occur again; a back-reference counts as
   star-like for the adjacency rule and is not the last token; both restrictions are tight, see
   f2_restrictions_tight): on F2 the compiled regex IS the reference semantics on every canonical path. *)
Theorem C17_compile_regex_correct_f2_partial :
  forall (p : str) (subs : subs_t) (ps : list re) (s : str),
    f2 p subs = true -> conv_regex p subs = COk ps -> wf_path s = true ->
    nglob_ref false p subs s = Some (accepts (rcat ps) s).
Proof. exact compile_regex_correct_f2_partial. Qed.

(* "Replacing an anonymous `*` by a named wildcard never changes which paths match", at the level
   of the COMPILER, for EVERY pattern (every position of `**` and `**/`, negated classes, user
   sub-patterns, repeated OTHER names), every substitution dictionary and EVERY string, provided the
   replaced `*` takes no part in the merging rules: the token before it is neither `*` nor `**`, the
   token after it none of `*`, `**`, `**/`; the new name is fresh and has no sub-pattern. *)
Theorem C17_named_equals_star_nonadjacent_partial :
  forall (p1 p2 : str) (subs : subs_t) (pre post : list tok) (n : str) (ps1 ps2 : list re),
    tokenize p1 = pre ++ TStar :: post -> tokenize p2 = pre ++ TName n :: post ->
    n <> [] -> ~ In (TName n) (pre ++ post) -> subs_get n subs = None ->
    star_before_ok pre = true -> star_after_ok post = true ->
    conv_regex p1 subs = COk ps1 -> conv_regex p2 subs = COk ps2 ->
    forall s, accepts (rcat ps2) s = accepts (rcat ps1) s.
Proof. exact named_equals_star_nonadjacent_accepts. Qed.

(* The side conditions cannot be dropped: next to another `*` the statement is false of the code
   (`d/***` rejects d/ but `d/${*n}**` and `d/**${*n}` accept it: empty last component, D5d). *)
Theorem C17_named_equals_star_adjacent_refuted : ~ named_equals_star_full.
Proof. exact named_equals_star_full_refuted. Qed.

(* Candidates of NamedGlob.glob().  glob() only looks at what glob.iglob returns for the translated
   plain pattern, so (1') needs: every existing accepted path is a candidate (complete) and every
   candidate exists and is accepted (sound).  [glob_paths t gp] is model/GlobSem.v (CPython 3.12
   glob with recursive=True, include_hidden=True, plus the normalisation of glob()), [all_paths t]
   the existing paths of the finite tree [t], directories spelled with a trailing separator.

   G1  = F1 without classes and without glob meta characters in literal text.
   G1S = G1, pattern does not end with a separator, every component of the translated pattern is a
         legal name.
   G2  = `**` alone or a literal directory prefix followed by the trailing `**`.
   Complete on G1 and on G2, for EVERY well-formed finite tree (hidden entries, empty directories,
   any nesting).  Sound on G1S, except for the directory spelling "name/" when the last token is
   not star-like: that is finding D5b, and the exception is exactly its extent. *)
Theorem C17_glob_candidates_complete_partial :
  forall (t : list entry) (p : str) (subs : subs_t) (ps : list re) (gp q : str),
    wf_tree t = true -> g1 p subs = true ->
    conv_regex p subs = COk ps -> conv_glob p subs = COk gp ->
    In q (all_paths t) -> accepts (rcat ps) q = true -> In q (glob_paths t gp).
Proof. exact glob_candidates_complete_partial. Qed.

Theorem C17_glob_candidates_complete_recursive_partial :
  forall (t : list entry) (p : str) (subs : subs_t) (ps : list re) (gp q : str),
    wf_tree t = true -> g2 p = true ->
    conv_regex p subs = COk ps -> conv_glob p subs = COk gp ->
    In q (all_paths t) -> accepts (rcat ps) q = true -> In q (glob_paths t gp).
Proof. exact glob_candidates_complete_rec_partial. Qed.

Theorem C17_glob_candidates_sound_partial :
  forall (t : list entry) (p : str) (subs : subs_t) (ps : list re) (gp q : str),
    wf_tree t = true -> g1s p subs = true ->
    conv_regex p subs = COk ps -> conv_glob p subs = COk gp ->
    In q (glob_paths t gp) ->
    In q (all_paths t)
    /\ (ends_sep q = false \/ last_starlike (tokenize p) = true -> accepts (rcat ps) q = true).
Proof. exact glob_candidates_sound_partial. Qed.

(* clause 2 of C17_full on G1S: recorded candidates = existing accepted paths *)
Theorem C17_glob_candidates_exact_partial :
  forall (t : list entry) (p : str) (subs : subs_t) (ps : list re) (gp q : str),
    wf_tree t = true -> g1s p subs = true ->
    conv_regex p subs = COk ps -> conv_glob p subs = COk gp ->
    ends_sep q = false \/ last_starlike (tokenize p) = true ->
    (In q (glob_paths t gp) <-> In q (all_paths t) /\ accepts (rcat ps) q = true).
Proof. exact glob_candidates_exact_partial. Qed.

(* G2S = G2 with a literal prefix made of legal names (`dir/sub/**`, `**`): every candidate that
   glob() keeps exists in the tree.  The unchecked "prefix/" that the standard library yields when the
   prefix is missing or a regular file is dropped by the filter of glob() (D5c, fixed). *)
Theorem C17_glob_candidates_exist_recursive_partial :
  forall (t : list entry) (p : str) (subs : subs_t) (gp q : str),
    wf_tree t = true -> g2s p = true -> conv_glob p subs = COk gp ->
    In q (glob_paths t gp) -> In q (all_paths t).
Proof. exact glob_candidates_exist_rec_partial. Qed.

(* Completeness is FALSE on F1 (classes): `a[!/]b` accepts the existing file axb (and both
   reference semantics agree) but glob.glob splits the translated pattern at the separator inside the
   brackets and returns nothing; and `[a<newline>]` is literal text for RE_ANY_WILD but a class for
   fnmatch.  Two mechanisms that are none of D5a..f; replayed on the implementation by the oracle. *)
Theorem C17_class_with_separator_candidates_incomplete_refuted :
  exists t p subs path,
    f1 p subs = true /\ conv_glob p subs = COk p
    /\ recorded t p subs = Some [] /\ accepted_existing t p subs = Some [path] /\ std_glob t p subs = Some []
    /\ nglob_ref false p subs path = Some true /\ nglob_ref true p subs path = Some true.
Proof. exact class_with_separator_candidates_incomplete_refuted. Qed.

Theorem C17_bracket_newline_candidates_incomplete_refuted :
  exists t p subs path,
    conv_glob p subs = COk p
    /\ recorded t p subs = Some [] /\ accepted_existing t p subs = Some [path]
    /\ std_glob t p subs = Some [[97]].
Proof. exact bracket_newline_candidates_incomplete_refuted. Qed.

Example C17_example_candidates :
  wf_tree ex_tree = true /\ g1s ex_pat1 [] = true /\ g1s ex_pat2 [] = true /\ g2 ex_pat4 = true
  /\ last_starlike (tokenize ex_pat1) = false /\ last_starlike (tokenize ex_pat2) = true
  /\ glob_paths ex_tree [115;114;99;47;42]
     = [[115;114;99;47;97;46;99]; [115;114;99;47;115;117;98;47]; [115;114;99;47;46;104;105;100;46;99]].
Proof. vm_compute. repeat split. Qed.

(* ========================================================================================== *)
(* (6) End to end on G1S and G2S: no hypothesis about the candidate list is left.              *)
(* ========================================================================================== *)

(* (1') with its two candidate hypotheses discharged by (5): for every pattern of G1S or G2S
   ([e2e_fragment p subs] := g1s p subs = true \/ g2s p = true), any two
   well-formed finite trees t, t' and any added / deleted lists that reflect the difference for the
   accepted paths, updating what glob() recorded on t gives the dictionary glob() records on t',
   and will_change answers None exactly when the two scans agree. *)
Theorem C17_glob_update_equals_rescan_partial :
  forall (t t' : list entry) (p : str) (subs : subs_t) (g : ng) (gp : str) (added deleted : list str),
    wf_tree t = true -> wf_tree t' = true -> e2e_fragment p subs ->
    ng_make p subs = COk g -> conv_glob p subs = COk gp ->
    (forall q, In q added -> In q (all_paths t')) ->
    (forall q, In q deleted -> ~ In q (all_paths t')) ->
    (forall q, ng_mv g q <> None ->
       (In q (all_paths t') <-> (In q (all_paths t) /\ ~ In q deleted) \/ In q added)) ->
    let old := scan key_eqb (ng_mv g) (glob_paths t gp) in
    let upd := reduce key_eqb (ng_mv g) (extend key_eqb (ng_mv g) old added) deleted in
    results_eqb key_eqb upd (scan key_eqb (ng_mv g) (glob_paths t' gp)) = true
    /\ (will_change key_eqb (ng_mv g) old deleted added = None
        <-> results_eqb key_eqb old (scan key_eqb (ng_mv g) (glob_paths t' gp)) = true).
Proof. exact glob_update_equals_rescan_fragment. Qed.

(* The whole watch path: glob() on tree t (what register_nglob persisted), ANY sequence of queue
   items folded by record_change whose meaning for accepted paths leads from t to t' (trace_ok,
   including under_complete), pruning, commit by process_nglob_changes: the two sets do not overlap,
   the row is rewritten exactly when glob() on t' differs from the old record, and it then holds a
   dictionary equal to glob() on t'.  Assumptions left: accepted_relevant, under_complete (inside
   trace_ok), pruned_existed (see (4)); the pattern lies in G1S or G2S. *)
Theorem C17_watch_commit_equals_glob_partial :
  forall (t t' : list entry) (p : str) (subs : subs_t) (g : ng) (gp : str)
         (rel : bool -> str -> bool) (under : bool -> str -> list str)
         (tr : list (item * list str)) (unchanged : list str),
    wf_tree t = true -> wf_tree t' = true -> e2e_fragment p subs ->
    ng_make p subs = COk g -> conv_glob p subs = COk gp ->
    (forall db q, ng_mv g q <> None -> rel db q = true) ->
    trace_ok key (ng_mv g) under (all_paths t) tr ->
    (forall q, ng_mv g q <> None -> (In q (trace_final (all_paths t) tr) <-> In q (all_paths t'))) ->
    (forall q, In q unchanged -> ng_mv g q <> None -> In q (all_paths t)) ->
    let old := scan key_eqb (ng_mv g) (glob_paths t gp) in
    let fresh := scan key_eqb (ng_mv g) (glob_paths t' gp) in
    let st := prune unchanged (fold_changes rel under (map fst tr) ws_empty) in
    overlap (ws_deleted st) (ws_updated st) = false
    /\ forall new changed,
         process_reg key_eqb (ws_deleted st) (ws_updated st) (ng_mv g, old) = ((ng_mv g, new), changed) ->
         (changed = false <-> results_eqb key_eqb old fresh = true)
         /\ results_eqb key_eqb new fresh = true.
Proof. exact watch_commit_equals_glob_fragment. Qed.

Example C17_example_end_to_end :
  wf_tree e2e_t = true /\ wf_tree e2e_t' = true /\ g1s ex_pat1 [] = true /\ g2s ex_pat4 = true
  /\ (exists g, ng_make ex_pat1 [] = COk g
        /\ files (scan key_eqb (ng_mv g) (glob_paths e2e_t [115;114;99;47;42;46;99])) = [[115;114;99;47;97;46;99]]
        /\ will_change key_eqb (ng_mv g) (scan key_eqb (ng_mv g) (glob_paths e2e_t [115;114;99;47;42;46;99])) [] e2e_added <> None)
  /\ conv_glob ex_pat1 [] = COk [115;114;99;47;42;46;99]
  /\ (forall q, In q e2e_added -> In q (all_paths e2e_t'))
  /\ (forall q, In q (@nil str) -> ~ In q (all_paths e2e_t'))
  /\ (forall q, In q (all_paths e2e_t') <-> (In q (all_paths e2e_t) /\ ~ In q (@nil str)) \/ In q e2e_added).
Proof. exact glob_update_equals_rescan_g1s_hyps_satisfiable. Qed.

(* ========================================================================================== *)
(* (7) Several registrations: (step, pattern, substitutions) each, possibly the same pattern     *)
(*     string several times.                                                                    *)
(* ========================================================================================== *)

(* process_nglob_changes treats every registration on its own: the row written for the i-th
   registration is process_reg of that registration alone. *)
Theorem C17_process_rows_independent :
  forall (K : Type) (keqb : K -> K -> bool) (regs : list (reg K)) (deleted updated : list str)
         (out : list (reg K * bool)),
    process_nglob_changes keqb regs deleted updated = Some out ->
    length out = length regs
    /\ forall i r, nth_error regs i = Some r -> nth_error out i = Some (process_reg keqb deleted updated r).
Proof. exact process_rows_independent. Qed.

(* ... so the same registration gets the same row whatever other registrations exist around it *)
Theorem C17_process_row_ignores_other_registrations :
  forall (K : Type) (keqb : K -> K -> bool) (pre post pre' post' : list (reg K)) (r : reg K)
         (deleted updated : list str) out out',
    process_nglob_changes keqb (pre ++ r :: post) deleted updated = Some out ->
    process_nglob_changes keqb (pre' ++ r :: post') deleted updated = Some out' ->
    nth_error out (length pre) = nth_error out' (length pre')
    /\ nth_error out (length pre) = Some (process_reg keqb deleted updated r).
Proof. exact process_row_ignores_other_registrations. Qed.

(* After a watch-phase commit EVERY registration that satisfies the hypotheses of (4) (for its own
   matcher and its own recorded dictionary) holds a dictionary equal to its own fresh scan, and is
   rewritten exactly when that scan differs; the commit never raises. *)
Theorem C17_watch_commit_every_row :
  forall (K : Type) (keqb : K -> K -> bool), (forall a b, keqb a b = true <-> a = b) ->
  forall (rel : bool -> str -> bool) (under : bool -> str -> list str)
         (regs : list (reg K)) (fs : list str) (tr : list (item * list str)) (unchanged : list str),
  exists out,
    watch_commit keqb rel under regs (map fst tr) unchanged = Some out
    /\ length out = length regs
    /\ forall i mv old,
         nth_error regs i = Some (mv, old) ->
         (forall db p, mv p <> None -> rel db p = true) ->
         trace_ok K mv under fs tr ->
         (forall p, In p unchanged -> mv p <> None -> In p fs) ->
         reachable K keqb mv old ->
         results_eqb keqb old (scan keqb mv fs) = true ->
         exists new changed,
           nth_error out i = Some ((mv, new), changed)
           /\ (changed = false <-> results_eqb keqb old (scan keqb mv (trace_final fs tr)) = true)
           /\ (changed = true -> results_eqb keqb new (scan keqb mv (trace_final fs tr)) = true)
           /\ (changed = false -> new = old).
Proof. exact watch_commit_every_row. Qed.

(* A per-batch memo of will_change (model/NglobRegs.v process_memo) changes nothing iff its key
   determines the registration: sound when equal keys imply equal (matcher, recorded results) ... *)
Theorem C17_memo_sound :
  forall (K : Type) (keqb : K -> K -> bool) (P : Type) (peqb : P -> P -> bool),
    (forall a b, peqb a b = true <-> a = b) ->
  forall (regs : list (kreg K P)) (deleted updated : list str),
    (forall k r1 r2, In (k, r1) regs -> In (k, r2) regs -> r1 = r2) ->
    process_memo keqb peqb regs deleted updated = process_nglob_changes keqb (map snd regs) deleted updated.
Proof. exact memo_sound. Qed.

(* ... and wrong when keyed by the pattern string alone: `data_${*i}.txt` registered with i = [0-9]
   and with i = [a-z], both having scanned {data_1.txt, data_a.txt}; data_b.txt appears.  The memo
   hands the first registration's answer (None) to the second, which misses its new match; when
   data_1.txt disappears instead, the second row receives the first registration's evolved object. *)
Theorem C17_memo_by_pattern_refuted :
  rows_view (process_memo key_eqb str_eqb rg_regs [] [rg_b]) = Some [([rg_1], false); ([rg_a], false)]
  /\ rows_view (process_nglob_changes key_eqb (map snd rg_regs) [] [rg_b]) = Some [([rg_1], false); ([rg_a; rg_b], true)]
  /\ files (scan key_eqb (rg_mv rg_letters) [rg_1; rg_a; rg_b]) = [rg_a; rg_b].
Proof. exact memo_by_pattern_refuted. Qed.

Theorem C17_memo_by_pattern_persists_foreign_object :
  rows_view (process_memo key_eqb str_eqb rg_regs [rg_1] []) = Some [([], true); ([], true)]
  /\ rows_view (process_nglob_changes key_eqb (map snd rg_regs) [rg_1] []) = Some [([], true); ([rg_a], false)].
Proof. exact memo_by_pattern_persists_foreign_object. Qed.

(* ========================================================================================== *)
(* (8) The main loop of convert_nglob_to_regex, tied by TRANSLATION.                           *)
(* ========================================================================================== *)

(* gen/GenNglobRegex.v is regenerated on every run from the Python AST of the loop body
   (translator/gen_nglob_regex.py: symbolic execution, one decision tree per iteration).  Folded over
   RE_ANY_WILD.split it is, for ALL patterns and substitution dictionaries, the loop of the model
   (top level and sub-pattern level); with the verbatim-checked post-processing block it is conv_regex;
   the regex fragments the code assigns print as the code's texts. *)
Theorem C17_translated_regex_loop_equals_model :
  (forall p subs, gen_conv_loop p subs = conv_loop (top_named subs) (tokenize p) st0)
  /\ (forall p, gen_conv_sub p = conv_sub p)
  /\ (forall p subs, gen_conv_regex p subs = conv_regex p subs)
  /\ forallb (fun x => str_eqb (pr (fst x)) (snd x)) GenNglobRegex.gen_regex_consts = true.
Proof. exact translated_regex_loop_equals_model. Qed.

(* (2) and (3) for the compiler as the code has it now *)
Theorem C17_translated_compiler_parts_shape :
  forall p subs ps, gen_conv_regex p subs = COk ps -> parts_ok ps = true.
Proof. exact translated_compiler_parts_shape. Qed.

Theorem C17_translated_compiler_correct_partial :
  forall (p : str) (subs : subs_t) (ps : list re) (s : str),
    f1 p subs = true -> gen_conv_regex p subs = COk ps -> wf_path s = true ->
    nglob_ref false p subs s = Some (accepts (rcat ps) s).
Proof. exact translated_compiler_correct_partial. Qed.
