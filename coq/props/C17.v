(* C17 Named glob matching is consistent with the file system and with itself.
   Property theorems only; proofs live in lib/Regex.v, proofs/NglobProofs.v, proofs/NglobTie.v. *)
From Coq Require Import List NArith Bool.
From SV Require Import lib.Bytes.
From SV Require Import lib.Regex.
From SV Require Import gen.GenNglob.
From SV Require Import model.Nglob.
From SV Require Import model.NglobGolden.
From SV Require Import proofs.NglobProofs.
From SV Require Import proofs.NglobTie.
From SV Require Import model.GlobSem.
From SV Require Import proofs.NglobBackref.
From SV Require Import proofs.NglobRefute.
From SV Require Import proofs.NglobNamed.
From SV Require Import proofs.NglobShape.
From SV Require Import proofs.NglobCorrect.
From SV Require Import model.NglobPy.
From SV Require Import gen.GenNglobCode.
From SV Require Import proofs.NglobCodeTie.
Import ListNotations.
Open Scope N_scope.

(* (1) Updating a recorded match set from lists of added and deleted paths gives the same
   dictionary as scanning the file system again.

   For ANY matcher [mv] (path -> captured name values, None = no match), any key type with a
   decidable equality, any recorded dictionary [old] reachable from the empty one by extend /
   reduce that equals (as a Python dict of sets) the scan of the old path list [fs], and any
   lists [added] / [deleted] such that
     - every added path exists afterwards, no deleted path exists afterwards,
     - for every path the matcher accepts: it exists afterwards iff it existed before and was not
       deleted, or it was added
   (what Workflow.process_nglob_changes receives from the watcher: `deleted & updated` is empty
   and raises otherwise; the watcher's last-event-wins fold is the subject of C14), the dictionary
   reduce (extend old added) deleted
     - equals the dictionary of a fresh scan of the new path list [fs'],
     - lists exactly the accepted paths of [fs'],
   and will_change returns None exactly when the fresh scan equals the old dictionary.
   Arbitrary lists (duplicates, any order, irrelevant paths), no bounds. *)
Theorem C17_update_equals_rescan :
  forall (K : Type) (keqb : K -> K -> bool), (forall a b, keqb a b = true <-> a = b) ->
  forall (mv : str -> option K) (old : results K) (fs fs' added deleted : list str),
    reachable K keqb mv old ->
    results_eqb keqb old (scan keqb mv fs) = true ->
    (forall p, In p added -> In p fs') ->
    (forall p, In p deleted -> ~ In p fs') ->
    (forall p, mv p <> None -> (In p fs' <-> (In p fs /\ ~ In p deleted) \/ In p added)) ->
    let upd := reduce keqb mv (extend keqb mv old added) deleted in
    results_eqb keqb upd (scan keqb mv fs') = true
    /\ (forall p, In p (files upd) <-> In p fs' /\ mv p <> None)
    /\ (will_change keqb mv old deleted added = None <-> results_eqb keqb old (scan keqb mv fs') = true).
Proof. exact update_equals_rescan. Qed.

(* (1') The same law for scans that only look at a candidate list, which is what
   NamedGlob.glob() does with the result of glob.iglob: it holds whenever, before and after the
   change, the candidates contain exactly the existing paths as far as accepted paths are concerned
   (candidates complete and sound for the matcher).  That hypothesis is clause 2 of C17_full; the
   refutations below are exactly the ways in which the current code violates it. *)
Theorem C17_update_equals_rescan_candidates :
  forall (K : Type) (keqb : K -> K -> bool), (forall a b, keqb a b = true <-> a = b) ->
  forall (mv : str -> option K) (fs fs' cands cands' added deleted : list str),
    (forall q, mv q <> None -> (In q cands <-> In q fs)) ->
    (forall q, mv q <> None -> (In q cands' <-> In q fs')) ->
    (forall p, In p added -> In p fs') ->
    (forall p, In p deleted -> ~ In p fs') ->
    (forall p, mv p <> None -> (In p fs' <-> (In p fs /\ ~ In p deleted) \/ In p added)) ->
    let old := scan keqb mv cands in
    let upd := reduce keqb mv (extend keqb mv old added) deleted in
    results_eqb keqb upd (scan keqb mv cands') = true
    /\ (will_change keqb mv old deleted added = None <-> results_eqb keqb old (scan keqb mv cands') = true).
Proof. exact update_equals_rescan_candidates. Qed.

(* The key type of the implementation (tuple of optional strings) has such an equality. *)
Theorem C17_key_equality_decides : forall a b : key, key_eqb a b = true <-> a = b.
Proof. exact key_eqb_spec. Qed.

(* The executable regex matcher used by the model is sound for every regex and complete for
   every regex whose star / plus bodies consume one character (all that the compiler emits),
   back-references included. *)
Theorem C17_matcher_sound_complete :
  forall r s, wf_re r = true -> (accepts r s = true <-> exists e', mt r [] s e').
Proof. exact accepts_spec. Qed.

(* Non-vacuity of (1): the pattern d/${*n}-${*n}.t, four old paths, one deleted, two added. *)
Definition ex_pat : str := [100;47;36;123;42;110;125;45;36;123;42;110;125;46;116].
Definition ex_fs : list str := [[100;47;97;45;97;46;116]; [100;47;97;45;98;46;116]; [100;47;98;45;98;46;116]; [120]].
Definition ex_deleted : list str := [[100;47;97;45;97;46;116]].
Definition ex_added : list str := [[100;47;99;45;99;46;116]; [121]].
Definition ex_fs' : list str := [[100;47;97;45;98;46;116]; [100;47;98;45;98;46;116]; [120]; [100;47;99;45;99;46;116]; [121]].

(* (2) A repeated name only matches equal substrings, for EVERY pattern and substitution
   dictionary.  [ps] is the part list of the compiled regex (convert_nglob_to_regex returns the
   concatenation of their texts).  Whenever the regex matches a path, the path splits into one
   piece per part, and for the part that defines the group of a name and every later
   back-reference to that name the pieces are the same text, which is also the value reported for
   the name (the key component of NamedGlob.results).  Follows from the semantics of named groups
   and back-references and from the shape of the compiler's output (named groups only at the top
   level of the part list, each name defined once: C17_compiled_parts_shape). *)
Theorem C17_backref_equal_substrings :
  forall (p : str) (subs : subs_t) (ps : list re) (path : str) (e' : env),
    conv_regex p subs = COk ps ->
    mt (rcat ps) [] path e' ->
    exists pieces, concat pieces = path /\ length pieces = length ps /\
      forall i j n a, (i < j)%nat ->
        nth_error ps i = Some (RGrp n a) -> nth_error ps j = Some (RRef n) ->
        exists v, nth_error pieces i = Some v /\ nth_error pieces j = Some v /\ env_get n e' = Some v.
Proof. exact backref_equal_substrings_all. Qed.

Theorem C17_compiled_parts_shape :
  forall p subs ps, conv_regex p subs = COk ps -> parts_ok ps = true.
Proof. exact conv_regex_parts_ok. Qed.

Example C17_example_backref :
  match conv_regex ex_pat [] with
  | COk ps => parts_ok ps = true
              /\ nth_error ps 1 = Some (RGrp [110] re_star) /\ nth_error ps 3 = Some (RRef [110])
              /\ accepts (rcat ps) [100;47;97;45;97;46;116] = true
              /\ accepts (rcat ps) [100;47;97;45;98;46;116] = false
  | CErr _ => False
  end.
Proof. vm_compute. repeat split. Qed.

(* (3) On the fragment F1 the compiled regex IS the reference semantics.  F1 ([f1], decidable):
   literals, `?`, classes that cannot match the separator, `*` and default named wildcards with
   pairwise distinct names, no two of the latter two kinds next to each other, no `**`.
   For every such pattern and every canonical path (not empty, no leading separator, no two
   separators in a row), re.fullmatch of the compiled regex answers exactly what [nglob_ref false]
   answers: the path rules (a complete component is never empty; only a pattern that ends with a
   separator or with a star-like wildcard matches a directory) plus one specification regex per
   token with no context-dependent rule.  So on F1 the enclosed rule, the trailing rule and the
   appended `/?` of convert_nglob_to_regex implement the documentation exactly.  The fragment is
   tight in the directions the refutations below show (negated classes, neighbouring wildcards,
   `**/` before a trailing star, trailing back-references are excluded and are defects). *)
Theorem C17_compile_regex_correct_partial :
  forall (p : str) (subs : subs_t) (ps : list re) (s : str),
    f1 p subs = true -> conv_regex p subs = COk ps -> wf_path s = true ->
    nglob_ref false p subs s = Some (accepts (rcat ps) s).
Proof. exact compile_regex_correct_partial. Qed.

(* Replacing an anonymous `*` by a named wildcard (both patterns in F1, so the name is new and
   has no sub-pattern) never changes which canonical paths the compiled regex accepts. *)
Theorem C17_named_equals_star_partial :
  forall (p1 p2 : str) (subs : subs_t) (pre post : list tok) (n : str) (ps1 ps2 : list re) (s : str),
    tokenize p1 = pre ++ TStar :: post -> tokenize p2 = pre ++ TName n :: post ->
    f1 p1 subs = true -> f1 p2 subs = true ->
    conv_regex p1 subs = COk ps1 -> conv_regex p2 subs = COk ps2 ->
    wf_path s = true ->
    accepts (rcat ps2) s = accepts (rcat ps1) s.
Proof. exact named_equals_star_partial. Qed.

(* Non-vacuity: `src/*/m_${*n}.[ch]?` is in F1, and so is the variant with `*` in place of ${*n}. *)
Example C17_example_f1 :
  f1 [115;114;99;47;42;47;109;95;36;123;42;110;125;46;91;99;104;93;63] [] = true
  /\ f1 [115;114;99;47;42;47;109;95;42;46;91;99;104;93;63] [] = true
  /\ wf_path [115;114;99;47;97;47;109;95;120;46;99;49] = true
  /\ nglob_ref false [115;114;99;47;42;47;109;95;36;123;42;110;125;46;91;99;104;93;63] [] [115;114;99;47;97;47;109;95;120;46;99;49] = Some true
  /\ nglob_ref false [115;114;99;47;42;47;109;95;36;123;42;110;125;46;91;99;104;93;63] [] [115;114;99;47;47;109;95;120;46;99;49] = Some false
  /\ f1 [42;91;33;97;93] [] = false /\ f1 [100;47;42;36;123;42;110;125] [] = false /\ f1 [100;47;42;42;47;42] [] = false.
Proof. vm_compute. repeat split. Qed.

(* The same at the level of the regex semantics, for arbitrary part lists: wrapping one part into
   a named group that no later part refers to never changes which strings are accepted. *)
Theorem C17_named_group_wrapping_preserves_acceptance_partial :
  forall (ps1 : list re) (a : re) (ps2 : list re) (n : str) (s : str),
    forallb (noref n) ps2 = true ->
    (accepted (rcat (ps1 ++ a :: ps2)) s <-> accepted (rcat (ps1 ++ RGrp n a :: ps2)) s).
Proof. exact named_group_wrapping_preserves_acceptance. Qed.

Example C17_example_named_vs_star :
  conv_regex [120;47;42;47;121] [] = COk ([RStr [120;47]] ++ re_plus :: [RStr [47;121]])
  /\ conv_regex [120;47;36;123;42;110;125;47;121] [] = COk ([RStr [120;47]] ++ RGrp [110] re_plus :: [RStr [47;121]])
  /\ forallb (noref [110]) [RStr [47;121]] = true.
Proof. vm_compute. repeat split. Qed.

(* The full statement of the property on the model: matcher = documented semantics, recorded set =
   accepted existing paths = standard glob (without repeated names) on every finite tree, a named
   wildcard in place of an anonymous `*` never changes acceptance.  NOT proved; it is false of the
   current code (next theorems).  Proved parts: (1), (2), (3 on F1) above; see design.d/C17.md for
   what is missing (patterns outside F1, candidate completeness of the glob translation). *)
Definition C17_full : Prop :=
  forall (p : str) (subs : subs_t) (g : ng) (gp : str),
    ng_make p subs = COk g -> conv_glob p subs = COk gp ->
    (forall path b, wf_path path = true -> nglob_ref true p subs path = Some b -> ng_accepts g path = b)
    /\ (forall t q, In q (files (scan key_eqb (ng_mv g) (glob_paths t gp)))
                    <-> In q (all_paths t) /\ ng_accepts g q = true)
    /\ (NoDup (name_occurrences (tokenize p)) ->
        forall t q, In q (files (scan key_eqb (ng_mv g) (glob_paths t gp))) <-> In q (glob_paths t gp))
    /\ (forall p2 g2 pre post n,
          tokenize p = pre ++ TStar :: post -> tokenize p2 = pre ++ TName n :: post ->
          ~ In n (name_occurrences (tokenize p)) -> subs_get n subs = None ->
          ng_make p2 subs = COk g2 -> forall path, ng_accepts g2 path = ng_accepts g path).

Theorem C17_full_refuted : ~ C17_full.
Proof. exact C17_full_statement_refuted. Qed.

(* The individual defects, each with a concrete tree / pattern / path computed in the model and
   replayed on the implementation by the oracle (harness/p_c17.py WITNESSES). *)

(* `*[!a]`: [!a] becomes [^a], which matches '/': "a/" is accepted but never returned by glob. *)
Theorem C17_negated_class_accepts_separator_refuted :
  exists t p subs path,
    recorded t p subs = Some [] /\ accepted_existing t p subs = Some [path]
    /\ nglob_ref false p subs path = Some false /\ nglob_ref true p subs path = Some false.
Proof. exact negated_class_accepts_separator_refuted. Qed.

(* consequently an update (directory a/ created) reports a change that a rescan does not see *)
Theorem C17_update_differs_from_rescan_refuted :
  exists p subs g t',
    ng_make p subs = COk g /\ recorded [] p subs = Some [] /\ recorded t' p subs = Some []
    /\ will_change key_eqb (ng_mv g) [] [] (all_paths t') <> None.
Proof. exact update_differs_from_rescan_refuted. Qed.

(* `a` does not record the directory a/ that the standard glob returns *)
Theorem C17_directory_dropped_refuted :
  exists t p subs, recorded t p subs = Some [] /\ std_glob t p subs = Some [[97; 47]].
Proof. exact directory_dropped_refuted. Qed.

(* D5c, fixed (203e57e): `f/**` with a regular file f.  glob still yields the non-existing "f/" and the
   regex accepts it, but glob() skips it: nothing is recorded.  For every kept candidate, one that
   ends with a separator is a directory.  Before the fix "f/" was recorded. *)
Theorem C17_nonexistent_directory_filtered :
  exists t p subs gp path,
    conv_glob p subs = COk gp /\ In path (glob_paths_raw t gp) /\ mem_str path (all_paths t) = false
    /\ recorded t p subs = Some [] /\ accepted_existing t p subs = Some [].
Proof. exact nonexistent_directory_filtered. Qed.

Theorem C17_kept_slash_is_directory :
  forall pn, kept pn = true -> ends_slash (canon pn) = true -> is_dir_opt (snd pn) = true.
Proof. exact kept_slash_is_directory. Qed.

Theorem C17_nonexistent_directory_recorded_before_fix :
  exists t p subs path,
    recorded_unfiltered t p subs = Some [path] /\ mem_str path (all_paths t) = false.
Proof. exact nonexistent_directory_recorded_before_fix. Qed.

(* `d/*${*n}` and `d/**/*` accept "d/" (an empty last component) *)
Theorem C17_empty_component_accepted_refuted :
  (exists t p subs path,
     recorded t p subs = Some [] /\ accepted_existing t p subs = Some [path]
     /\ nglob_ref false p subs path = Some false)
  /\ (exists t p subs path,
     recorded t p subs = Some [] /\ accepted_existing t p subs = Some [path]
     /\ nglob_ref false p subs path = Some false /\ p = [100;47;42;42;47;42]).
Proof. exact empty_component_accepted_both_refuted. Qed.

(* third trigger: `a${*n}/${*n}` accepts "a/" with n = "" *)
Theorem C17_empty_component_backref_refuted :
  exists t p subs path,
    recorded t p subs = Some [] /\ accepted_existing t p subs = Some [path]
    /\ nglob_ref false p subs path = Some false.
Proof. exact empty_component_backref_refuted. Qed.

(* D5e, fixed (5ed14b3): `d/**` records a file whose name contains a newline, as the standard glob
   does; `.*` under DOTALL accepts every string.  Before the fix (same regex text, no DOTALL) the
   path was rejected. *)
Theorem C17_recursive_wildcard_matches_newline :
  exists t p subs path,
    std_glob t p subs = Some [[100;47]; path] /\ recorded t p subs = Some [[100;47]; path]
    /\ nglob_ref false p subs path = Some true.
Proof. exact recursive_wildcard_matches_newline. Qed.

Theorem C17_dstar_accepts_all : forall s, accepted re_dstar s.
Proof. exact dstar_accepts_all. Qed.

Theorem C17_newline_not_matched_before_fix :
  let old := rcat [RStr [100;47]; RStar (RAny false)] in
  let new := rcat [RStr [100;47]; RStar (RAny true)] in
  pr old = pr new /\ conv_regex [100;47;42;42] [] = COk [RStr [100;47]; RStar (RAny true)]
  /\ accepts old [100;47;110;10;108] = false /\ accepts new [100;47;110;10;108] = true.
Proof. exact newline_not_matched_before_fix. Qed.

(* `*${*n}aa` with n = `**`: the sub-pattern is compiled out of context *)
Theorem C17_recursive_sub_pattern_refuted :
  exists t p subs path, recorded t p subs = Some [] /\ accepted_existing t p subs = Some [path].
Proof. exact recursive_sub_pattern_refuted. Qed.

(* The tie: constants regenerated from the source on every run are the ones the model uses, and
   the fingerprinted functions are unchanged. *)
Theorem C17_model_tied_to_source :
  (gen_any_wild = golden_any_wild /\ gen_any_wild_flags = golden_any_wild_flags)
  /\ (pr re_q = gen_frag_q /\ pr re_star = gen_frag_star /\ pr re_dstar = gen_frag_dstar
      /\ pr re_dstarslash = gen_frag_dstarslash)
  /\ (forall body, pr (RCls true body) = fill gen_cls_neg [body])
  /\ (forall body, pr (RCls false body) = fill gen_cls_pos [body])
  /\ (forall n, pr (RRef n) = fill gen_ref [n])
  /\ (forall n a, pr (RGrp n a) = fill gen_grp [n; pr a])
  /\ (forall n, pr (RGrp n re_plus) = fill gen_post_encl_grp [n])
  /\ pr re_plus = gen_post_trail_plus /\ pr re_optslash = gen_post_optslash
  /\ re_escape_specials = gen_escape_specials
  /\ gen_fingerprints = golden_fingerprints
  /\ (dotall = gen_compile_dotall /\ gen_glob_skips_nondir_slash = true).
Proof. exact model_tied_to_source. Qed.

(* The tie by TRANSLATION.  gen/GenNglobCode.v is regenerated on every run from the Python AST of
   nglob.py, statement by statement (translator/gen_nglob_code.py, fail closed), over the Python-level
   primitives of model/NglobPy.v.  For ALL inputs the translated extend / reduce / will_change /
   files / _match_values / _get_wildcard_name / convert_nglob_to_glob are the model functions the
   theorems above are about (for every key type whose equality is reflexive, as Python requires of
   dictionary keys; key_eqb is).  The literal texts between wildcards never contain `*` or `?` and
   are never empty, which is what lets the string comparisons of the code (`part == "*"`) be read
   as tests on the kind of token. *)
Theorem C17_translated_code_equals_model :
  (forall (K : Type) (keqb : K -> K -> bool) (mv : str -> option K), (forall k, keqb k k = true) ->
     (forall r paths, gen_extend K keqb mv r paths = extend keqb mv r paths)
     /\ (forall r paths, gen_reduce K keqb mv r paths = reduce keqb mv r paths)
     /\ (forall r deleted added, gen_will_change K keqb mv r deleted added = will_change keqb mv r deleted added)
     /\ (forall r q, In q (gen_files K r) <-> In q (files r)))
  /\ (forall k : key, key_eqb k k = true)
  /\ (forall r names path, gen_match_values r names path = match_values r names path)
  /\ (forall n, gen_get_wildcard_name (TName n) = if is_nil n then CErr EEmptyName else COk n)
  /\ (forall p subs, gen_conv_glob p subs = conv_glob p subs)
  /\ (forall p, Forall lit_ok (tokenize p))
  /\ forallb (fun tc => str_eqb (tok_text (fst tc)) (snd tc)) gen_tok_consts = true.
Proof. exact translated_code_equals_model. Qed.

Example C17_example_update :
  match ng_make ex_pat [] with
  | CErr _ => False
  | COk g =>
    let mv := ng_mv g in
    let old := scan key_eqb mv ex_fs in
    files old = [[100;47;97;45;97;46;116]; [100;47;98;45;98;46;116]]
    /\ forallb (fun p => mem_str p ex_fs') ex_added = true
    /\ forallb (fun p => negb (mem_str p ex_fs')) ex_deleted = true
    /\ files (reduce key_eqb mv (extend key_eqb mv old ex_added) ex_deleted)
       = [[100;47;98;45;98;46;116]; [100;47;99;45;99;46;116]]
    /\ will_change key_eqb mv old ex_deleted ex_added <> None
    /\ will_change key_eqb mv old [] [[121]] = None
  end.
Proof. vm_compute. repeat split; try reflexivity; discriminate. Qed.
