(* C17 Named glob matching is consistent with the file system and with itself.
   Property theorems only; proofs live in lib/Regex.v, proofs/NglobProofs.v, proofs/NglobTie.v. *)
From Coq Require Import List NArith Bool.
From SV Require Import lib.Bytes.
From SV Require Import lib.Regex.
From SV Require Import gen.GenNglob.
From SV Require Import model.Nglob.
From SV Require Import model.NglobGolden.
From SV Require Import proofs.NglobProofs.
From SV Require Import proofs.NglobTie.
Import ListNotations.
Open Scope N_scope.

(* (1) Updating a recorded match set from lists of added and deleted paths gives the same
   dictionary as scanning the file system again.

   For ANY matcher [mv] (path -> captured name values, None = no match), any key type with a
   decidable equality, any recorded dictionary [old] reachable from the empty one by extend /
   reduce that equals (as a Python dict of sets) the scan of the old path list [fs], and any
   lists [added] / [deleted] such that
     - every added path exists afterwards, no deleted path exists afterwards,
     - for every path the matcher accepts: it exists afterwards iff it existed before and was not
       deleted, or it was added
   (what Workflow.process_nglob_changes receives from the watcher: `deleted & updated` is empty
   and raises otherwise; the watcher's last-event-wins fold is the subject of C14), the dictionary
   reduce (extend old added) deleted
     - equals the dictionary of a fresh scan of the new path list [fs'],
     - lists exactly the accepted paths of [fs'],
   and will_change returns None exactly when the fresh scan equals the old dictionary.
   Arbitrary lists (duplicates, any order, irrelevant paths), no bounds. *)
Theorem C17_update_equals_rescan :
  forall (K : Type) (keqb : K -> K -> bool), (forall a b, keqb a b = true <-> a = b) ->
  forall (mv : str -> option K) (old : results K) (fs fs' added deleted : list str),
    reachable K keqb mv old ->
    results_eqb keqb old (scan keqb mv fs) = true ->
    (forall p, In p added -> In p fs') ->
    (forall p, In p deleted -> ~ In p fs') ->
    (forall p, mv p <> None -> (In p fs' <-> (In p fs /\ ~ In p deleted) \/ In p added)) ->
    let upd := reduce keqb mv (extend keqb mv old added) deleted in
    results_eqb keqb upd (scan keqb mv fs') = true
    /\ (forall p, In p (files upd) <-> In p fs' /\ mv p <> None)
    /\ (will_change keqb mv old deleted added = None <-> results_eqb keqb old (scan keqb mv fs') = true).
Proof. exact update_equals_rescan. Qed.

(* The key type of the implementation (tuple of optional strings) has such an equality. *)
Theorem C17_key_equality_decides : forall a b : key, key_eqb a b = true <-> a = b.
Proof. exact key_eqb_spec. Qed.

(* The executable regex matcher used by the model is sound for every regex and complete for
   every regex whose star / plus bodies consume one character (all that the compiler emits),
   back-references included. *)
Theorem C17_matcher_sound_complete :
  forall r s, wf_re r = true -> (accepts r s = true <-> exists e', mt r [] s e').
Proof. exact accepts_spec. Qed.

(* The tie: constants regenerated from the source on every run are the ones the model uses, and
   the fingerprinted functions are unchanged. *)
Theorem C17_model_tied_to_source :
  (gen_any_wild = golden_any_wild /\ gen_any_wild_flags = golden_any_wild_flags)
  /\ (pr re_q = gen_frag_q /\ pr re_star = gen_frag_star /\ pr re_dstar = gen_frag_dstar
      /\ pr re_dstarslash = gen_frag_dstarslash)
  /\ (forall body, pr (RCls true body) = fill gen_cls_neg [body])
  /\ (forall body, pr (RCls false body) = fill gen_cls_pos [body])
  /\ (forall n, pr (RRef n) = fill gen_ref [n])
  /\ (forall n a, pr (RGrp n a) = fill gen_grp [n; pr a])
  /\ (forall n, pr (RGrp n re_plus) = fill gen_post_encl_grp [n])
  /\ pr re_plus = gen_post_trail_plus /\ pr re_optslash = gen_post_optslash
  /\ re_escape_specials = gen_escape_specials
  /\ gen_fingerprints = golden_fingerprints.
Proof.
  split; [exact tokenizer_source_tied|].
  split; [repeat split; apply fragments_tied|].
  split; [apply templates_tied|]. split; [apply templates_tied|].
  split; [apply templates_tied|]. split; [apply templates_tied|].
  split; [apply post_processing_tied|]. split; [apply post_processing_tied|].
  split; [apply post_processing_tied|].
  split; [exact escape_tied|exact fingerprints_tied].
Qed.

(* Non-vacuity of (1): the pattern d/${*n}-${*n}.t, four old paths, one deleted, two added. *)
Definition ex_pat : str := [100;47;36;123;42;110;125;45;36;123;42;110;125;46;116].
Definition ex_fs : list str := [[100;47;97;45;97;46;116]; [100;47;97;45;98;46;116]; [100;47;98;45;98;46;116]; [120]].
Definition ex_deleted : list str := [[100;47;97;45;97;46;116]].
Definition ex_added : list str := [[100;47;99;45;99;46;116]; [121]].
Definition ex_fs' : list str := [[100;47;97;45;98;46;116]; [100;47;98;45;98;46;116]; [120]; [100;47;99;45;99;46;116]; [121]].

Example C17_example_update :
  match ng_make ex_pat [] with
  | CErr _ => False
  | COk g =>
    let mv := ng_mv g in
    let old := scan key_eqb mv ex_fs in
    files old = [[100;47;97;45;97;46;116]; [100;47;98;45;98;46;116]]
    /\ forallb (fun p => mem_str p ex_fs') ex_added = true
    /\ forallb (fun p => negb (mem_str p ex_fs')) ex_deleted = true
    /\ files (reduce key_eqb mv (extend key_eqb mv old ex_added) ex_deleted)
       = [[100;47;98;45;98;46;116]; [100;47;99;45;99;46;116]]
    /\ will_change key_eqb mv old ex_deleted ex_added <> None
    /\ will_change key_eqb mv old [] [[121]] = None
  end.
Proof. vm_compute. repeat split; try reflexivity; discriminate. Qed.
